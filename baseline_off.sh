#!/bin/sh
# Runs the repository's own golden suite with the verification guard OFF:
# re-configures /repo/_build exactly as the baseline does (no -DASL_VERIF, no
# sanitiser), builds, and runs the 201 ctest cases.
set -e
REPO="${VERIF_REPO:-/repo}"
cmake -G Ninja -S "$REPO" -B "$REPO/_build" >/dev/null
cmake --build "$REPO/_build" -j16 >/dev/null
exec ctest --test-dir "$REPO/_build" -j8 --timeout 900
