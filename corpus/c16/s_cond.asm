	cpu	6809
	org	$400
Level	equ	2
	if	Level=1
	lda	#1
	elseif	Level=2
	lda	#2
	else
	lda	#3
	endif
Loop:	deca
	bne	Loop
	switch	Level
	case	1
	fcb	11
	case	2,3
	fcb	22
	elsecase
	fcb	33
	endcase
	fdb	Loop
