	cpu	68000
	org	$1000
fill:	moveq	#7,d0
.loop:	clr.b	(a0)+
	dbra	d0,.loop
	rts
copyBlk:	moveq	#3,d1
.loop:	move.b	(a0)+,(a1)+
	dbra	d1,.loop
	bra	fill
MixedCase:	nop
.done:	bra	.done
	dc.l	fill,copyBlk,MixedCase
