	cpu	8051
	org	30h
delay	macro	cnt
	mov	r0,#cnt
inner:	djnz	r0,inner
	endm
Main:	delay	5
	delay	7
	sjmp	Main
	db	"Text",0
