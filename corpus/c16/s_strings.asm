	cpu	z80
	org	100h
start:	db	"C:\\"
	ld	a,'\\'
	db	"a;b",';'
	db	"tab\there","q\"uote"
	db	'x',"y"
	db	"back\\slash\\"
	db	"semi;colon\\"
	ld	a,';'
	db	"\\\\"
	db	"one\\","two"
	db	'\\',1,2
	dw	start
str	equ	"D:\\"
	db	str,"E:\\"
	if	str="D:\\"
	db	"yes"
	endif
