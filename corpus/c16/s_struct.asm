	cpu	z80
	org	100h
Rec	struct
ident	db	?
ptr	dw	?
Rec	endstruct
start:	ld	a,(buf+Rec_ident)
	ld	hl,(buf+Rec_ptr)
	jp	start
buf:	db	Rec_len dup (0)
