	cpu	6502
	org	$2000
first:	ldx	#0
$$lp:	dex
	bne	$$lp
second:	ldy	#3
$$lp:	dey
	bne	$$lp
-	inx
	bne	-
	beq	+
	nop
+	rts
tab:	adr	first,second,tab
