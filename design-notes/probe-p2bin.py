import struct,subprocess,os,sys
def pfile(recs,entry=None,creator=b'AS test'):
    b=b'\x89\x14'
    for (cpu,seg,gran,addr,data) in recs:
        b+=bytes([0x81,cpu,seg,gran])+struct.pack('<IH',addr,len(data))+data
    if entry is not None: b+=b'\x80'+struct.pack('<I',entry)
    return b+b'\x00'+creator
def run(name,recs,args,entry=None,tool='p2bin',out='o.bin'):
    open('i.p','wb').write(pfile(recs,entry))
    if os.path.exists(out): os.remove(out)
    r=subprocess.run(['/repo/_build/'+tool,'i.p',out]+args,capture_output=True)
    o=open(out,'rb').read() if os.path.exists(out) else None
    print(name,'rc',r.returncode,'out',o.hex() if o is not None and len(o)<80 else (len(o) if o else None),'| stderr:',r.stderr.decode().strip()[:100],'| stdout:',' / '.join(r.stdout.decode().split('\n')[2:])[:160])
Z=0x51
run('basic',[(Z,1,1,0x100,bytes(range(1,9)))],['-r','$-$'])
run('gap',[(Z,1,1,0x100,b'\x01\x02'),(Z,1,1,0x105,b'\x03')],['-r','$-$','-l','0xee'])
run('overlap',[(Z,1,1,0x100,b'\x01\x02\x03'),(Z,1,1,0x102,b'\x09')],['-r','$-$'])
run('adjacent',[(Z,1,1,0x100,b'\x01\x02\x03'),(Z,1,1,0x103,b'\x09')],['-r','$-$'])
run('even@even',[(Z,1,1,0x100,bytes(range(1,9)))],['-r','$-$','-m','even'])
run('odd@even',[(Z,1,1,0x100,bytes(range(1,9)))],['-r','$-$','-m','odd'])
run('even@odd',[(Z,1,1,0x101,bytes(range(1,8)))],['-r','$-$','-m','even'])
run('odd@odd',[(Z,1,1,0x101,bytes(range(1,8)))],['-r','$-$','-m','odd'])
run('byte2',[(Z,1,1,0x100,bytes(range(1,13)))],['-r','$-$','-m','byte2'])
run('word1',[(Z,1,1,0x100,bytes(range(1,13)))],['-r','$-$','-m','word1'])
run('win',[(Z,1,1,0x100,bytes(range(1,9)))],['-r','0x102-0x105'])
run('winbig',[(Z,1,1,0x100,bytes(range(1,5)))],['-r','0xfe-0x105'])
run('filter',[(Z,1,1,0x100,b'\x01\x02'),(0x11,1,1,0x102,b'\x03')],['-r','$-$','-f','0x51'])
run('cksum',[(Z,1,1,0x100,bytes(range(1,9)))],['-r','$-$','-s'])
run('hdr',[(Z,1,1,0x100,b'\x01\x02')],['-r','$-$','-S','B4'],entry=0x12345678)
run('hdrL2',[(Z,1,1,0x100,b'\x01\x02')],['-r','$-$','-S','2','-e','0xabcd'])
run('gran2',[(0x70,1,2,0x10,bytes(range(1,9)))],['-r','$-$'])
run('gran2win',[(0x70,1,2,0x10,bytes(range(1,9)))],['-r','0x11-0x12'])
run('seg',[(Z,1,1,0x100,b'\x01'),(Z,2,1,0x20,b'\x07\x08')],['-r','$-$','-segment','data'])
run('offs',[(Z,1,1,0x100,b'\x01\x02')],['-r','$-$'])
