import struct,subprocess,os,sys
exec(open('t.py').read().split("Z=0x51")[0])
def runh(name,recs,args,entry=None):
    open('i.p','wb').write(pfile(recs,entry))
    if os.path.exists('o.hex'): os.remove('o.hex')
    r=subprocess.run(['/repo/_build/p2hex','-q','i.p','o.hex']+args,capture_output=True)
    o=open('o.hex').read() if os.path.exists('o.hex') else None
    print('==',name,'rc',r.returncode,r.stderr.decode().strip()[:100]); print(o)
d=bytes(range(1,21))
for f in ['Moto','Intel','Intel16','Intel32','MOS','Tek','Atmel','C']:
    runh(f,[(0x51,1,1,0x1000,d)],['-F',f,'-r','$-$'],entry=0x1000)
runh('Intel32 cross',[(0x51,1,1,0xfff8,d)],['-F','Intel32','-r','$-$'])
runh('Moto big',[(0x01,1,1,0x123456,d[:4])],['-F','Moto','-r','$-$'])
runh('default 65xx',[(0x11,1,1,0x200,d[:4])],['-r','$-$'])
runh('default avr',[(0x3b,1,2,0x20,d[:6])],['-r','$-$'])
runh('pic m0',[(0x70,1,2,0x10,d[:6])],['-r','$-$','-m','0'])
runh('pic m1',[(0x70,1,2,0x10,d[:6])],['-r','$-$','-m','1'])
runh('pic m2',[(0x70,1,2,0x10,d[:6])],['-r','$-$','-m','2'])
runh('rel',[(0x51,1,1,0x1000,d[:4])],['-F','Intel','-r','0x1001-0x1002','-a'])
runh('reloc',[(0x51,1,1,0x1000,d[:4])],['-F','Intel','-r','$-$','-R','0x100'])
