import random,subprocess,struct,sys
M=(1<<64)-1
def s64(x): x&=M; return x-(1<<64) if x>>63 else x
RANK={'<<':3,'>>':3,'><':4,'&':5,'|':6,'!':7,'^':8,'*':9,'/':9,'#':9,'+':10,'-':10,'&&':11,'||':12,'!!':13,'=':14,'<>':14,'<':14,'>':14,'<=':14,'>=':14,'==':14}
BOUND=[0,1,2,3,7,8,15,16,31,32,33,63,64,65,255,256,65535,65536,2**31-1,2**31,2**32-1,2**32,2**62,2**63-1,-1,-2,-128,-2**31,-2**63,-2**63+1]
class Und(Exception): pass
def ev(t):
    if isinstance(t,int): return t
    op,a,b=t
    if op=='~': return s64(~ev(b))
    if op=='~~': return 0 if ev(b) else 1
    x,y=ev(a),ev(b)
    if op=='+': return s64(x+y)
    if op=='-': return s64(x-y)
    if op=='*': return s64(x*y)
    if op=='/':
        if y==0: raise Und('div0')
        q=abs(x)//abs(y); q=-q if (x<0)!=(y<0) else q
        return s64(q)
    if op=='#':
        if y==0: raise Und('mod0')
        q=abs(x)//abs(y); q=-q if (x<0)!=(y<0) else q
        return s64(x-q*y)
    if op=='&': return s64(x&y)
    if op=='|': return s64(x|y)
    if op=='!': return s64(x^y)
    if op=='<<':
        if not 0<=y<64: raise Und('shift')
        return s64(x<<y)
    if op=='>>':
        if not 0<=y<64: raise Und('shift')
        return s64((x&M)>>y)
    if op=='><':
        if not 1<=y<=32: raise Und('mirror')
        r=(x&M)>>y<<y
        for z in range(y):
            if (x>>(y-1-z))&1: r|=1<<z
        return s64(r)
    if op=='^':
        if y<0: raise Und('negpow')
        return s64(pow(x,y,1<<64))
    if op=='&&': return 1 if (x and y) else 0
    if op=='||': return 1 if (x or y) else 0
    if op=='!!': return 1 if (bool(x)!=bool(y)) else 0
    if op in('=','=='): return int(x==y)
    if op in('<>','!='): return int(x!=y)
    if op=='<': return int(x<y)
    if op=='>': return int(x>y)
    if op=='<=': return int(x<=y)
    if op=='>=': return int(x>=y)
    raise KeyError(op)
def gen(r,d):
    if d==0 or r.random()<0.25:
        return r.choice(BOUND) if r.random()<0.6 else r.randrange(-1000,1000)
    if r.random()<0.1: return (r.choice(['~','~~']),None,gen(r,d-1))
    return (r.choice(list(RANK)),gen(r,d-1),gen(r,d-1))
def lit(v):
    if v==-2**63: return '(-9223372036854775807-1)'
    return '(%d)'%v if v<0 else str(v)
def full(t):
    if isinstance(t,int): return lit(t)
    op,a,b=t
    if a is None: return '(%s%s)'%(op,full(b))
    return '(%s%s%s)'%(full(a),op,full(b))
def minimal(t,parent=None,side=None):
    if isinstance(t,int): return lit(t)
    op,a,b=t
    if a is None: s='%s%s'%(op,minimal(b,99 if False else 0,'r') if not isinstance(b,int) else lit(b)); 
    else: s='%s%s%s'%(minimal(a,RANK[op],'l'),op,minimal(b,RANK[op],'r'))
    if parent is None: return s
    myr=RANK[op] if a is not None else (1 if op=='~' else 2)
    if a is None: return '('+s+')'   # keep unary parenthesised (manual silent on adjacency)
    if myr<parent or (myr==parent and side=='l'): return s
    return '('+s+')'
r=random.Random(int(sys.argv[1])); N=int(sys.argv[2]); mode=sys.argv[3]
cases=[]
while len(cases)<N:
    t=gen(r,r.randint(1,4))
    try: v=ev(t)
    except Und: continue
    cases.append((t,v))
src=[' cpu 68000',' padding off']
for t,v in cases: src.append(' dc.q '+(full(t) if mode=='full' else minimal(t)))
open('x.asm','w').write('\n'.join(src)+'\n')
p=subprocess.run(['/repo/_build/asl','-q','x.asm'],capture_output=True,text=True)
if p.returncode!=0:
    print('asl rc',p.returncode); print(p.stderr[:1500]); sys.exit()
subprocess.run(['/repo/_build/p2bin','-q','x.p','x.bin','-r','$-$'],capture_output=True)
b=open('x.bin','rb').read()
bad=0
for i,(t,v) in enumerate(cases):
    got=struct.unpack('>q',b[8*i:8*i+8])[0]
    if got!=v:
        bad+=1
        if bad<15: print('MISMATCH',src[2+i],'exp',v,'got',got)
print(N,'cases',bad,'mismatches')
