import os,subprocess,sys,shutil,re
ASL='/repo/_build/asl'; P2BIN='/repo/_build/p2bin'
mode=sys.argv[1]
def rewrite(text):
    lines=text.split('\n')
    out=[]
    for l in lines:
        if mode=='crlf': out.append(l+'\r')
        elif mode=='comment':
            out.append(l+' ; zz' if l.strip() and '"' not in l and "'" not in l and ';' not in l and not l.rstrip().endswith('\\') else l)
        elif mode=='blank': out.append(l); out.append('')
        elif mode=='tabs': out.append(l.replace('\t','        ') if '"' not in l and "'" not in l else l)
        elif mode=='ident': out.append(l)
    return '\n'.join(out)
res={}
for t in sorted(os.listdir('/repo/tests')):
    d='/repo/tests/'+t
    if not os.path.exists(d+'/'+t+'.asm'): continue
    w='/scratch/c16/w/'+t
    shutil.rmtree(w,ignore_errors=True); os.makedirs(w)
    for f in os.listdir(d):
        if f.endswith('.ori') or f=='asflags' or f.endswith('.doc'): continue
        src=open(d+'/'+f,'rb').read()
        if f.endswith('.asm') or f.endswith('.inc'):
            try: src=rewrite(src.decode('latin-1')).encode('latin-1')
            except Exception as e: pass
        open(w+'/'+f,'wb').write(src)
    flags=open(d+'/asflags').read().split() if os.path.exists(d+'/asflags') else []
    r=subprocess.run([ASL]+flags+['-q','-i','/repo/include',t+'.asm','-o',t+'.p'],cwd=w,capture_output=True,timeout=120)
    if r.returncode!=0: res[t]='asl rc=%d %s'%(r.returncode,(r.stdout+r.stderr)[:200]); continue
    r=subprocess.run([P2BIN,'-q','-l','0','-r','0x-0x',t],cwd=w,capture_output=True)
    if r.returncode!=0: res[t]='p2bin rc=%d'%r.returncode; continue
    if open(w+'/'+t+'.bin','rb').read()!=open(d+'/'+t+'.ori','rb').read(): res[t]='DIFF'
print(mode,len(res),'alarms'); 
for k,v in res.items(): print(' ',k,v)
