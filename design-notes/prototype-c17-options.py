import os,subprocess,random,hashlib,shutil
ASL='/repo/_build/asl'
tests=[t for t in sorted(os.listdir('/repo/tests')) if os.path.exists('/repo/tests/%s/%s.asm'%(t,t))]
random.seed(2)
OPTS=[['-L'],['-u','-L'],['-C','-L'],['-s','-L'],['-I','-L'],['-g','MAP'],['-g','NOICE'],['-g','ATMEL'],['-t','5','-L'],['-x'],['-x','-x'],['-n'],['-A'],['-r'],['-gnuerrors'],['-LISTRADIX','8','-L'],['-P'],['-M'],['-h'],['-a'],['-p'],['-E','err.log']]
def run(t,extra,w,env=None):
    shutil.rmtree(w,ignore_errors=True); os.makedirs(w)
    d='/repo/tests/'+t
    for f in os.listdir(d):
        if not f.endswith('.ori'): shutil.copy(d+'/'+f,w)
    flags=open(d+'/asflags').read().split()
    e=dict(os.environ); 
    if env: e.update(env)
    r=subprocess.run([ASL]+flags+['-q','-i','/repo/include',t+'.asm']+extra,cwd=w,capture_output=True,timeout=300,env=e)
    p=w+'/'+t+'.p'
    return r.returncode,(hashlib.sha1(open(p,'rb').read()).hexdigest() if os.path.exists(p) else None)
bad=0;n=0
for t in tests:
    base=run(t,[],'w/base')
    for k in range(4):
        ex=[]
        for o in random.sample(OPTS,3): ex+=o
        env=random.choice([None,{'LANG':'de_DE'},{'LC_ALL':'en_US'}])
        r=run(t,ex,'w/x',env); n+=1
        if r!=base: bad+=1; print('MISMATCH',t,ex,env,base,r)
print(n,'runs',bad,'mismatches')
