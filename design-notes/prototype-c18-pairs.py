import os,subprocess,random,hashlib,shutil
ASL='/repo/_build/asl'
tests=[t for t in sorted(os.listdir('/repo/tests')) if os.path.exists('/repo/tests/%s/%s.asm'%(t,t)) and not open('/repo/tests/%s/asflags'%t).read().strip()]
random.seed(1)
def run(files,w):
    shutil.rmtree(w,ignore_errors=True); os.makedirs(w)
    args=[ASL,'-q','-i','/repo/include']
    for t in files: args+=['/repo/tests/%s/%s.asm'%(t,t),'-o',w+'/'+t+'.p']
    r=subprocess.run(args,cwd=w,capture_output=True,timeout=300)
    return r.returncode,{t:(hashlib.sha1(open(w+'/'+t+'.p','rb').read()).hexdigest() if os.path.exists(w+'/'+t+'.p') else None) for t in files},r.stdout+r.stderr
solo={}
for t in tests: solo[t]=run([t],'w/solo')
bad=0
for i in range(150):
    a,b=random.sample(tests,2)
    rc,h,out=run([a,b],'w/pair')
    if h[a]!=solo[a][1][a] or h[b]!=solo[b][1][b] or rc!=max(solo[a][0],solo[b][0]):
        bad+=1; print('MISMATCH',a,b,rc,h[a]==solo[a][1][a],h[b]==solo[b][1][b],out[:300])
print(len(tests),'tests',bad,'mismatches')
