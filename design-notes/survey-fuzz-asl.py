import os,random,subprocess,re,sys,shutil,collections
from concurrent.futures import ThreadPoolExecutor
ASL='/scratch/b_san2/asl'
tests=[t for t in sorted(os.listdir('/repo/tests')) if os.path.exists('/repo/tests/%s/%s.asm'%(t,t))]
BOUND=['0','-1','1','255','256','65535','65536','2147483648','-2147483649','9223372036854775807','-9223372036854775808','""','"'+'A'*300+'"','(',')','1/0','1.0e400','$','*','?','[0]1','[-1]1','x dup (1)','0 dup (?)']
def mutate(lines,rnd):
    lines=list(lines)
    for _ in range(rnd.randint(1,4)):
        i=rnd.randrange(len(lines)); l=lines[i]; k=rnd.randrange(8)
        if k==0: lines[i]=re.sub(r'[\$0-9][0-9a-fA-Fhx]*',lambda m:rnd.choice(BOUND),l,count=1)
        elif k==1: del lines[i]
        elif k==2: lines.insert(i,lines[rnd.randrange(len(lines))])
        elif k==3:
            p=l.split(',')
            if len(p)>1: p.pop(rnd.randrange(len(p))); lines[i]=','.join(p)
        elif k==4: lines[i]=l+','+rnd.choice(BOUND)
        elif k==5:
            if l: j=rnd.randrange(len(l)); lines[i]=l[:j]+rnd.choice('()[]{}"\'\\,;:.#<>=!~^&|*/+-%$@ \t')+l[j:]
        elif k==6:
            w=l.split()
            if w: lines[i]=l.replace(w[-1],rnd.choice(BOUND),1)
        elif k==7: lines[i]=l[:rnd.randrange(len(l)+1)]
    return lines
def one(n):
    rnd=random.Random(n); t=rnd.choice(tests); d='/repo/tests/'+t
    w='/scratch/fz/w/%d'%n; shutil.rmtree(w,ignore_errors=True); os.makedirs(w)
    for f in os.listdir(d):
        if f.endswith('.inc'): shutil.copy(d+'/'+f,w)
    src=open(d+'/'+t+'.asm','rb').read().decode('latin-1').split('\n')
    # drop lines with while
    src=[l for l in src if 'while' not in l.lower()]
    open(w+'/x.asm','wb').write('\n'.join(mutate(src,rnd)).encode('latin-1'))
    flags=open(d+'/asflags').read().split()
    env=dict(os.environ,ASAN_OPTIONS='detect_leaks=0:exitcode=99')
    try:
        r=subprocess.run([ASL]+flags+['-q','-i','/repo/include','x.asm'],cwd=w,capture_output=True,timeout=20,env=env)
    except subprocess.TimeoutExpired:
        return (n,t,'TIMEOUT','')
    err=r.stderr.decode('latin-1','replace')
    key=None
    if 'AddressSanitizer' in err or 'runtime error' in err or r.returncode<0 or r.returncode not in (0,2,3):
        fr=re.findall(r'#\d+ 0x[0-9a-f]+ in (\S+) (/repo/\S+)',err)
        m=re.search(r'(/repo/\S+): runtime error: (.*)',err)
        kind=re.search(r'AddressSanitizer: (\S+)',err)
        key=(kind.group(1) if kind else ('ubsan' if m else 'rc%d'%r.returncode), fr[0] if fr else (m.group(1) if m else ''))
    shutil.rmtree(w,ignore_errors=True) if not key else None
    return (n,t,key,err[:300] if key else '')
N=int(sys.argv[1])
res=collections.defaultdict(list)
with ThreadPoolExecutor(16) as ex:
    for n,t,key,err in ex.map(one,range(N)):
        if key: res[key].append((n,t))
for k,v in sorted(res.items(),key=lambda kv:-len(kv[1])): print(len(v),k,v[:3])
print('distinct',len(res))
