import os,random,subprocess,re,sys,shutil,collections
from concurrent.futures import ThreadPoolExecutor
ASL='/scratch/b_san2/asl'
P="ALIGN ASSUME BINCLUDE CHARSET CODEPAGE CPU DEPHASE END ENDEXPECT ENDS ENDSECTION ENDSTRUCT ENDUNION ENUM ENUMCONF EQU ERROR EXPECT FUNCTION INTSYNTAX LABEL LISTING MESSAGE NEWPAGE NESTMAX NEXTENUM ORG OUTRADIX PHASE POPV PRSET PRTINIT PRTEXIT TITLE PUSHV RADIX RELAXED MACEXP_DFT MACEXP_OVR RORG SECTION SEGMENT SHARED STRUCT UNION WARNING SET SAVE RESTORE EVAL PAGE IF IFDEF IFNDEF IFB IFNB IFUSED IFEXIST ELSEIF ELSE ENDIF SWITCH CASE ELSECASE ENDCASE MACRO ENDM IRP IRPN IRPC REPT EXITM SHIFT INCLUDE PUBLIC GLOBAL FORWARD PADDING DC.B DC.W DC.L DS.B DS.W DB DW DD DQ DT DS BYT ADR FCB FDB FCC DFS RMB BYTE WORD LONG DATA RES BSS".split()
CPUS=['68000','6502','8086','z80','6809','8051','msp430','atmega8','16c84','320c25','4004']
ARGS=['0','-1','1','2','255','256','65535','65536','-32769','2147483648','-2147483649','9223372036854775807','(-9223372036854775807-1)','""','"a"','"abc"',"'a'",'x','$','*','?','[0]1','[-1]1','[70000]1','3 dup (1)','0 dup (?)','-1 dup (1)','1.5','1e400','(1','1)','','{x}','a=b','on','off','code','data','x:y','"nofile.inc"','1/0','substr("abc",-1,5)','strlen(1)','lab','$$t','+','-','.x','x[y]','x[]','"\\{1/0}"','1,2,3,4,5,6,7,8,9,10,11,12,13,14,15,16,17,18,19,20,21']
def one(n):
    rnd=random.Random(n)
    lines=[' cpu '+rnd.choice(CPUS),'lab: equ 5']
    for _ in range(rnd.randint(1,4)):
        op=rnd.choice(P); k=rnd.randint(0,3)
        lab=rnd.choice(['','','l%d:'%rnd.randint(0,3),'s%d'%rnd.randint(0,3)])
        lines.append('%s %s %s'%(lab,op.lower(),','.join(rnd.choice(ARGS) for _ in range(k))))
    if rnd.random()<0.5: lines.append(' nop')
    if rnd.random()<0.3: lines.append(' endm')
    w='/scratch/fz/wg/%d'%n; shutil.rmtree(w,ignore_errors=True); os.makedirs(w)
    open(w+'/x.asm','w').write('\n'.join(lines)+'\n')
    env=dict(os.environ,ASAN_OPTIONS='detect_leaks=0:exitcode=99')
    try: r=subprocess.run([ASL,'-q','x.asm'],cwd=w,capture_output=True,timeout=10,env=env)
    except subprocess.TimeoutExpired: return (n,('TIMEOUT',''),'\n'.join(lines))
    err=r.stderr.decode('latin-1','replace'); key=None
    if 'AddressSanitizer' in err or 'runtime error' in err or r.returncode<0 or r.returncode not in (0,2,3):
        fr=re.findall(r'#\d+ 0x[0-9a-f]+ in (\S+) (/repo/\S+)',err)
        m=re.search(r'(/repo/\S+): runtime error: (.*)',err)
        kind=re.search(r'AddressSanitizer: (\S+)',err)
        key=(kind.group(1) if kind else ('ubsan' if m else 'rc%d'%r.returncode), fr[0] if fr else (m.group(1) if m else ''))
    shutil.rmtree(w,ignore_errors=True)
    return (n,key,'\n'.join(lines))
res=collections.defaultdict(list)
with ThreadPoolExecutor(16) as ex:
    for n,key,src in ex.map(one,range(int(sys.argv[1]))):
        if key: res[key].append((n,src))
for k,v in sorted(res.items(),key=lambda kv:-len(kv[1])):
    print(len(v),k); print('    '+v[0][1].replace('\n','\n    '))
print('distinct',len(res))
