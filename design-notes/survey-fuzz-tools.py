import os,random,subprocess,re,sys,shutil,collections
from concurrent.futures import ThreadPoolExecutor
B='/scratch/b_san2/'
seeds=[]
os.makedirs('/scratch/fz/p',exist_ok=True)
for t in ['t_65','t_16c84','t_56000','t_avr','t_3203x','t_bas52','t_phase','t_secdrive']:
    d='/repo/tests/'+t
    flags=open(d+'/asflags').read().split()
    subprocess.run(['/repo/_build/asl']+flags+['-q','-i','/repo/include',d+'/'+t+'.asm','-o','/scratch/fz/p/'+t+'.p'],capture_output=True,cwd=d)
    if os.path.exists('/scratch/fz/p/'+t+'.p'): seeds.append(open('/scratch/fz/p/'+t+'.p','rb').read())
print(len(seeds),'seed files',[len(s) for s in seeds])
TOOLS=[('plist',lambda f:['-q',f]),('pbind',lambda f:['-q',f,'out.p']),('p2bin',lambda f:['-q',f,'out.bin','-r','$-$']),('p2bin',lambda f:['-q',f,'out.bin','-r','0-0x1ff','-m','odd']),('p2hex',lambda f:['-q',f,'out.hex']),('p2hex',lambda f:['-q',f,'out.hex','-F','Intel32','-r','$-$']),('p2hex',lambda f:['-q',f,'out.hex','-F','Moto']),('alink',lambda f:['-q',f,'out.p'])]
def one(n):
    rnd=random.Random(n); s=bytearray(rnd.choice(seeds))
    k=rnd.randrange(4)
    if k==0: s=s[:rnd.randrange(len(s))]
    elif k==1:
        for _ in range(rnd.randint(1,3)): s[rnd.randrange(min(len(s),40))]=rnd.choice([0,1,2,3,0x7f,0x80,0x81,0x85,0xff,rnd.randrange(256)])
    elif k==2:
        for _ in range(rnd.randint(1,3)): s[rnd.randrange(len(s))]^=1<<rnd.randrange(8)
    else: s=s[:rnd.randrange(len(s))]+bytes(rnd.randrange(256) for _ in range(rnd.randrange(20)))
    w='/scratch/fz/wt/%d'%n; shutil.rmtree(w,ignore_errors=True); os.makedirs(w)
    open(w+'/in.p','wb').write(s)
    tool,af=rnd.choice(TOOLS)
    env=dict(os.environ,ASAN_OPTIONS='detect_leaks=0:exitcode=99')
    try: r=subprocess.run([B+tool]+af('in.p'),cwd=w,capture_output=True,timeout=20,env=env)
    except subprocess.TimeoutExpired: return (n,tool,('TIMEOUT',''),'')
    err=r.stderr.decode('latin-1','replace'); key=None
    if 'AddressSanitizer' in err or 'runtime error' in err or r.returncode<0 or r.returncode not in (0,1,2,3):
        fr=re.findall(r'#\d+ 0x[0-9a-f]+ in (\S+) (/repo/\S+)',err)
        m=re.search(r'(/repo/\S+): runtime error: (.*)',err)
        kind=re.search(r'AddressSanitizer: (\S+)',err)
        key=(tool,kind.group(1) if kind else ('ubsan' if m else 'rc%d'%r.returncode), fr[0] if fr else (m.group(1) if m else ''))
    if not key: shutil.rmtree(w,ignore_errors=True)
    return (n,tool,key,'')
res=collections.defaultdict(list)
with ThreadPoolExecutor(16) as ex:
    for n,t,key,err in ex.map(one,range(int(sys.argv[1]))):
        if key: res[key].append(n)
for k,v in sorted(res.items(),key=lambda kv:-len(kv[1])): print(len(v),k,v[:3])
print('distinct',len(res))
