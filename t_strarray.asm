		cpu	eZ8
		page	0

		segment	data

		; first a simple structure
		; to have something to play with:

tPoint		struct
x		db	?
y		db	?
z		db	?
c		db	?
flags		dw	?
valid		defbit	flags,0
		endstruct

		; the simplest case: instantiate a single structure

Point		tPoint

		; nest structures in structures:

tPointPair	struct
p1		tPoint
p2		tPoint
		endstruct

PointPair	tPointPair

		; REPT can also be used if you are inside a structure
		; definition, so you can build arrays by hand - though
		; it's a bit tedious:

tPointManArray	struct
_IDX		set	0
		rept	5
_SIDX		set	"\{_IDX}"
POINTS_{_SIDX}	tPoint
_IDX		set	_IDX+1
		endm
		endstruct

PointManArray	tPointManArray

		; ...but it's a lot simpler with the new array option:

tPointArray	struct
Points		tPoint	[5]
		endstruct

PointArray	tPointArray

		; Instantiating arrays of structures may of course
		; also be done by hand, but it's just as tedious...

_IDX		set	0
		rept	10
_SIDX		set	"\{_IDX}"
POINTS_MAN_{_SIDX}	tPoint
_IDX		set	_IDX+1
		endm

		; ...and the new array option also allows multi-dimensional
                ; arrays:

PointVect	tPoint	[4294967295]
PointMatrix	tPoint	[5],[4]
;PointSpace	tPoint	[5],[4],[12]

		; don't get greedy ;-)

		expect  2221
PointWhatever	tPoint	[5],[4],[12],[3]
		endexpect

		segment	code

		ld	r0,@Point_x

		ld	r0,@PointPair_p1_y

		ld	r0,@PointArray_Points_1_z

		ld	r0,@PointVect_2_z

		ld	r0,@PointMatrix_3_2_c

;		dw	PointSpace_4_3_10_flags
