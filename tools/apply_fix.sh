#!/bin/sh
# apply_fix.sh <patch file> "<commit subject after 'fix: '>" — applies a proposed fix to /repo, runs the 201 golden tests (guard off), commits or rolls back
set -e
P="$1"; MSG="$2"
cd /repo
if ! git apply -C1 --check "$P" 2>/dev/null; then echo "DOES-NOT-APPLY $P"; exit 3; fi
git apply -C1 "$P"
if cmake --build _build -j8 >/var/tmp/apply_fix_build.log 2>&1 && ctest --test-dir _build -j8 --timeout 900 >/var/tmp/apply_fix_test.log 2>&1; then
  git commit -q -am "fix: $MSG"
  echo "COMMITTED $(git log --format=%h -1) fix: $MSG"
else
  git checkout -- .
  echo "ROLLED-BACK $P (build or golden tests failed)"; tail -5 /var/tmp/apply_fix_test.log; exit 4
fi
