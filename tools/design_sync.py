#!/usr/bin/env python3
"""design_sync.py — rewrites the generated parts of DESIGN.md: the seed matrix of §15 (tools/seedtable.py) and the counts of §14/§15"""
import collections, json, os, re, subprocess
ROOT = os.path.dirname(os.path.dirname(os.path.abspath(__file__)))
p = os.path.join(ROOT, 'DESIGN.md')
s = open(p).read()
table = subprocess.run(['python3', os.path.join(ROOT, 'tools', 'seedtable.py')], capture_output=True, text=True).stdout
a = s.index('| seed | property | file(s) | what it is |')
b = s.index('**Reading the table.**')
s = s[:a] + table + '\n' + s[b:]
rows = [l for l in table.split('\n') if re.match(r'^\| C\d\d-', l)]
n = len(rows)
caught = sum(1 for l in rows if l.split('|')[6].strip() not in ('-', ''))
nothead = sum(1 for l in rows if 'not on HEAD' in l)
s = re.sub(r'\*\*Reading the table\.\*\* \d+ of the \d+ changes', '**Reading the table.** %d of the %d changes' % (caught, n), s)
s = re.sub(r'\): \d+\nseeded changes in all', '): %d\nseeded changes in all' % n, s)
s = re.sub(r'delivered two\): \d+\nseeded changes in all', 'delivered two): %d\nseeded changes in all' % n, s)
kf = json.load(open(os.path.join(ROOT, 'known_findings.json')))['findings']
fixed = [f for f in kf if f['status'] == 'fixed']
nfix = int(subprocess.run('git -C /repo log --format=%s | grep -c "^fix:"', shell=True, capture_output=True, text=True).stdout)
by = collections.Counter(f['property'] for f in fixed)
s = re.sub(r'\(\d+ at the time of\nwriting', '(%d at the time of\nwriting' % nfix, s)
s = re.sub(r'witness; \d+ entries', 'witness; %d entries' % len(fixed), s)
s = re.sub(r'Entries by property: [^.]*\.', 'Entries by property: ' + ', '.join('%s %d' % (k, by[k]) for k in sorted(by)) + '.', s, flags=re.S)
open(p, 'w').write(s)
print('seeds', n, 'caught', caught, 'not-on-head', nothead, 'fix commits', nfix, 'fixed entries', len(fixed))
