#!/usr/bin/env python3
"""kf.py fixed <property> <key> <commit-subject-substring> <what>   |   kf.py open <property> <key> <what>"""
import json, subprocess, sys, os
ROOT = os.path.dirname(os.path.dirname(os.path.abspath(__file__)))
p = os.path.join(ROOT, 'known_findings.json')
d = json.load(open(p))
mode, prop, key = sys.argv[1:4]
if mode == 'fixed':
    sub, what = sys.argv[4:6]
    log = subprocess.run(['git', '-C', '/repo', 'log', '--format=%h\t%s'], capture_output=True, text=True).stdout.strip().split('\n')
    c = [l.split('\t')[0] for l in log if sub in l.split('\t')[1] and l.split('\t')[1].startswith('fix:')]
    assert len(c) == 1, c
    e = dict(property=prop, key=key, status='fixed', commit=c[0], what=what, line='fixed: property=%s %s %s' % (prop, c[0], what))
else:
    what = sys.argv[4]
    e = dict(property=prop, key=key, status='open', what=what)
d['findings'] = [x for x in d['findings'] if not (x['property'] == prop and x['key'] == key and x.get('commit') == e.get('commit'))] + [e]
json.dump(d, open(p, 'w'), indent=1)
print(e)
