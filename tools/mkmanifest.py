#!/usr/bin/env python3
"""Writes /verif/MANIFEST.json from the table below (kept here so the manifest stays consistent)."""
import json, os, subprocess
ROOT = os.path.dirname(os.path.dirname(os.path.abspath(__file__)))

import sys, importlib, glob
sys.path.insert(0, ROOT)
CHECKS = {}
# only checks listed in tools/registered.txt are claimed (a check is added there after its silence soak)
REG = [l.strip() for l in open(os.path.join(ROOT, 'tools', 'registered.txt')) if l.strip() and not l.startswith('#')]
for pid in REG:
    m = importlib.import_module('vf.checks.' + pid.lower())
    CHECKS[m.ID] = m.MANIFEST

NOT_YET = {}

def main():
    props = [json.loads(l) for l in open(os.path.join(ROOT, 'properties.jsonl'))]
    try:
        commits = subprocess.run(['git', '-C', '/repo', 'log', '--format=%h %s', '--grep=^verif hook'], capture_output=True, text=True).stdout.strip().split('\n')
    except Exception:
        commits = []
    checks = []
    na = []
    for p in props:
        pid = p['id']
        c = CHECKS.get(pid)
        if not c:
            na.append({'property_id': pid, 'reason': NOT_YET.get(pid, 'check not registered yet: the monitor for this property is still being built/soaked (see DESIGN.md §11); no claim is made')})
            continue
        checks.append({
            'property_id': pid,
            'quick_cmd': './check %s quick' % pid,
            'thorough_cmd': './check %s thorough' % pid,
            'evidence_file': 'evidence/%s.json' % pid,
            'replay_cmd_template': './check %s --replay {path}' % pid,
            'engine': 'vf',
            'level_claimed': {'category': c['category'], 'text': c['text'], 'design_ref': c['design_ref']},
            'level_note': c['note'],
            'technique': c['technique'],
        })
    m = {
        'version': 1,
        'setup_cmd': 'python3 -B -m vf.build san && python3 -B -m vf.build val',
        'hooks': {
            'guard': 'ASL_VERIF',
            'enable': 'out-of-tree cmake/ninja build of /repo into /verif/.build/san with -DCMAKE_C_FLAGS="... -DASL_VERIF -fsanitize=address,<ubsan subset>"; hooks are inert unless ASL_VERIF_TRACE / ASL_VERIF_MAX_PASSES / ASL_VERIF_EXTRA_PASSES / ASL_VERIF_MAX_LINES is set in the environment',
            'baseline_off_cmd': './baseline_off.sh',
            'source_commits': [c for c in commits if c],
            'add_only': True,
        },
        'engines': [{'name': 'vf', 'path': 'vf/', 'serves_properties': sorted(CHECKS),
                     'kind_free_text': 'python3 stdlib runtime-monitoring framework: runs the ASan/UBSan+hook build of the real tools over generated/corpus workloads, oracles over boundary observations and hook traces'}],
        'checks': checks,
        'not_applicable': na,
        'notes': 'Known findings and repaired defects: known_findings.json. Every check exits 0 (held), 1 (VIOLATION line), 2 (harness failure / nothing observed).',
    }
    with open(os.path.join(ROOT, 'MANIFEST.json'), 'w') as f:
        json.dump(m, f, indent=1)
        f.write('\n')

if __name__ == '__main__':
    main()
