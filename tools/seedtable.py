#!/usr/bin/env python3
"""prints a markdown table of the seeded changes kept under /verif/seeded and which checks fired on them"""
import json, os, re
ROOT = os.path.dirname(os.path.dirname(os.path.abspath(__file__)))
rows = []
for sid in sorted(os.listdir(os.path.join(ROOT, 'seeded'))):
    mp = os.path.join(ROOT, 'seeded', sid, 'meta.json')
    if not os.path.exists(mp):
        continue
    m = json.load(open(mp))
    patch = open(os.path.join(ROOT, 'seeded', sid, 'patch.diff')).read()
    files = sorted(set(re.findall(r'^\+\+\+ b/(\S+)', patch, re.M)))
    need = (m.get('what_it_needs') or '').strip().split('\n')
    first = next((l.strip() for l in need if l.strip() and not set(l.strip()) <= set('=-')), '')
    if re.match(r'^C\d\d seed, round \d, bug \d$', first):
        ff = next((l for l in need if l.startswith('File / function')), '')
        lk = next((l for l in need if l.startswith('Looks like')), '')
        first = (ff.split(':', 1)[-1].strip() + ': ' + lk.split(':', 1)[-1].strip()).strip(': ')
    fired = [c for c, v in m.get('checks', {}).items() if v.get('fired')]
    missed = [c for c, v in m.get('checks', {}).items() if not v.get('fired')]
    keys = [re.sub(r'\s+\(\d+ occ.*', '', v['keys'][0][4:]) for c, v in m.get('checks', {}).items() if v.get('fired') and v.get('keys')]
    valid = m.get('golden_tests_pass') and m.get('demo_on_changed', {}).get('exit') == 1 and m.get('demo_on_unchanged', {}).get('exit') == 0
    conf = 'yes' if valid else 'NO'
    if m.get('valid_on_current_head') is False:
        conf = 'not on HEAD (see meta.json)'
    first = re.sub(r'^(C\d\d )?(seeded )?[Bb]ug \d+\s*(--|-|:|–|—)?\s*', '', first)
    first = re.sub(r'^Seed C\d\d / \d\s*--\s*', '', first)
    hist = ' (after strengthening)' if m.get('history') and fired else ''
    rows.append((sid, m['property'], ', '.join(files), first[:100].replace('|', '/'), conf, (', '.join(fired) + hist) if fired else '-', ', '.join(missed) or '-', (keys[0] if keys else '')[:60].replace('|', '/')))
print('| seed | property | file(s) | what it is | confirmed | caught by | missed by | first key |')
print('|---|---|---|---|---|---|---|---|')
for r in rows:
    print('| ' + ' | '.join(r) + ' |')
