#!/usr/bin/env python3
"""seedtest.py <seed-out-dir> <seed-id> <property> [extra check ids...]

Confirms a seeded change (patch.diff + demo.sh) in a scratch worktree of /repo:
  1. patch applies to /repo HEAD, tree builds (guard off), 201 golden tests pass;
  2. demo.sh fails on the changed build and passes on the unchanged build (/repo/_build);
  3. runs `./check <property> quick` (and the extra checks) against the changed tree
     (VERIF_REPO=<worktree>, same code path as a changed /repo) and records whether they fire.
Stores everything as /verif/seeded/<seed-id>/ (patch.diff, demo files, meta.json) and removes
the worktree and its build output.
"""
import hashlib
import json
import os
import shutil
import subprocess
import sys
import time

ROOT = os.path.dirname(os.path.dirname(os.path.abspath(__file__)))


def sh(cmd, cwd=None, env=None, timeout=3600):
    r = subprocess.run(cmd, shell=isinstance(cmd, str), cwd=cwd, env=env, stdout=subprocess.PIPE, stderr=subprocess.STDOUT, timeout=timeout)
    return r.returncode, r.stdout.decode('utf-8', 'replace')


def main():
    src, sid, prop = sys.argv[1:4]
    extra = sys.argv[4:]
    wt = '/var/tmp/seedwt-%s' % sid
    meta = {'seed': sid, 'property': prop, 'source_dir': src, 'when': time.strftime('%Y-%m-%d %H:%M:%S')}
    sh('git -C /repo worktree remove --force %s' % wt)
    rc, o = sh('git -C /repo worktree add --detach %s HEAD' % wt)
    assert rc == 0, o
    try:
        patch = os.path.join(src, 'patch.diff')
        rc, o = sh('git -C %s apply %s' % (wt, patch))
        meta['applies_to_head'] = rc == 0
        meta['repo_head'] = sh('git -C /repo log --format=%h -1')[1].strip()
        if rc != 0:
            meta['apply_error'] = o[-500:]
            print(json.dumps(meta, indent=1))
            return 1
        rc, o = sh('cmake -G Ninja -B _build >/dev/null && cmake --build _build -j8 2>&1 | tail -3', cwd=wt)
        meta['builds'] = rc == 0
        rc, o = sh('ctest --test-dir _build -j8 --timeout 900 2>&1 | tail -4', cwd=wt)
        meta['golden_tests'] = o.strip().split('\n')[-3:] if o else []
        meta['golden_tests_pass'] = '100% tests passed' in o
        # demo on changed and unchanged builds
        demo = os.path.join(src, 'demo.sh')
        if os.path.exists(demo):
            rc1, o1 = sh('sh %s %s/_build' % (demo, wt), cwd=src, timeout=600)
            sh('cmake -G Ninja -S /repo -B /repo/_build >/dev/null && cmake --build /repo/_build -j8 >/dev/null')
            rc0, o0 = sh('sh %s /repo/_build' % demo, cwd=src, timeout=600)
            meta['demo_on_changed'] = {'exit': rc1, 'tail': o1[-300:]}
            meta['demo_on_unchanged'] = {'exit': rc0, 'tail': o0[-300:]}
        # checks
        env = dict(os.environ)
        env['VERIF_REPO'] = wt
        env.setdefault('VERIF_JOBS', '8')
        meta['checks'] = {}
        for c in [prop] + extra:
            t0 = time.time()
            rc, o = sh('./check %s quick' % c, cwd=ROOT, env=env, timeout=7200)
            keys = [l.strip() for l in o.split('\n') if l.strip().startswith('key=')]
            meta['checks'][c] = {'exit': rc, 'fired': rc == 1, 'keys': [k[:300] for k in keys[:6]], 'summary': o.strip().split('\n')[-1][:300],
                                 'wall_s': round(time.time() - t0)}
        dest = os.path.join(ROOT, 'seeded', sid)
        shutil.rmtree(dest, ignore_errors=True)
        os.makedirs(dest)
        for n in os.listdir(src):
            p = os.path.join(src, n)
            if os.path.isfile(p) and os.path.getsize(p) < 2_000_000:
                shutil.copy(p, os.path.join(dest, n))
        meta['what_it_needs'] = open(os.path.join(src, 'notes.txt')).read()[:3000] if os.path.exists(os.path.join(src, 'notes.txt')) else ''
        meta['how_confirmed'] = ('scratch worktree of /repo HEAD + patch: plain build, ctest (201 golden tests), demo.sh on changed and unchanged build, '
                                 'then ./check <id> quick with VERIF_REPO=<worktree> (the check rebuilds the sanitised+hook binaries from that tree)')
        with open(os.path.join(dest, 'meta.json'), 'w') as f:
            json.dump(meta, f, indent=1)
        print(json.dumps({k: meta[k] for k in ('seed', 'golden_tests_pass', 'demo_on_changed', 'demo_on_unchanged', 'checks') if k in meta}, indent=1)[:3000])
    finally:
        tagdir = os.path.join(ROOT, '.build', 'san-' + hashlib.sha1(wt.encode()).hexdigest()[:10])
        shutil.rmtree(tagdir, ignore_errors=True)
        sh('git -C /repo worktree remove --force %s' % wt)
        shutil.rmtree(wt, ignore_errors=True)
    return 0


if __name__ == '__main__':
    sys.exit(main())
