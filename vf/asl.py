"""Helpers around executions of the assembler and parsing of the hook traces."""
import os
import re

ASL_STATUS = (0, 1, 2, 3, 4)


class Asm:
    def __init__(self):
        self.run = None
        self.p = None        # bytes of the code file or None
        self.trace = None    # list of events (dict) or None

    @property
    def rc(self):
        return self.run.rc


def parse_trace(text):
    ev = []
    for line in text.split('\n'):
        if not line:
            continue
        kind = line[0]
        d = {'k': kind}
        rest = line[2:]
        if kind in ('D',):
            m = re.match(r'(.*?) pos=(.*)$', rest)
            if not m:
                raise ValueError('bad trace line ' + line)
            rest, d['pos'] = m.group(1), m.group(2).rstrip()
        if kind == 'S':
            m = re.match(r'name=(.*) sect=(-?\d+) sectname=(.*) mask=([0-9a-f]+) chg=(\d) used=(\d) (\S+) ?(\S*)$', rest)
            if not m:
                raise ValueError('bad trace line ' + line)
            d.update(name=m.group(1), sect=int(m.group(2)), sectname=m.group(3), mask=int(m.group(4), 16),
                     chg=int(m.group(5)), used=int(m.group(6)), typ=m.group(7), val=m.group(8))
            ev.append(d)
            continue
        for tok in rest.split(' '):
            if '=' in tok:
                k, v = tok.split('=', 1)
                d[k] = v
        ev.append(d)
    return ev


def assemble(ctx, src, args=(), out='out.p', trace=False, env=None, timeout=60, cwd=None, extra_env=None):
    """Run asl on source file name `src` (relative to ctx.dir)."""
    a = Asm()
    e = dict(env or {})
    tname = None
    if trace:
        tname = ctx.path('trace.%d.log' % ctx.out.execs)
        if os.path.exists(tname):
            os.unlink(tname)
        e['ASL_VERIF_TRACE'] = tname
    if extra_env:
        e.update(extra_env)
    # source first and a plain switch last: options with an optional argument
    # (-E, -r, -g ...) would otherwise swallow the next word
    argv = [src]
    if out:
        argv += ['-o', out]
    argv += list(args) + ['-q']
    if out:
        try:
            os.unlink(os.path.join(cwd or ctx.dir, out))
        except OSError:
            pass
    a.run = ctx.run('asl', argv, env=e, timeout=timeout, cwd=cwd)
    if out:
        try:
            with open(os.path.join(cwd or ctx.dir, out), 'rb') as f:
                a.p = f.read()
        except OSError:
            a.p = None
    if tname:
        try:
            with open(tname, 'r', encoding='latin-1') as f:
                a.trace = parse_trace(f.read())
        except OSError:
            a.trace = []
    return a


def final_pass_events(trace, kind='E'):
    """events of the last pass"""
    last = 0
    for e in trace:
        if e['k'] == 'P':
            last = max(last, int(e['pass']))
    if last == 0:
        for e in trace:
            if 'pass' in e:
                last = max(last, int(e['pass']))
    return [e for e in trace if e['k'] == kind and int(e.get('pass', -1)) == last]


def symbols(trace):
    """final symbol dump: dict (name, sect) -> (typ, val)"""
    out = {}
    for e in trace:
        if e['k'] == 'S':
            out[(e['name'], e['sect'])] = (e['typ'], e['val'])
    return out
