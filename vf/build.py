"""Build flavours of the tree under test, out of tree, from its *current* working tree.

Nothing is written into the source tree.  ninja's dependency tracking makes
a repeated call a ~1 s no-op and an edited tree a partial rebuild.  An flock
serialises concurrently started checks so they share one build.
"""
import fcntl
import hashlib
import os
import subprocess
import sys
import time

ROOT = os.path.dirname(os.path.dirname(os.path.abspath(__file__)))
REPO = os.path.abspath(os.environ.get('VERIF_REPO', '/repo'))
BUILD_ROOT = os.path.join(ROOT, '.build')

SAN_FLAGS = ('-w -O1 -g -fno-omit-frame-pointer -DASL_VERIF '
             '-fsanitize=address,bounds,integer-divide-by-zero,vla-bound,return,'
             'unreachable,pointer-overflow,object-size -fno-sanitize-recover=all')
FLAVOURS = {
    'san': SAN_FLAGS,
    'val': '-w -O1 -g -DASL_VERIF',
}
TOOLS = ('asl', 'p2bin', 'p2hex', 'pbind', 'plist', 'alink', 'dasl')


def build_dir(flavour):
    if REPO == '/repo':
        return os.path.join(BUILD_ROOT, flavour)
    tag = hashlib.sha1(REPO.encode()).hexdigest()[:10]
    return os.path.join(BUILD_ROOT, '%s-%s' % (flavour, tag))


class BuildError(Exception):
    pass


def ensure(flavour='san', quiet=True):
    """Configure (first time) and build; returns dict tool name -> path."""
    bdir = build_dir(flavour)
    os.makedirs(BUILD_ROOT, exist_ok=True)
    lock = open(os.path.join(BUILD_ROOT, '.lock-' + os.path.basename(bdir)), 'w')
    fcntl.flock(lock, fcntl.LOCK_EX)
    try:
        env = dict(os.environ)
        env['ASAN_OPTIONS'] = 'detect_leaks=0'
        t0 = time.time()
        if not os.path.exists(os.path.join(bdir, 'build.ninja')):
            cmd = ['cmake', '-G', 'Ninja', '-S', REPO, '-B', bdir,
                   '-DCMAKE_BUILD_TYPE=Debug', '-DCMAKE_C_COMPILER=gcc',
                   '-DFORCE_COLORED_OUTPUT=FALSE',
                   '-DCMAKE_C_FLAGS=' + FLAVOURS[flavour]]
            r = subprocess.run(cmd, env=env, stdout=subprocess.PIPE, stderr=subprocess.STDOUT)
            if r.returncode != 0:
                raise BuildError('cmake configure failed:\n' + r.stdout.decode('utf-8', 'replace')[-4000:])
        r = subprocess.run(['cmake', '--build', bdir, '-j16'], env=env,
                           stdout=subprocess.PIPE, stderr=subprocess.STDOUT)
        if r.returncode != 0:
            raise BuildError('build failed:\n' + r.stdout.decode('utf-8', 'replace')[-6000:])
        if not quiet:
            sys.stderr.write('[build] %s up to date in %.1fs (%s)\n' % (flavour, time.time() - t0, bdir))
        bins = {t: os.path.join(bdir, t) for t in TOOLS}
        for t, p in bins.items():
            if not os.access(p, os.X_OK):
                raise BuildError('missing executable ' + p)
        bins['_dir'] = bdir
        return bins
    finally:
        fcntl.flock(lock, fcntl.LOCK_UN)
        lock.close()


if __name__ == '__main__':
    try:
        print(ensure(sys.argv[1] if len(sys.argv) > 1 else 'san', quiet=False))
    except BuildError as e:
        sys.stderr.write(str(e) + '\n')
        sys.exit(2)
