"""C01 — multipass assembly ends at a fixpoint with every reference resolved.

Three monitors per generated program (and the first and third for every golden program):
 (a) bounded progress of the pass loop: a pass cap (hook H2) stops the run and the
     per-pass symbol-table digests (hook H1) are searched for a repeated state
     while another pass is pending — that is a PROOF of livelock (one pass is a
     function of source + symbol table); a cap hit without a repeat is inconclusive;
 (b) three-way agreement: final symbol value (H1 'S' dump) == address at which the
     label's marker line was emitted (H3) == value decoded from every reference
     (absolute operand, data word, PC-relative displacement) by a per-target mini decoder;
 (c) one forced extra pass changes neither the code file nor the symbol dump.
"""
import os
import random
import re

from .. import asl, corpus

ID = 'C01'
LEVEL = 'exploration'
RULE = ('generated programs for 6502, 68000, 6809, 68HC11, 8086 mixing forward/backward references through length-variable encodings '
        '(zero-page/absolute, direct/extended, short/word branches, abs.w/abs.l, short/near jumps), odd byte data before labels (padding) and fillers '
        'straddling the displacement limits; plus every golden program for the pass-cap and extra-pass monitors. distinct = distinct (cpu, base, '
        'number of passes, set of encodings seen, padding used); non-trivial = at least one forward reference')
ASSUMPTIONS = ['instruction encodings of the handful of forms used are taken from the manufacturers\' definitions (decoder in this module)',
               'a pass is a deterministic function of source, options and the symbol table left by the previous pass (passes >= 2)']
MANIFEST = dict(
    category='exploration', design_ref='DESIGN.md §4 C01',
    technique='runtime monitor over hook traces: pass-loop state digests (cycle = proven livelock), emission trace decoded by per-target mini decoders against the final symbol dump, and an extra-pass metamorphic run (also with setting statements appended behind the last statement)',
    text='Held on the executions of this run: generated programs on five targets with auto-sized encodings terminated, every reference decoded to the final '
         'value of its symbol which equals the address where the label was actually emitted, and one forced extra pass changed neither code file nor symbols; '
         'every golden program terminated under the pass cap and was unchanged by an extra pass.',
    note='Only the instruction forms listed in the module are decoded. A pass cap hit without a repeated symbol-table state is reported inconclusive, never as a violation.')

PASS_CAP = 40
FILLERS = [1, 2, 3, 5, 100, 120, 123, 124, 125, 126, 127, 128, 129, 130, 131, 250, 253, 254, 255, 256, 257, 300]
BIG_FILLERS = [32500, 32750, 32760, 32764, 32766, 32768, 32770, 33000]


def plan(tier, seed):
    n = 600 if tier == 'quick' else 12000
    cases = [{'gen': i} for i in range(n)]
    cases += [{'prog': p} for p in corpus.names()]
    cases += [{'tail': i} for i in range(150 if tier == 'quick' else 3000)]
    cases += [{'edge': i} for i in range(150 if tier == 'quick' else 3000)]
    # a setting statement appended as the very last statement of a golden program has nothing behind it to influence:
    # assembled with one forced extra pass the code must equal that of the unmodified program
    names = corpus.names()
    trail = [(n, t) for n in names for t in range(len(TRAIL))]
    if tier == 'quick':
        rng = random.Random(seed * 104729 + 7)
        trail = rng.sample(trail, 260)
    cases += [{'trail': t, 'prog': n} for n, t in trail]
    only = os.environ.get('VERIF_C01_ONLY')       # development aid
    if only:
        cases = [c for c in cases if only in c]
    return cases


TRAIL = ['\t%s\t%s' % (n, v) for n in ('padding', 'maxmode', 'fpu', 'pmmu', 'fullpmmu', 'bigendian', 'wrapmode', 'srcmode', 'packing', 'lwordmode', 'extmode',
                                       'dsp', 'compliterals', 'branchext', 'supmode', 'custom', 'dottedstructs', 'relaxed', 'z80syntax', 'compmode', 'planecode')
         for v in ('on', 'off')] + ['\tz80syntax\texclusive', '\tradix\t8', '\toutradix\t2', '\tintsyntax\t+0oct', '\tintsyntax\t-0hex,+$hex', "\tcharset\t'a','z',1",
                                   '\tcodepage\tzz1234', '\tmacexp_dft\tnoif,nomacro', '\tmacexp_ovr\ton', '\tlisting\toff', '\tprtinit\t"x"', '\tsave', '\tenum\tqq1,qq2']
# (not in the list: PAGE - a machine instruction on SX20 -, PHASE and SEGMENT - they change the value of `END *`)


# programs whose LAST statements change a setting that the FIRST statements depend on: one more pass must not see the setting
# (each statement alone is valid in both settings, so the program is valid whatever the pass)
TAIL_TARGETS = {
    '6502': (['\tbyt\t10,11,12', '\tbyt\t"\\{200}"', '\tbyt\t"abc"', '\tadr\t1234', "\tbyt\t'a'", 'st\tstruct\nf\tdfs\t2\nst\tendstruct\n\tbyt\tst_len'],
             ['\tradix\t16', '\tradix\t8', '\tradix\t2', '\toutradix\t10', '\toutradix\t2', "\tcharset\t'a','z',1", '\tcodepage\tzz', '\tenum\tq1,q2',
              '\tdottedstructs\ton', '\trelaxed\ton', '\tmacexp\toff', '\tlisting\toff', '\tphase\t1000', '\torg\t500', 'v1\tset\t5', '\tpushv\tstk,v1']),
    'z80': (['\tdb\t10,11,12', '\tdb\t"abc"', '\tdw\t1234', '\tdb\t"\\{200}"'],
            ['\tradix\t16', '\tradix\t8', "\tcharset\t'a','z',1", '\toutradix\t10', '\trelaxed\ton', '\tz80syntax\texclusive', '\tphase\t100']),
    '68000': (['\tdc.b\t1', '\tdc.w\t2', '\tdc.b\t3,4,5', '\tdc.l\t10', '\tdc.b\t"ab"'],
              ['\tpadding\toff', '\tradix\t16', "\tcharset\t'a','z',1", '\tsupmode\ton', '\tfpu\ton', '\tpmmu\ton', '\tfullpmmu\ton']),
    '8051': (['\tdb\t10', '\tdw\t1234h', '\tdb\t"abc"'],
             ['\tbigendian\ton', '\tradix\t16', "\tcharset\t'a','z',1", '\tsrcmode\ton']),
    'msp430': (['\tbyte\t1', '\tword\t2', '\tbyte\t3'], ['\tpadding\toff', '\tradix\t16']),
    'atmega8': (['\tdata\t1,2', '\tdata\t"abc"'], ['\tpacking\ton', '\tradix\t16', '\twrapmode\ton']),
}


def gen_tail(rng):
    cpu = rng.choice(sorted(TAIL_TARGETS))
    head, tail = TAIL_TARGETS[cpu]
    h = [x for x in head if rng.random() < 0.8] or head[:1]
    t = rng.sample(tail, rng.randrange(1, min(4, len(tail)) + 1))
    return cpu, '\tcpu\t%s\n' % cpu + '\n'.join(h) + '\n' + '\n'.join(t) + '\n', t


def sx(v, bits):
    return v - (1 << bits) if v & (1 << (bits - 1)) else v


# --- per target: statement kinds -> (source text, decoder(bytes, addr) -> target value or None)

def dec_6502(kind, b, a):
    if kind == 'load':
        if len(b) == 2 and b[0] == 0xA5:
            return b[1], 'zp'
        if len(b) == 3 and b[0] == 0xAD:
            return b[1] | b[2] << 8, 'abs'
    elif kind == 'jump':
        if len(b) == 3 and b[0] == 0x4C:
            return b[1] | b[2] << 8, 'abs'
    elif kind == 'near':
        if len(b) == 2 and b[0] == 0xD0:
            return (a + 2 + sx(b[1], 8)) & 0xffff, 'rel8'
    elif kind == 'word':
        if len(b) == 2:
            return b[0] | b[1] << 8, 'data'
    return None


def dec_68000(kind, b, a):
    if kind == 'branch':
        if b == b'\x4e\x71':
            # a short branch cannot encode distance 0; a NOP falls through to the next instruction, which is the label: same target
            return a + 2, 'nop(distance 0)'
        if len(b) == 2 and b[0] == 0x60 and b[1] not in (0, 0xff):
            return a + 2 + sx(b[1], 8), 'short'
        if len(b) == 4 and b[0] == 0x60 and b[1] == 0:
            return a + 2 + sx(b[2] << 8 | b[3], 16), 'word'
    elif kind == 'call':
        if len(b) == 2 and b[0] == 0x61 and b[1] not in (0, 0xff):
            return a + 2 + sx(b[1], 8), 'short'
        if len(b) == 4 and b[0] == 0x61 and b[1] == 0:
            return a + 2 + sx(b[2] << 8 | b[3], 16), 'word'
    elif kind == 'jump':
        if len(b) == 4 and b[:2] == b'\x4e\xf8':
            return sx(b[2] << 8 | b[3], 16) & 0xffffffff, 'abs.w'
        if len(b) == 6 and b[:2] == b'\x4e\xf9':
            return int.from_bytes(b[2:6], 'big'), 'abs.l'
    elif kind == 'pcrel':
        if len(b) == 4 and b[:2] == b'\x41\xfa':
            return a + 2 + sx(b[2] << 8 | b[3], 16), 'd16(pc)'
    elif kind == 'word':
        if len(b) == 4:
            return int.from_bytes(b, 'big'), 'data'
    return None


def dec_6809(kind, b, a):
    if kind == 'load':
        if len(b) == 2 and b[0] == 0x96:
            return b[1], 'direct'
        if len(b) == 3 and b[0] == 0xB6:
            return b[1] << 8 | b[2], 'extended'
    elif kind == 'jump':
        if len(b) == 2 and b[0] == 0x0E:
            return b[1], 'direct'
        if len(b) == 3 and b[0] == 0x7E:
            return b[1] << 8 | b[2], 'extended'
    elif kind == 'near':
        if len(b) == 2 and b[0] == 0x20:
            return (a + 2 + sx(b[1], 8)) & 0xffff, 'rel8'
    elif kind == 'long':
        if len(b) == 3 and b[0] == 0x16:
            return (a + 3 + sx(b[1] << 8 | b[2], 16)) & 0xffff, 'rel16'
    elif kind == 'word':
        if len(b) == 2:
            return b[0] << 8 | b[1], 'data'
    return None


def dec_8051(kind, b, a):
    # generic JMP/CALL choose among SJMP (80 rel) / AJMP, ACALL (page of the FOLLOWING instruction, 11 bits) / LJMP, LCALL (16 bits)
    if kind in ('jump', 'call'):
        if len(b) == 3 and b[0] == (0x02 if kind == 'jump' else 0x12):
            return b[1] << 8 | b[2], 'abs16'
        if len(b) == 2 and (b[0] & 0x1f) == (0x01 if kind == 'jump' else 0x11):
            return ((a + 2) & 0xF800) | ((b[0] >> 5) << 8) | b[1], 'abs11'
        if kind == 'jump' and len(b) == 2 and b[0] == 0x80:
            return (a + 2 + sx(b[1], 8)) & 0xffff, 'rel8'
    elif kind == 'near':
        if len(b) == 2 and b[0] == 0x80:
            return (a + 2 + sx(b[1], 8)) & 0xffff, 'rel8'
    elif kind == 'word':
        if len(b) == 2:
            return b[1] << 8 | b[0], 'data'         # (DW is little-endian unless BIGENDIAN is switched on)
    return None


def dec_6811(kind, b, a):
    if kind == 'load':
        if len(b) == 2 and b[0] == 0x96:
            return b[1], 'direct'
        if len(b) == 3 and b[0] == 0xB6:
            return b[1] << 8 | b[2], 'extended'
    elif kind == 'jump':
        if len(b) == 3 and b[0] == 0x7E:
            return b[1] << 8 | b[2], 'extended'
    elif kind == 'near':
        if len(b) == 2 and b[0] == 0x20:
            return (a + 2 + sx(b[1], 8)) & 0xffff, 'rel8'
    elif kind in ('near-bitd', 'near-bitx', 'near-bity'):
        # BRSET/BRCLR: opcode, operand byte, mask, relative offset counted from the following instruction
        if kind == 'near-bitd' and len(b) == 4 and b[0] in (0x12, 0x13):
            return (a + 4 + sx(b[3], 8)) & 0xffff, 'rel8'
        if kind == 'near-bitx' and len(b) == 4 and b[0] in (0x1E, 0x1F):
            return (a + 4 + sx(b[3], 8)) & 0xffff, 'rel8'
        if kind == 'near-bity' and len(b) == 5 and b[0] == 0x18 and b[1] in (0x1E, 0x1F):
            return (a + 5 + sx(b[4], 8)) & 0xffff, 'rel8'
    elif kind == 'word':
        if len(b) == 2:
            return b[0] << 8 | b[1], 'data'
    return None


def dec_8086(kind, b, a):
    if kind == 'jump':
        if len(b) == 2 and b[0] == 0xEB:
            return (a + 2 + sx(b[1], 8)) & 0xffff, 'short'
        if len(b) == 3 and b[0] == 0xE9:
            return (a + 3 + sx(b[1] | b[2] << 8, 16)) & 0xffff, 'near'
    elif kind == 'word':
        if len(b) == 2:
            return b[0] | b[1] << 8, 'data'
    return None


TARGETS = {
    # cpu: (decoder, {kind: source template}, byte data op, reserve op, bases, max statement size, has padding, org syntax)
    '6502': (dec_6502, {'load': 'lda\t%s', 'jump': 'jmp\t%s', 'near': 'bne\t%s', 'word': 'adr\t%s'}, 'byt', 'dfs', [0x00, 0x80, 0xE0, 0xF8, 0x100, 0x1000], 3, False),
    '68000': (dec_68000, {'branch': 'bra\t%s', 'call': 'bsr\t%s', 'jump': 'jmp\t%s', 'pcrel': 'lea\t%s(pc),a0', 'word': 'dc.l\t%s'}, 'dc.b', 'ds.b', [0x1000, 0x7F00, 0x7FF0, 0x10000], 6, True),
    '6809': (dec_6809, {'load': 'lda\t%s', 'jump': 'jmp\t%s', 'near': 'bra\t%s', 'long': 'lbra\t%s', 'word': 'fdb\t%s'}, 'fcb', 'rmb', [0x00, 0x80, 0xF0, 0x100, 0x1000], 3, False),
    '6811': (dec_6811, {'load': 'ldaa\t%s', 'jump': 'jmp\t%s', 'near': 'bra\t%s', 'near-bitd': 'brset\t$20,#$10,%s', 'near-bitx': 'brclr\t3,x,#$41,%s',
               'near-bity': 'brset\t4,y,#$01,%s', 'word': 'fdb\t%s'}, 'fcb', 'rmb', [0x00, 0x80, 0xF0, 0x100, 0x1000], 3, False),
    '8051': (dec_8051, {'jump': 'jmp\t%s', 'call': 'call\t%s', 'near': 'sjmp\t%s', 'word': 'dw\t%s'}, 'db', 'ds', [0x00, 0x700, 0x7F0, 0x7FA, 0xF7F0, 0x1000], 3, False),
    '8086': (dec_8086, {'jump': 'jmp\t%s', 'word': 'dw\t%s'}, 'db', 'db', [0x100, 0x1000], 3, False),
}


def gen(rng):
    cpu = rng.choice(sorted(TARGETS))
    dec, kinds, bop, rop, bases, maxsz, padding, = TARGETS[cpu]
    base = rng.choice(bases)
    nlab = rng.randrange(2, 9)
    labels = ['lb%d' % i for i in range(nlab)]
    lines = ['\tcpu\t%s' % cpu, '\torg\t%d' % base]
    stmts = []          # (line number (1-based), type, info)
    pending = list(labels)
    placed = []         # (label, upper bound of bytes emitted since)
    since = {}
    nstat = rng.randrange(5, 60)
    uses_padding = False
    nfwd = 0
    exprs = [0]
    far_kinds = [k for k in kinds if not k.startswith('near')]
    near_kinds = [k for k in kinds if k.startswith('near')]
    size_budget = 200000 if cpu == '68000' else 60000
    big = cpu == '68000' and rng.random() < 0.3
    if big:
        # fillers beyond the 16-bit displacement range: BRA/LEA d16(PC) would legitimately be out of reach on a plain 68000
        far_kinds = ['jump', 'word']

    def add(text, typ=None, info=None):
        lines.append(text)
        if typ:
            stmts.append((len(lines), typ, info))

    def bump(n):
        for k in since:
            since[k] += n

    def place_label():
        lab = pending.pop(0)
        add('%s:' % lab, 'label', lab)
        # marker: one unique byte line directly behind the label (label line itself emits nothing)
        if padding and rng.random() < 0.5:
            # word marker: needs alignment, so a label behind odd-length data must move with the padding
            add('\tdc.w\t%d' % (0xC000 + labels.index(lab)), 'marker', lab)
        else:
            add('\t%s\t%d' % (bop, 0xC0 + labels.index(lab)), 'marker', lab)
        since[lab] = 2
        bump(0)
        placed.append(lab)

    total = 0
    for _ in range(nstat):
        k = rng.randrange(10)
        if k <= 1 and pending:
            place_label()
        elif k <= 5:
            kind = rng.choice(far_kinds)
            lab = rng.choice(labels)
            if lab in pending:
                nfwd += 1
            expr = lab if rng.random() < 0.7 or kind == 'pcrel' else rng.choice([lab + '+0', '0+' + lab, lab + '-1+1'])
            if expr != lab:
                exprs[0] += 1
            add('\t' + kinds[kind] % expr, 'ref', (kind, lab))
            bump(maxsz)
        elif k == 6 and near_kinds:
            # fixed short branch: only to a label that is provably within reach
            near = [l for l in placed if since[l] <= 100]
            nk = rng.choice(near_kinds)
            if near and rng.random() < 0.5:
                lab = rng.choice(near)
                add('\t' + kinds[nk] % lab, 'ref', (nk, lab))
                bump(5)
            elif pending:
                lab = pending[0]
                nfwd += 1
                add('\t' + kinds[nk] % lab, 'ref', (nk, lab))
                bump(5)
                for _ in range(rng.randrange(0, 3)):
                    add('\t%s\t%d' % (bop, rng.randrange(256)))
                    bump(1)
                place_label()
        elif k == 7:
            n = rng.randrange(1, 6)
            if padding and rng.random() < 0.7:
                n |= 1          # odd length: forces alignment padding before the next instruction
                uses_padding = True
            add('\t%s\t%s' % (bop, ','.join(str(rng.randrange(256)) for _ in range(n))))
            bump(n)
        elif k == 8:
            n = rng.choice(FILLERS)
            if big and rng.random() < 0.3:
                n = rng.choice(BIG_FILLERS)
            if total + n > size_budget:
                continue
            total += n
            if rop == 'db':
                add('\tdb\t%d dup (?)' % n)
            else:
                add('\t%s\t%d' % (rop, n))
            bump(n + 1)
        else:
            if pending and rng.random() < 0.5:
                place_label()
    while pending:
        place_label()
    add('\t%s\t0' % bop)
    return cpu, base, '\n'.join(lines) + '\n', stmts, nfwd, uses_padding


EDGE_DIST = [100, 110, 116, 118, 119, 120, 121, 122, 123, 124, 125, 126, 127, 128, 129, 130, 131, 132, 136, 200, 254, 255, 256, 257, 300]


def gen_edge(rng):
    """fixed-size short branches whose distance lies around the limit of their displacement field: such a branch is either
    rejected (jump distance too big) or, if accepted, encodes a displacement that reaches the label"""
    cpu = rng.choice(['6502', '6809', '6811', '8051'])
    dec, kinds, bop, rop, bases, maxsz, padding, = TARGETS[cpu]
    if cpu == '8051':
        # generic JMP/CALL around the end of a 2 KiB page: the short form is only right if target and the FOLLOWING instruction share the page
        page = rng.choice([0x0000, 0x0800, 0x7800, 0xF000])
        lines = ['\tcpu\t8051']
        stmts = []

        def add8(text, typ=None, info=None):
            lines.append(text)
            if typ:
                stmts.append((len(lines), typ, info))
        add8('\torg\t%d' % (page + rng.choice([0x10, 0x100, 0x400])))
        add8('lb0:', 'label', 'lb0')
        add8('\tdb\t%d' % 0xC1, 'marker', 'lb0')
        add8('\torg\t%d' % (page + 0x7F8 + rng.randrange(0, 8)))
        for _ in range(rng.randrange(1, 4)):
            k = rng.choice(['jump', 'call'])
            add8('\t' + kinds[k] % 'lb0', 'ref', (k, 'lb0'))
        add8('\tdb\t0')
        return cpu, '\n'.join(lines) + '\n', stmts
    near_kinds = sorted(k for k in kinds if k.startswith('near'))
    lines = ['\tcpu\t%s' % cpu, '\torg\t%d' % rng.choice([0x1000, 0x4000, 0x80])]
    stmts = []
    nlab = 0

    def add(text, typ=None, info=None):
        lines.append(text)
        if typ:
            stmts.append((len(lines), typ, info))

    def filler(n):
        # exact number of bytes, as data or as reservation
        while n > 0:
            k = min(n, rng.randrange(1, 40))
            if rng.random() < 0.5:
                add('\t%s\t%s' % (bop, ','.join(str(rng.randrange(256)) for _ in range(k))))
            else:
                add('\t%s\t%d' % (rop, k))
            n -= k

    for _ in range(rng.choice([1, 1, 1, 2])):
        nk = rng.choice(near_kinds)
        d = rng.choice(EDGE_DIST)
        lab = 'lb%d' % nlab
        nlab += 1
        if rng.random() < 0.5:
            # backward: label, marker byte, filler, branch
            add('%s:' % lab, 'label', lab)
            add('\t%s\t%d' % (bop, 0xC0 + nlab), 'marker', lab)
            filler(d)
            add('\t' + kinds[nk] % lab, 'ref', (nk, lab))
        else:
            add('\t' + kinds[nk] % lab, 'ref', (nk, lab))
            filler(d)
            add('%s:' % lab, 'label', lab)
            add('\t%s\t%d' % (bop, 0xC0 + nlab), 'marker', lab)
        filler(rng.randrange(0, 5))
    add('\t%s\t0' % bop)
    return cpu, '\n'.join(lines) + '\n', stmts


def find_cycle(trace):
    """(j, k) passes with equal symbol-table digest and repass pending, j<k, j>=2; else None"""
    seen = {}
    for e in trace:
        if e['k'] != 'P':
            continue
        p = int(e['pass'])
        if p < 2 or e['repass'] != '1' or e['errors'] != '0':
            continue
        d = e['digest']
        if d in seen:
            return seen[d], p
        seen[d] = p
    return None


def passes_of(trace):
    return max([int(e['pass']) for e in trace if e['k'] == 'P'] or [0])


def sym_dump(trace):
    d = {}
    for e in trace:
        if e['k'] == 'S' and not (e['sect'] == -1 and e['name'] in ('TIME', 'DATE')):
            d[(e['name'], e['sect'])] = (e['typ'], e['val'])
    return d


END_RE = re.compile(r'^\S*[ \t]+end(?:[ \t]+[^;]*)?(?:;.*)?$', re.I)


def run_trail(case, ctx):
    out = ctx.out
    prog = corpus.Prog(case['prog'])
    prog.stage(ctx.dir)
    stmt = TRAIL[case['trail']]
    src = prog.name + '.asm'
    flags = list(prog.flags) + ['-i', corpus.include_dir()]
    tag = '%s + trailing %r' % (prog.name, stmt.strip().replace('\t', ' '))
    out.sample = {'trail': stmt.strip(), 'prog': prog.name}
    text = prog.source().decode('latin-1')
    lines = text.split('\n')
    # in front of a final END statement, else at the very end
    pos = len(lines)
    for i in range(len(lines) - 1, max(-1, len(lines) - 30), -1):
        if lines[i].strip() and not lines[i].lstrip().startswith(';'):
            if END_RE.match(lines[i]):
                pos = i
            break
    base = asl.assemble(ctx, src, flags, out='a.p', timeout=180)
    if base.run.timed_out:
        out.inconc('timeout')
        return
    if base.rc != 0 or base.p is None:
        out.obs['trail_baseline_not_valid'] += 1
        return
    new = lines[:pos] + [stmt] + lines[pos:]
    ctx.write('t_' + src, '\n'.join(new))
    env = {'ASL_VERIF_EXTRA_PASSES': '1', 'ASL_VERIF_MAX_PASSES': str(PASS_CAP + 5)}
    b = asl.assemble(ctx, 't_' + src, flags, out='b.p', extra_env=env, timeout=180)
    if b.run.timed_out:
        out.inconc('timeout')
        return
    if b.run.san:
        out.violate(b.run.san, '%s: %s' % (tag, b.run.err.decode('latin-1')[-500:]))
        return
    # is the statement valid here at all?  (judged without the extra pass: it must be accepted on its own)
    c = asl.assemble(ctx, 't_' + src, flags, out='c.p', timeout=180)
    if c.rc != 0 or c.p is None:
        out.obs['trail_statement_not_valid_for_target'] += 1
        return
    if c.p != base.p:
        out.violate('trailing-setting-changes-code:' + stmt.split('\t')[1].upper(), '%s: code differs from the unmodified program (regular passes)' % tag)
        return
    if b.rc != 0 or b.p is None:
        out.violate('extra-pass-fails:setting-survives-into-next-pass:' + stmt.split('\t')[1].upper(),
                    '%s: with one more pass rc=%s %s' % (tag, b.rc, b.run.text()[-300:].replace('\n', ' | ')))
        return
    if b.p != base.p:
        out.violate('extra-pass-changes-code:setting-survives-into-next-pass:' + stmt.split('\t')[1].upper(),
                    '%s: code after one more pass differs from the unmodified program' % tag)
        return
    out.obs['trailing_settings_without_effect'] += 1
    out.sets['trailing_statements'].add(stmt.split('\t')[1])
    out.nontrivial = True
    out.sig = ('trail', prog.name, case['trail'])


def run_case(case, ctx):
    out = ctx.out
    env_cap = {'ASL_VERIF_MAX_PASSES': str(PASS_CAP)}
    if 'trail' in case:
        return run_trail(case, ctx)
    if 'prog' in case:
        prog = corpus.Prog(case['prog'])
        prog.stage(ctx.dir)
        src = prog.name + '.asm'
        flags = list(prog.flags) + ['-i', corpus.include_dir()]
        tag = prog.name
        stmts = None
        out.sample = {'corpus': prog.name}
    elif 'tail' in case:
        cpu, text, tailstm = gen_tail(ctx.rng)
        src = 'g.asm'
        ctx.write(src, text)
        flags = []
        tag = 'sticky tail #%d (%s: %s)' % (ctx.idx, cpu, ' / '.join(x.strip().replace('\t', ' ') for x in tailstm))
        stmts = None
        out.sample = {'tail': ctx.idx, 'cpu': cpu, 'source': text.split('\n')}
    elif 'edge' in case:
        cpu, text, stmts = gen_edge(ctx.rng)
        base, nfwd, uses_padding = 0, 1, False
        src = 'g.asm'
        ctx.write(src, text)
        flags = []
        tag = 'edge #%d (%s)' % (ctx.idx, cpu)
        out.sample = {'edge': ctx.idx, 'cpu': cpu, 'source_head': text.split('\n')[:14]}
    else:
        cpu, base, text, stmts, nfwd, uses_padding = gen(ctx.rng)
        src = 'g.asm'
        ctx.write(src, text)
        flags = []
        tag = 'generated #%d (%s, base %#x)' % (ctx.idx, cpu, base)
        out.sample = {'generated': ctx.idx, 'cpu': cpu, 'base': base, 'statements': len(stmts), 'source_head': text.split('\n')[:14]}
    a = asl.assemble(ctx, src, flags, out='a.p', trace=True, extra_env=env_cap, timeout=180)
    if a.run.timed_out:
        out.inconc('timeout')
        return
    if a.run.san:
        out.violate(a.run.san, '%s: %s' % (tag, a.run.err.decode('latin-1')[-500:]))
        return
    npass = passes_of(a.trace or [])
    out.sets['pass_counts'].add(npass)
    if a.rc == 97:
        cyc = find_cycle(a.trace)
        if cyc:
            osc = ''
            sub = ''
            if stmts is not None:
                import re as _re
                lines_ = text.split('\n')
                after_bsr = set()
                for i_ in range(1, len(lines_)):
                    m_ = _re.match(r'(lb\d+):', lines_[i_])
                    if m_ and lines_[i_ - 1].startswith('\tbsr\t'):
                        after_bsr.add((m_.group(1), i_ - 1))
                hit_ = False
                for lab_, prev_ in after_bsr:
                    for j_, l_ in enumerate(lines_):
                        if l_.startswith('\tbsr\t') and _re.search(r'\b%s\b' % lab_, l_) and not (j_ == prev_ and l_ == '\tbsr\t' + lab_):
                            hit_ = True
                if hit_:
                    # a BSR to a label that directly follows a BSR: the back end's guard against 8/16-bit oscillation (symbol flag
                    # NextLabelAfterBSR) only works for the plain-label BSR directly in front of the label
                    sub = ':68000:bsr-to-label-following-a-bsr'
                elif uses_padding:
                    sub = ':padding-before-label'
            out.violate('pass-livelock' + sub,
                        '%s: the pass loop revisits the symbol-table state of pass %d in pass %d while another pass is pending (cap %d): never terminates'
                        % (tag, cyc[0], cyc[1], PASS_CAP))
        else:
            out.inconc('pass cap reached without a repeated state')
        return
    if (a.rc != 0 or a.p is None) and 'tail' in case:
        out.obs['tail_programs_not_valid'] += 1
        return
    if (a.rc != 0 or a.p is None) and 'edge' in case:
        # the only legitimate complaint is "jump distance too big" (1370) on a branch line
        reflines = {ln for ln, typ, _ in stmts if typ == 'ref'}
        errs = [e for e in a.trace if e['k'] == 'D']

        def on_ref_line(e):
            m_ = re.search(r'\((\d+)\)', str(e.get('pos', '')))
            return bool(m_) and int(m_.group(1)) in reflines
        if a.rc == 2 and errs and all(int(e['num']) == 1370 and on_ref_line(e) for e in errs):
            out.obs['edge_programs_rejected_as_out_of_range'] += 1
            out.nontrivial = True
            out.sig = ('edge-rejected', cpu, len(errs))
        else:
            out.violate('edge-program-fails-otherwise', '%s: rc=%s %s' % (tag, a.rc, a.run.text()[-400:].replace('\n', ' | ')))
        return
    if a.rc != 0 or a.p is None:
        if stmts is None:
            out.violate('golden-program-fails', '%s: rc=%s %s' % (tag, a.rc, a.run.text()[-300:]))
        else:
            out.violate('valid-program-rejected', '%s: rc=%s %s' % (tag, a.rc, a.run.text()[-400:].replace('\n', ' | ')))
        return
    # (c) extra pass
    b = asl.assemble(ctx, src, flags, out='b.p', trace=True, extra_env={'ASL_VERIF_EXTRA_PASSES': '1', 'ASL_VERIF_MAX_PASSES': str(PASS_CAP + 5)}, timeout=180)
    if b.run.timed_out:
        out.inconc('timeout: extra pass run')
    elif b.rc != 0 or b.p is None:
        out.violate('extra-pass-fails', '%s: with one more pass rc=%s %s' % (tag, b.rc, b.run.text()[-300:].replace('\n', ' | ')))
    else:
        nb = passes_of(b.trace)
        if nb != npass + 1:
            out.inconc('extra pass hook did not add exactly one pass (%d -> %d)' % (npass, nb))
        elif a.p != b.p:
            key = 'extra-pass-changes-code'
            if 'tail' in case:
                # which single tail statement is responsible?
                for st in tailstm:
                    ctx.write('t1.asm', text.replace('\n'.join(tailstm), st))
                    x1 = asl.assemble(ctx, 't1.asm', flags, out='x1.p', extra_env=env_cap)
                    x2 = asl.assemble(ctx, 't1.asm', flags, out='x2.p', extra_env={'ASL_VERIF_EXTRA_PASSES': '1'})
                    if x1.rc == 0 and x2.rc == 0 and x1.p != x2.p:
                        key += ':setting-survives-into-next-pass:' + st.split('\t')[1].upper()
                        break
            out.violate(key, '%s: code file after %d passes differs from the one after %d passes' % (tag, nb, npass))
        else:
            sa, sb = sym_dump(a.trace), sym_dump(b.trace)
            if sa != sb:
                diff = [k for k in set(sa) | set(sb) if sa.get(k) != sb.get(k)][:4]
                out.violate('extra-pass-changes-symbols', '%s: symbols differ after one more pass: %s' % (tag, [(k, sa.get(k), sb.get(k)) for k in diff]))
            else:
                out.obs['extra_pass_identical'] += 1
    if stmts is None:
        out.nontrivial = True
        out.sig = ('corpus' if 'prog' in case else 'tail', tag, npass)
        return
    # (b) three-way agreement
    dec = TARGETS[cpu][0]
    ev = {}
    for e in a.trace:
        if e['k'] == 'E' and int(e['pass']) == npass:
            ev.setdefault(int(e['line']), []).append(e)
    syms = {k[0]: v for k, v in sym_dump(a.trace).items() if k[1] == -1}
    label_addr = {}
    for line, typ, info in stmts:
        if typ == 'marker':
            es = ev.get(line, [])
            # padding may be emitted on the same line before the marker byte: the marker is the last chunk
            if not es:
                out.violate('label-marker-missing', '%s: no code traced for the marker of %s (line %d)' % (tag, info, line))
                return
            e = es[-1]
            label_addr[info] = int(e['addr'], 16)
    encs = set()
    for lab, addr in label_addr.items():
        sv = syms.get(lab.upper())
        if sv is None or sv[0] != 'I':
            out.violate('label-missing-in-symbol-table', '%s: %s' % (tag, lab))
            continue
        if int(sv[1], 16) != addr:
            out.violate('label-value-differs-from-location', '%s: %s has final value %s but its marker byte lies at %#x' % (tag, lab, sv[1], addr))
    for line, typ, info in stmts:
        if typ != 'ref':
            continue
        kind, lab = info
        es = ev.get(line, [])
        if not es:
            out.violate('reference-emits-nothing', '%s: line %d (%s %s)' % (tag, line, kind, lab))
            continue
        e = es[-1]          # (68000: a padding chunk may precede the instruction on the same line)
        bts = bytes.fromhex(e['hex'])
        at = int(e['addr'], 16)
        r = dec(kind, bts, at)
        if r is None:
            out.violate('unexpected-encoding:%s:%s' % (cpu, kind), '%s: line %d %s %s assembled to %s at %#x' % (tag, line, kind, lab, e['hex'], at))
            continue
        val, enc = r
        encs.add('%s/%s' % (kind, enc))
        want = label_addr.get(lab)
        if want is not None and val != want:
            out.violate('reference-does-not-reach-label:%s:%s/%s' % (cpu, kind, enc),
                        '%s: line %d %s -> %s encodes %#x (%s at %#x) but the label lies at %#x' % (tag, line, kind, lab, val, e['hex'], at, want))
        out.obs['references_decoded'] += 1
    out.sets['encodings'].update('%s:%s' % (cpu, x) for x in encs)
    out.sets['cpus'].add(cpu)
    out.nontrivial = nfwd > 0
    out.sig = (cpu, base, npass, tuple(sorted(encs)), uses_padding)
