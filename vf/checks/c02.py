"""C02 — exit status, code file and reported errors always agree.

Four independent counts per assembled file must agree: the faults planted by
the generator (model), the diagnostic events recorded by hook H4, the
diagnostic lines on the selected error channel, and the summary totals
(console without -q, listing with -L).  Exit status and presence of the code
file must follow from the counts.
"""
import os
import re

from .. import asl

ID = 'C02'
LEVEL = 'exploration'
RULE = ('case = one asl invocation over 1..3 generated sources with k planted self-contained faults each (k from a boundary set incl. '
        '255..257, 65535..65537, 131072) under a random option set; distinct = distinct (k classes, option set, channel); '
        'non-trivial = at least one planted diagnostic or more than one file')
ASSUMPTIONS = ['every planted fault yields exactly one diagnostic (unknown mnemonic, ERROR/WARNING/FATAL pseudo-op, out-of-range byte, missing ENDIF)',
               'messages are parsed in the English catalogue (LANG=C)']
MANIFEST = dict(
    category='exploration', design_ref='DESIGN.md §4 C02',
    technique='runtime monitor: four-way agreement between planted faults, hook-H4 diagnostic event log, error-channel text and summary totals; exit status and code-file presence derived from the counts',
    text='Held on the executions of this run: invocations over generated sources with 0..131072 planted faults (boundary counts around 2^8 and 2^16), '
         '1..3 files, with/without -Werror, -maxerrors, -x, -n, -q, -w, -L, -gnuerrors and every -E target; status must be 0/2/3 exactly as the counts imply, '
         'a code file must exist exactly for the error-free files, and summary totals must equal the diagnostics emitted.',
    note='Fault kinds are limited to ones with an unambiguous one-diagnostic contract; English message catalogue; the pass in which a diagnostic is issued is taken from the hook trace.')

K_SET = [0, 0, 1, 1, 2, 3, 7, 20, 255, 256, 257]
K_BIG = [65535, 65536, 65537, 131072]

NATIVE_RE = re.compile(r'^> > > (?:\S+\(\d+\)(?: \S+\(\d+\))*|INTERNAL)(?::\d+)?: (error|warning)(?: #\d+)?: ', re.M)
GNU_RE = re.compile(r'^(?:[^\s:]+:\d+(?::\d+)?|INTERNAL)(?::)?( warning)?(?: #\d+)?: ', re.M)
SUM_ERR = re.compile(r'^\s*(\d+) errors?\s*$', re.M)
SUM_WARN = re.compile(r'^\s*(\d+) warnings?\s*$', re.M)


def plan(tier, seed):
    n = 400 if tier == 'quick' else 6000
    nbig = 6 if tier == 'quick' else 40
    ndrift = 60 if tier == 'quick' else 600
    return [{'big': i < nbig} for i in range(n)] + [{'drift': i} for i in range(ndrift)]


def make_file(rng, k, allow_fatal, big, no_warn=False):
    """returns (text, events) — events: ordered list of 'E' / 'W' / 'F' as the assembler will meet them"""
    lines = ['\tcpu\t6502']
    ev = []
    shift = (not big) and rng.random() < 0.25
    if shift:
        # a macro that discards its first argument: nothing of what it discards belongs to the names of the output files
        lines += ['mshf\tmacro\ta,b', '\tshift', '\tbyt\ta', '\tendm']
    kinds = ['unk', 'err', 'warn', 'range', 'unk', 'err']
    if big:
        kinds = [rng.choice(['unk', 'err', 'warn'])]
    if no_warn:
        # the manual does not say whether -w also silences the WARNING pseudo-op: not generated
        kinds = [x for x in kinds if x != 'warn'] or ['unk']
    elif not big and rng.random() < 0.2:
        kinds = ['warn']            # a file that only draws warnings (no error): it still has messages, logs and a summary of its own
    nclean = rng.randrange(0, 12) if not big else 2
    slots = ['c'] * nclean + ['f'] * k
    if not big:
        rng.shuffle(slots)
    tail = []
    tail_lines = []
    if not big and k and rng.random() < 0.15:
        # unbalanced construct: reported once at the end of the pass
        lines.append('\tif\t1')
        tail.append('E')
        k -= 1
        slots.remove('f')
    elif not big and k and not no_warn and rng.random() < 0.15:
        # an entry left on a symbol stack: warning "stack is not empty", raised when the pass is over
        tail_lines = ['pv%d\tset\t5' % k, '\tpushv\tstk%d,pv%d' % (k, k)]
        tail.append('W')
        k -= 1
        slots.remove('f')
    if not big and rng.random() < 0.3:
        # regions that are switched out of the listing: diagnostics raised there are still diagnostics
        # (switched on again before the end: the summary in the listing is part of what is compared)
        i_, j_ = sorted([rng.randrange(len(slots) + 1), rng.randrange(len(slots) + 1)])
        slots.insert(j_, 'lon')
        slots.insert(i_, 'loff')
    fatal_at = None
    if allow_fatal and k and rng.random() < 0.12:
        fatal_at = rng.randrange(k)
    fi = 0
    for s in slots:
        if s in ('loff', 'lon'):
            lines.append('\tlisting\t%s' % ('off' if s == 'loff' else 'on'))
        elif s == 'c':
            lines.append(rng.choice(['\tnop', '\tbyt\t1,2,3', 'l%d:\tlda\t#1' % len(lines), '\tadr\t$1234', '; comment']
                                    + (['\tmshf\t%d,35' % (30 + len(lines) % 9)] * 3 if shift else [])))
        else:
            if fatal_at is not None and fi == fatal_at:
                lines.append('\tfatal\t"stop here"')
                ev.append('F')
            else:
                kd = rng.choice(kinds)
                if kd == 'unk':
                    lines.append('\tbogus%d' % (fi % 10))
                    ev.append('E')
                elif kd == 'err':
                    lines.append('\terror\t"planted %d"' % fi)
                    ev.append('E')
                elif kd == 'warn':
                    lines.append('\twarning\t"planted %d"' % fi)
                    ev.append('W')
                else:
                    lines.append('\tbyt\t%d' % rng.choice([256, 300, 1000, -129, -200]))
                    ev.append('E')
            fi += 1
    ev += tail
    lines += tail_lines
    return '\n'.join(lines) + '\n', ev


DRIFT_KINDS = ('fwd', 'far', 'shrink', 'clean')


def drift_file(rng, kind, idx):
    """6502 sources whose labels move between passes; returns (text, planted errors or None when the manual leaves the outcome open)"""
    org = 0x8000 + 0x400 * idx
    if kind == 'fwd':
        # the manual's own 'forward reference disaster': the branch is judged with the label values of the pass before;
        # whether that ends in an error is left open, that status, code file and messages agree is not
        n = rng.choice([44, 50, 60, 63])
        return '\tcpu\t6502\n\torg\t%d\n\tbeq\tskip\n\trept\t%d\n\tlda\tzv\n\tendm\nskip:\tnop\nzv\tequ\t$10\n' % (org, n), None
    if kind == 'far':
        n = rng.choice([130, 200, 300])
        return '\tcpu\t6502\n\torg\t%d\nback:\tnop\n\trept\t%d\n\tnop\n\tendm\n\tbeq\tback\n' % (org, n), 1
    if kind == 'shrink':
        return '\tcpu\t6502\n\torg\t%d\n\tlda\tzv\nlab:\tnop\n\tjmp\tlab\nzv\tequ\t$10\n' % org, 0
    return '\tcpu\t6502\n\torg\t%d\nlab:\tnop\n\tjmp\tlab\n' % org, 0


def run_drift(case, ctx):
    """sources whose diagnostics depend on the pass: whatever was reported, status, code files and summaries agree with it"""
    out = ctx.out
    rng = ctx.rng
    nfiles = rng.choice([1, 2, 2, 3])
    kinds = [rng.choice(DRIFT_KINDS[:3]) if i == 0 else rng.choice(DRIFT_KINDS) for i in range(nfiles)]
    if case['drift'] % 3 == 0 and nfiles > 1:
        kinds[0], kinds[1] = 'far', 'shrink'
    files = []
    for i, kd in enumerate(kinds):
        text, planted = drift_file(rng, kd, i)
        ctx.write('d%d.asm' % i, text)
        files.append(('d%d.asm' % i, kd, planted))
    opts = rng.choice([[], ['-L'], ['-x'], ['-gnuerrors'], ['-L', '-x', '-x']])
    quiet = rng.random() < 0.3
    tname = ctx.path('trace.log')
    argv = [f[0] for f in files] + opts + (['-q'] if quiet else [])
    r = ctx.run('asl', argv, env={'ASL_VERIF_TRACE': tname}, timeout=300)
    tag = 'asl %s [%s]' % (' '.join(argv), ','.join(kinds))
    out.sample = {'files': kinds, 'opts': opts}
    out.sig = ('drift', tuple(kinds), tuple(opts), quiet)
    out.nontrivial = True
    if r.timed_out:
        out.inconc('timeout')
        return
    if r.san:
        out.violate(r.san, tag + ': ' + r.err.decode('latin-1')[-600:])
        return
    try:
        with open(tname, encoding='latin-1') as f:
            trace = asl.parse_trace(f.read())
    except OSError:
        trace = []
    per_file = []
    cur = {'D': [], 'final': None}
    for e in trace:
        if e['k'] == 'D':
            cur['D'].append(e)
        elif e['k'] == 'F':
            cur['final'] = e
            per_file.append(cur)
            cur = {'D': [], 'final': None}
    if len(per_file) != nfiles:
        out.violate('drift:sources-finished', '%s: %d of %d sources reached their end' % (tag, len(per_file), nfiles))
        return
    text_err = r.err.decode('latin-1')
    text_out = r.out.decode('latin-1')
    rx = GNU_RE if '-gnuerrors' in opts else NATIVE_RE
    n_msgs = sum(1 for _ in rx.finditer(text_err))
    n_ev = sum(len(pf['D']) for pf in per_file)
    if n_msgs != n_ev:
        out.violate('channel-vs-events', '%s: error channel shows %d messages, hook saw %d issued' % (tag, n_msgs, n_ev))
    any_err = []
    sums_e = [int(x) for x in SUM_ERR.findall(text_out)] if not quiet else None
    for i, (name, kd, planted) in enumerate(files):
        pf = per_file[i]
        n_e = sum(1 for d in pf['D'] if d['class'] in ('E', 'F'))
        any_err.append(n_e > 0)
        if planted is not None and n_e != planted:
            out.violate('events-vs-planted', '%s: %s (%s) planted %d errors, hook saw %d' % (tag, name, kd, planted, n_e))
        has_p = os.path.exists(ctx.path(name[:-4] + '.p'))
        if has_p != (n_e == 0):
            out.violate('code-file-%s' % ('kept-despite-errors' if has_p else 'missing-after-clean-run'),
                        '%s: %s %s although %d errors were reported for %s (%s)' % (tag, name[:-4] + '.p', 'exists' if has_p else 'is missing', n_e, name, kd))
        if sums_e is not None:
            fin = int(pf['final']['passes'])
            n_fin = sum(1 for d in pf['D'] if d['class'] in ('E', 'F') and int(d['pass']) == fin)
            if i >= len(sums_e):
                out.violate('summary-missing', '%s: no summary totals for %s on the console' % (tag, name))
            elif sums_e[i] != n_fin or (n_e > 0) != (sums_e[i] > 0):
                out.violate('summary-totals-wrong', '%s: summary for %s (%s) says %d errors, %d were reported (%d of them in the last pass)' % (tag, name, kd, sums_e[i], n_e, n_fin))
            else:
                out.obs['summaries_checked'] += 1
        out.obs['files_checked'] += 1
        out.obs['drift_files_checked'] += 1
        out.obs['diagnostic_events_seen'] += len(pf['D'])
        if int(pf['final']['passes']) > 1:
            out.obs['drift_multi_pass_files'] += 1
    exp_rc = 2 if any(any_err) else 0
    if r.rc != exp_rc:
        out.violate('exit-status:expected-%d-got-%s' % (exp_rc, r.rc), '%s: errors reported per file %s -> expected status %d, got %s' % (tag, any_err, exp_rc, r.rc))
    out.sets['statuses_seen'].add(str(r.rc))
    out.sets['channels'].add('drift')


def run_case(case, ctx):
    if 'drift' in case:
        return run_drift(case, ctx)
    out = ctx.out
    rng = ctx.rng
    big = case.get('big')
    nfiles = 1 if big else rng.choice([1, 1, 2, 3])
    opts = []
    werror = rng.random() < 0.3
    supp = (not werror) and rng.random() < 0.15
    maxerr = None
    if rng.random() < 0.25:
        maxerr = rng.choice([1, 2, 3, 7, 255, 256, 300, 65536] if not big else [65536, 65537, 100000])
    if werror:
        opts += ['-Werror']
    if supp:
        opts += ['-w']
    if maxerr:
        opts += ['-maxerrors', str(maxerr)]
    xlev = rng.choice([0, 0, 1, 2])
    opts += ['-x'] * xlev
    numeric = rng.random() < 0.3
    if numeric:
        opts += ['-n']
    gnu = rng.random() < 0.3
    if gnu:
        opts += ['-gnuerrors']
    quiet = rng.random() < 0.5
    listing = rng.random() < 0.3 and not big
    if listing:
        opts += ['-L']
    chan = rng.choice(['default', 'file', '!1', '!2', 'perfile'])
    conlist = (not listing) and (not big) and rng.random() < 0.15
    if conlist:
        # listing on the console: a diagnostic shows up once, in the listing (stdout) or, where the listing is switched off, on stderr
        opts += ['-l']
        chan = 'default'
        quiet = True
    if chan == '!1':
        # console text and the error channel are two stdio streams on one descriptor
        # and interleave at buffer boundaries: only compared when the console is silent
        quiet = True
    if chan == 'file':
        opts += ['-E', 'errors.log']
    elif chan in ('!1', '!2'):
        opts += ['-E', chan]
    elif chan == 'perfile':
        opts += ['-E']
    n_onames = rng.randrange(1, nfiles + 1) if (not big and rng.random() < 0.3) else 0
    for i in range(n_onames):
        # -o names are handed to the sources one after the other; the sources beyond the last name use <source>.p
        opts += ['-o', 'out%d.p' % i]
    files = []
    for i in range(nfiles):
        k = rng.choice(K_BIG) if big else rng.choice(K_SET)
        text, ev = make_file(rng, k, allow_fatal=not big, big=big, no_warn=supp)
        name = 'f%d.asm' % i
        ctx.write(name, text)
        files.append((name, ev, k))
    if chan == 'perfile' and rng.random() < 0.6:
        # logs of an earlier run of the same sources: what they say belongs to that run, not to this one
        for name, _, _ in files:
            ctx.write(name[:-4] + '.log', '> > > %s(1): error: left over from an earlier run\n' % name)
        out.obs['stale_logs_planted'] += len(files)
    # ---- model
    exp = []          # per file: dict(E, W, stopped, assembled)
    stop = False
    for name, ev, k in files:
        if stop:
            exp.append(None)
            continue
        e = w = 0
        stopped = False
        for x in ev:
            if x == 'W':
                if supp:
                    continue
                if werror:
                    e += 1
                else:
                    w += 1
                    continue
            elif x == 'E':
                e += 1
            elif x == 'F':
                e += 1
                stopped = True
                break
            if maxerr and e >= maxerr:
                stopped = True
                break
        exp.append({'E': e, 'W': w, 'stopped': stopped})
        if stopped:
            stop = True
    if stop:
        exp_rc = 3
    elif any(x['E'] for x in exp if x):
        exp_rc = 2
    else:
        exp_rc = 0
    # ---- run
    tname = ctx.path('trace.log')
    argv = [f[0] for f in files] + opts
    if quiet:
        argv += ['-q']
    r = ctx.run('asl', argv, env={'ASL_VERIF_TRACE': tname}, timeout=300)
    desc = {'files': [(n, k) for n, _, k in files], 'opts': opts + (['-q'] if quiet else []), 'expected_rc': exp_rc}
    out.sample = desc
    out.sig = (tuple(min(k, 300) if k < 60000 else k for _, _, k in files), tuple(opts), quiet)
    out.nontrivial = nfiles > 1 or any(k for _, _, k in files)
    tag = 'asl %s' % ' '.join(argv)
    if r.timed_out:
        out.inconc('timeout')
        return
    if r.san:
        out.violate(r.san, tag + ': ' + r.err.decode('latin-1')[-600:])
        return
    try:
        with open(tname, encoding='latin-1') as f:
            trace = asl.parse_trace(f.read())
    except OSError:
        trace = []
    # split the trace per file: diagnostics belong to the file whose P/F line follows
    per_file = []
    cur = {'D': [], 'final': None}
    last_pass = {}
    for e in trace:
        if e['k'] == 'D':
            cur['D'].append(e)
        elif e['k'] == 'F':
            cur['final'] = e
            per_file.append(cur)
            cur = {'D': [], 'final': None}
    if cur['D']:
        per_file.append(cur)       # file that ended in a fatal stop
    # ---- status
    if r.rc != exp_rc:
        out.violate('exit-status:expected-%d-got-%s' % (exp_rc, r.rc),
                    '%s: planted per file %s -> expected status %d, got %s' % (tag, [(x and (x['E'], x['W'], x['stopped'])) for x in exp], exp_rc, r.rc))
    # ---- channel text
    text_out = r.out.decode('latin-1')
    text_err = r.err.decode('latin-1')
    if conlist:
        chan_text = text_out + '\n' + text_err
    elif chan == 'default' or chan == '!2':
        chan_text = text_err
    elif chan == '!1':
        chan_text = text_out
    elif chan == 'file':
        chan_text = (ctx.read('errors.log') or b'').decode('latin-1')
    else:
        # (logs of sources the run never reached - it stopped before them - are whatever they were before the run)
        chan_text = ''.join((ctx.read(n[:-4] + '.log') or b'').decode('latin-1') for n, _, _ in files[:max(1, len(per_file))])
    if gnu:
        n_w = n_e = 0
        for m in GNU_RE.finditer(chan_text):
            if m.group(1):
                n_w += 1
            else:
                n_e += 1
    else:
        n_w = n_e = 0
        for m in NATIVE_RE.finditer(chan_text):
            if m.group(1) == 'warning':
                n_w += 1
            else:
                n_e += 1
    out.obs['diagnostic_lines_seen'] += n_e + n_w
    if chan == 'perfile' and not conlist:
        # every source has its own log: a message belongs into the log of the file that raised it
        for i, (name, ev, k) in enumerate(files):
            if i >= len(per_file):
                break
            own = (ctx.read(name[:-4] + '.log') or b'').decode('latin-1')
            rx = GNU_RE if gnu else NATIVE_RE
            n_own = sum(1 for _ in rx.finditer(own))
            n_ev = len(per_file[i]['D'])
            if n_own != n_ev:
                out.violate('per-file-log-vs-events', '%s: %s holds %d messages, %s raised %d' % (tag, name[:-4] + '.log', n_own, name, n_ev))
                break
            out.obs['per_file_logs_checked'] += 1
    d_all_e = sum(1 for pf in per_file for d in pf['D'] if d['class'] in ('E', 'F'))
    d_all_w = sum(1 for pf in per_file for d in pf['D'] if d['class'] == 'W')
    out.obs['diagnostic_events_seen'] += d_all_e + d_all_w
    if (n_e, n_w) != (d_all_e, d_all_w):
        out.violate('channel-vs-events', '%s: error channel (%s) shows %d errors/%d warnings, hook saw %d/%d issued'
                    % (tag, chan, n_e, n_w, d_all_e, d_all_w))
    # ---- per file
    sums_e = [int(x) for x in SUM_ERR.findall(text_out)] if not quiet else None
    sums_w = [int(x) for x in SUM_WARN.findall(text_out)] if not quiet else None
    si = 0
    for i, (name, ev, k) in enumerate(files):
        x = exp[i]
        pname = ('out%d.p' % i) if i < n_onames else name[:-4] + '.p'
        has_p = os.path.exists(ctx.path(pname))
        if i < n_onames and os.path.exists(ctx.path(name[:-4] + '.p')):
            out.violate('code-file-under-default-name-despite-o', '%s: %s exists although -o assigns %s to %s' % (tag, name[:-4] + '.p', pname, name))
        if x is None:
            if has_p:
                out.violate('code-file-for-unassembled-source', '%s: %s exists although the run stopped before %s' % (tag, pname, name))
            continue
        pf = per_file[i] if i < len(per_file) else {'D': [], 'final': None}
        fin_pass = max([int(d['pass']) for d in pf['D']] or [1])
        if pf['final'] is not None:
            fin_pass = int(pf['final']['passes'])
        de = sum(1 for d in pf['D'] if d['class'] in ('E', 'F') and int(d['pass']) == fin_pass)
        dw = sum(1 for d in pf['D'] if d['class'] == 'W' and int(d['pass']) == fin_pass)
        if (de, dw) != (x['E'], x['W']):
            out.violate('events-vs-planted', '%s: %s planted %d errors/%d warnings (after options), hook saw %d/%d in the final pass'
                        % (tag, name, x['E'], x['W'], de, dw))
        want_p = (x['E'] == 0) and not x['stopped']
        if has_p != want_p:
            out.violate('code-file-%s' % ('kept-despite-errors' if has_p else 'missing-after-clean-run'),
                        '%s: %s %s although %d errors were reported for %s' % (tag, pname, 'exists' if has_p else 'is missing', x['E'], name))
        out.obs['files_checked'] += 1
        if x['stopped']:
            continue
        if sums_e is not None:
            if si >= len(sums_e) or si >= len(sums_w):
                out.violate('summary-missing', '%s: no summary totals for %s on the console' % (tag, name))
            elif (sums_e[si], sums_w[si]) != (x['E'], x['W']):
                out.violate('summary-totals-wrong', '%s: summary for %s says %d errors/%d warnings, %d/%d were reported'
                            % (tag, name, sums_e[si], sums_w[si], x['E'], x['W']))
            else:
                out.obs['summaries_checked'] += 1
            si += 1
        if listing:
            lst = (ctx.read(name[:-4] + '.lst') or b'').decode('latin-1')
            le = SUM_ERR.findall(lst)
            lw = SUM_WARN.findall(lst)
            if not le or not lw:
                out.violate('summary-missing', '%s: no summary totals in listing of %s' % (tag, name))
            elif (int(le[-1]), int(lw[-1])) != (x['E'], x['W']):
                out.violate('summary-totals-wrong', '%s: listing summary for %s says %s errors/%s warnings, %d/%d were reported'
                            % (tag, name, le[-1], lw[-1], x['E'], x['W']))
            else:
                out.obs['listing_summaries_checked'] += 1
    out.sets['statuses_seen'].add(str(r.rc))
    out.sets['channels'].add('console-listing' if conlist else chan)
