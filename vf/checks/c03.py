"""C03 — no input makes the assembler or a utility crash or hang.

Purely observational monitor over executions of the sanitised binaries:
status in the documented set, no sanitiser report, no signal, bounded
progress (line budget / pass cap hooks, CPU-time watchdog for the tools).

All workloads are FINITE POOLS indexed by an integer; VERIF_SEED only selects
which pool members the quick tier samples, the thorough tier runs every pool
completely.  So a thorough run that is silent implies every quick run at any
seed is silent (DESIGN.md §4 C03, 'saturation before registration').
"""
import os
import random
import re
import struct

from .. import asl, corpus, pfile, core

ID = 'C03'
LEVEL = 'exploration'
RULE = ('finite pools: (A) every golden program x 26 single-line mutation operators x 12 line offsets (operator applied to every 12th line, '
        'crashing lines bisected and restored so one crash does not mask the rest); (B) ~170 pseudo-instruction names x argument patterns from a boundary '
        'table x 4 targets; (C) construct templates with boundary counts; (D) 3000 PRNG byte/token soups; (E) utilities on code files: every truncation '
        'point and header-field edit of a fixed set of files x option sets; (F) dasl on random/corrupted binaries and hex files. quick samples each pool '
        'by VERIF_SEED, thorough runs all of them (exhaustive over the pools). distinct = distinct (pool, member) whose execution reached the tool; '
        'non-trivial = the tool ran to a normal exit or was caught violating')
ASSUMPTIONS = ['documented status sets: asl 0-4, utilities 0-3 (dasl also 4)',
               'termination is claimed only for inputs without WHILE / recursive macros and without repetition counts above 100000; a line-budget or pass-cap stop outside that class is counted, not judged',
               'a wall-clock expiry alone is inconclusive; a hang verdict needs >=20 s of CPU time burnt by the process']
MANIFEST = dict(
    category='exploration', design_ref='DESIGN.md §4 C03',
    technique='sanitiser-instrumented execution (ASan + UBSan subset) of asl and the utilities over finite mutation/grammar/corruption pools with bounded-progress hooks and a CPU-time watchdog',
    text='Held on the executions of this run: every member of the sampled (quick) or complete (thorough) pools ended with a documented exit status, '
         'without signal, sanitiser report or exceeded progress budget, apart from the crash sites listed as open findings in known_findings.json. '
         'Structurally malformed code files must be rejected with status 2/3.',
    note='A clean sanitiser run is not memory safety (red zones miss far and intra-object accesses); reach is the pools named in the rule, not all inputs. '
         'UBSan is restricted to the checks that correspond to the property (bounds, div-by-zero, object-size, pointer-overflow, unreachable, return, vla-bound).')

ASL_OK = (0, 1, 2, 3, 4)
TOOL_OK = (0, 1, 2, 3)
LINE_BUDGET = 3_000_000
PASS_CAP = 60

# ---------------------------------------------------------------------------
# pool A: mutations of golden sources

BOUNDARY_NUMS = ['0', '-1', '255', '256', '65535', '65536', '2147483647', '2147483648', '4294967295', '4294967296',
                 '9223372036854775807', '(-9223372036854775807-1)', '1.5e308', '1e-320']
NUM_RE = re.compile(r'(?<![\w$.%@"\'])(\$[0-9a-fA-F]+|0x[0-9a-fA-F]+|[0-9][0-9a-fA-F]*[hHoObBqQ]?|%[01]+)(?![\w"\'])')


def split_line(line):
    """(label, op, args-string, comment) — rough, only to place mutations"""
    m = re.match(r'^(\S*)(\s+)(\S+)(\s*)(.*)$', line)
    if not m:
        return None
    lab, _, op, _, rest = m.groups()
    # cut comment outside quotes
    out = []
    q = None
    for ch in rest:
        if q:
            if ch == q:
                q = None
        elif ch in '"\'':
            q = ch
        elif ch == ';':
            break
        out.append(ch)
    return lab, op, ''.join(out).rstrip(), ''


def split_args(s):
    args = []
    cur = []
    depth = 0
    q = None
    for ch in s:
        if q:
            cur.append(ch)
            if ch == q:
                q = None
            continue
        if ch in '"\'':
            q = ch
            cur.append(ch)
        elif ch in '([':
            depth += 1
            cur.append(ch)
        elif ch in ')]':
            depth -= 1
            cur.append(ch)
        elif ch == ',' and depth <= 0:
            args.append(''.join(cur))
            cur = []
        else:
            cur.append(ch)
    args.append(''.join(cur))
    return args


def mutate_line(line, op_id, nxt_op):
    """deterministic single-line mutation; returns new line or None if not applicable"""
    if not line.strip() or line.lstrip().startswith((';', '#', '*')):
        return None
    parts = split_line(line)
    if not parts:
        return None
    lab, op, rest, _ = parts
    args = split_args(rest) if rest else []

    def mk(lab=lab, op=op, args=args):
        return '%s\t%s\t%s' % (lab, op, ','.join(args))
    if op_id < len(BOUNDARY_NUMS):
        # replace every number literal of the operand field by a boundary value
        if not NUM_RE.search(rest):
            return None
        return '%s\t%s\t%s' % (lab, op, NUM_RE.sub(lambda m: BOUNDARY_NUMS[op_id], rest))
    k = op_id - len(BOUNDARY_NUMS)
    if k == 0:
        return mk(args=args[1:]) if args else None
    if k == 1:
        return mk(args=args[:-1]) if args else None
    if k == 2:
        return mk(args=args + args[-1:]) if args else mk(args=['1'])
    if k == 3:
        return mk(args=[''] + args[1:]) if args else None
    if k == 4:
        return mk(args=['"' + 'Ab' * 140 + '"'] + args[1:])
    if k == 5:
        return mk(args=args[::-1]) if len(args) > 1 else None
    if k == 6:
        return line.rstrip() + ','
    if k == 7:
        return line.rstrip() + '('
    if k == 8:
        return mk(op=nxt_op) if nxt_op and nxt_op != op else None
    if k == 9:
        s = line.rstrip()
        return s[:max(1, len(s) // 2)] if len(s) > 3 else None
    if k == 10:
        return mk(args=['#' + args[0]] + args[1:]) if args else None
    if k == 11:
        return mk(args=['(' + a + ')' for a in args]) if args else None
    if k == 12:
        return mk(args=['[' + a for a in args]) if args else None
    if k == 13:
        return mk(args=[a + '"' for a in args[:1]] + args[1:]) if args else None
    if k == 14:
        return mk(lab='') if lab else mk(lab='zzlab%d' % len(line))
    if k == 15:
        return mk(args=['-' + a for a in args]) if args else None
    if k == 16:
        return mk(args=args + ['x'] * 25)
    if k == 17:
        return mk(op=op + '.b') if '.' not in op else mk(op=op.split('.')[0] + '.zz')
    if k == 18:
        # an operand longer than any fixed-size string buffer (1024): a long formula in the first position
        return mk(args=['+'.join(['1'] * 600)] + args[1:])
    if k == 19:
        # ... and a long identifier in the last position
        return mk(args=args[:-1] + ['zz' + 'q' * 1100]) if args else mk(args=['zz' + 'q' * 1100])
    if k == 20:
        # the faulty operand far to the right (column > 1024): position markers and messages have to cope
        return '%s\t%s\t%s%s' % (lab, op, ' ' * 1500, ','.join(args + ['undefined_symbol_zz']))
    return None


N_MUT_OPS = len(BOUNDARY_NUMS) + 21
STRIDE = 12


def pool_a():
    names = corpus.names()
    return [('A', n, o, off) for n in names for o in range(N_MUT_OPS) for off in range(STRIDE)]


# ---------------------------------------------------------------------------
# pool B: pseudo-instruction grammar

PSEUDO = ('SET EQU CONSTANT SFR SFRB XSFR YSFR LABEL BIT DBIT DEFBIT DEFBITB DEFBITFIELD PORT REG NAMEREG LIV RIV CHARSET CODEPAGE '
          'ENUM NEXTENUM ENUMCONF PUSHV POPV ORG RORG CPU SUPMODE FPU PMMU CUSTOM FULLPMMU PADDING PACKING MAXMODE EXTMODE LWORDMODE '
          'SRCMODE BIGENDIAN WRAPMODE SEGMENT PHASE DEPHASE SAVE RESTORE ASSUME CKPT EMULATED BRANCHEXT Z80SYNTAX EXPECT ENDEXPECT '
          'DC DC.B DC.W DC.L DC.Q DC.S DC.D DC.X DC.C DC.P DS DS.B DS.W DS.L DN DB DW DD DQ DT DS8 BYT FCB BYTE DC8 ADR FDB WORD DW16 LONG '
          'SINGLE DOUBLE EXTENDED FLOAT EFLOAT BFLOAT TFLOAT Q15 LQ31 DATA ZERO FB FW ASCII ASCIZ STRING RSTRING FCC TEXT DFS RMB BLOCK '
          'SPACE RES BSS DSB DSW DS16 ALIGN LTORG MACRO ENDM IRP IRPN IRPC REPT WHILE EXITM SHIFT MAXNEST FUNCTION STRUCT ENDSTRUCT UNION '
          'ENDUNION DOTTEDSTRUCTS IF IFDEF IFNDEF IFUSED IFNUSED IFEXIST IFNEXIST IFB IFNB ELSEIF ELSE ENDIF SWITCH CASE ELSECASE ENDCASE '
          'PAGE NEWPAGE MACEXP MACEXP_DFT MACEXP_OVR LISTING PRTINIT PRTEXIT TITLE RADIX OUTRADIX SECTION ENDSECTION PUBLIC GLOBAL FORWARD '
          'SHARED INCLUDE BINCLUDE MESSAGE WARNING ERROR FATAL READ INTSYNTAX RELAXED COMPMODE END').split()
B_CPUS = ['68000', 'z80', '8051', '320c25']
V1 = ['0', '1', '-1', '2', '255', '256', '65535', '65536', '2147483647', '2147483648', '4294967296', '9223372036854775807',
      '(-9223372036854775807-1)', '1.5', '-1e308', '1e-320', '"abc"', '""', "'a'", '"' + 'x' * 300 + '"', 'undefsym', '*', '$', 'lab1',
      '(', ')', '(((((1)))))', '1/0', '1#0', '?', '[3]1', '[0]1', '[-1]1', '3 dup (1)', '-1 dup (1)', 'on', 'off', 'code', '<', '#1', '@', '1+', ',',
      '\\{1}', '"\\{1/0}"', 'lab1[', 'lab1[]', '[]', '.x', 'a:b', '1,2,3,4,5,6,7,8,9,10,11,12,13,14,15,16,17,18,19,20,21,22,23,24,25',
      'substr("hello",-3,2)', 'charfromstr("abc",5)', 'strstr("","")', '2^-1', '(-2.0)^0.5', '1<<64', '1>>-1', 'sqrt(-1)', 'ln(0)',
      'bitcnt(-1)', 'firstbit(0)', 'lastbit(0)', 'bitpos(3)', 'symtype(1)', 'defined(', 'upstring(1)', 'val("1/0")', 'exprtype(', 'strlen(1)']
V2 = ['0', '-1', '1', '65536', '"abc"', 'lab1', '', '2147483648']


def pool_b():
    cases = []
    for cpu in B_CPUS:
        for name in PSEUDO:
            cases.append(('B', cpu, name, 0, -1, -1))
            for i in range(len(V1)):
                cases.append(('B', cpu, name, 1, i, -1))
            for i in range(len(V2)):
                for j in range(len(V2)):
                    cases.append(('B', cpu, name, 2, i, j))
    return cases


def b_source(cpu, name, nargs, i, j, variant):
    if nargs == 0:
        args = ''
    elif nargs == 1:
        args = V1[i]
    else:
        args = V2[i] + ',' + V2[j]
    lines = ['\tcpu\t%s' % cpu, 'lab1:']
    lab = 'zz' if variant & 1 else ''
    lines.append('%s\t%s\t%s' % (lab, name.lower() if variant & 2 else name, args))
    if variant & 4:
        lines += ['\tdc.b\t1' if cpu == '68000' else '\tdb\t1' if cpu in ('z80', '8051') else '\tword\t1',
                  '\tendm', '\tendif', '\tendcase', '\tendstruct', '\tendsection', '\tendexpect']
    return '\n'.join(lines) + '\n'


# ---------------------------------------------------------------------------
# pool C: construct templates with boundary values

C_COUNTS = ['0', '1', '2', '-1', '-2', '1.5', '"a"', 'undefsym', '', '65536', '(-9223372036854775807-1)']
C_TEMPLATES = [
    '\trept\t{c}\n\tbyt\t1\n\tendm\n',
    '\tirp\tv,{c}\n\tbyt\tv\n\tendm\n',
    '\tirp\tv\n\tbyt\tv\n\tendm\n',
    '\tirp\n\tbyt\t1\n\tendm\n',
    '\tirpn\t{c},v,1,2,3\n\tbyt\tv\n\tendm\n',
    '\tirpn\t{c},v,w,1,2,3\n\tbyt\tv\n\tendm\n',
    '\tirpn\t{c}\n\tbyt\t1\n\tendm\n',
    '\tirpn\t{c},v\n\tbyt\t1\n\tendm\n',
    '\tirpc\tv,{c}\n\tbyt\t\'v\'\n\tendm\n',
    '\tirpc\tv\n\tbyt\t1\n\tendm\n',
    'm1\tmacro\ta\n\tbyt\ta\n\tendm\n\tm1\t{c}\n',
    'm1\tmacro\ta,b\n\tshift\n\tbyt\ta\n\tendm\n\tm1\t{c},2\n',
    'm1\tmacro\n\texitm\n\tendm\n\tm1\t{c}\n\texitm\n\tshift\n',
    '\talign\t{c}\n',
    '\talign\t{c},{c}\n',
    '\tswitch\t{c}\n\tcase\t{c}\n\tbyt\t1\n\telsecase\n\tbyt\t2\n\tendcase\n',
    '\telsecase\n',
    '\tcase\t{c}\n',
    '\tendcase\n',
    '\telse\n',
    '\telseif\t{c}\n',
    '\tendif\n',
    '\tendm\n',
    '\tendstruct\n',
    '\tendsection\n',
    '\tdephase\n',
    '\trestore\n',
    '\tpopv\tx,{c}\n',
    '\tpushv\t{c},{c}\n',
    's1\tstruct\nf\tbyt\t{c}\n\tendstruct\n\ts1\n',
    's1\tstruct\n\tbyt\t1\ns1\tendstruct\nx\ts1\t{c}\n',
    '\tphase\t{c}\n\tbyt\t1\n\tdephase\n\tdephase\n',
    '\tsegment\t{c}\n',
    '\torg\t{c}\n\tbyt\t1\n',
    '\tdfs\t{c}\n',
    '\tcharset\t{c},{c},{c}\n',
    '\tcharset\t{c}\n',
    '\tcodepage\t{c}\n',
    '\tenum\ta={c},b\n',
    '\tradix\t{c}\n\tbyt\t10\n',
    '\toutradix\t{c}\n\tmessage\t"\\{{255}}"\n',
    '\tmessage\t"\\{{{c}}}"\n',
    '\tmessage\tsubstr("hello",{c},2)\n',
    '\tmessage\tsubstr("hello",1,{c})\n',
    '\tmessage\tcharfromstr("hello",{c})\n',
    'x\tequ\t{c}/{c}\n',
    'x\tequ\t{c}#{c}\n',
    'x\tequ\t{c}<<{c}\n',
    'x\tequ\t{c}>>{c}\n',
    'x\tequ\t{c}^{c}\n',
    'x\tequ\t{c}><{c}\n',
    'f1\tfunction\ta,a+{c}\nx\tequ\tf1({c})\n',
    '\tinclude\t{c}\n',
    '\tbinclude\t{c},{c},{c}\n',
    '\texpect\t{c}\n\tendexpect\n',
    '\texpect\t{c}\n',
    '\tsave\n\tsave\n\trestore\n',
    '\tsection\ts\n\tpublic\tx:{c}\n\tendsection\n',
    '\tread\tx\n',
    # very long tokens where a position string, a name or an argument is copied around
    '\tirp\tv,{L}\n\tbogus\n\tendm\n',
    '\tirpc\tv,{L}\n\tbogus\n\tendm\n',
    '\tirpn\t2,v,w,{L},1\n\tbogus\n\tendm\n',
    'm1\tmacro\ta\n\tbogus\n\tendm\n\tm1\t{L}\n',
    '{L}:\tbogus\n',
    '{L}\tmacro\n\tbogus\n\tendm\n\t{L}\n',
    '\tsection\t{L}\n\tbogus\n\tendsection\n',
    '\tinclude\t"{L}"\n',
    '\tmessage\t"{L}"\n\terror\t"{L}"\n',
    'x\tequ\t{L}\n',
    's{c}\tstruct\n{L}\tbyt\t?\n\tendstruct\n',
    '\tbyt\t"{L}"\n',
    '\tcharset\t{c},255,0\n\tbyt\t"a"\n',
    '\tcharset\t255,{c}\n',
    'x\tequ\tlab[parent{c}]\n',
    # several structures (with the used-areas list the structure pseudo segment is cleared between them); arithmetic corner values
    's1\tstruct\na\tdfs\t{c}\ns1\tendstruct\ns2\tstruct\nb\tdfs\t1\nc\tdfs\t2\ns2\tendstruct\nu1\tunion\nd\tdfs\t1\nu1\tendunion\ni1\ts1\ni2\ts2\n',
    'q1\tequ\t(1<<63)#(0-{c})\nq2\tequ\t(1<<63)/(0-{c})\nq3\tequ\t(0-{c})#(1<<63)\n\tbyt\tq1&255,q2&255\n',
    'q1\tequ\t{c}#(0-1)\nq2\tequ\t{c}/(0-1)\nq3\tequ\t(1<<63)<<{c}\nq4\tequ\t(1<<63)>>{c}\nq5\tequ\t{c}><{c}\n',
    # functions that call themselves; 8-bit characters while a #define is active
    'f\tfunction\tx,f(x)+{c}\n\tbyt\tf(1)\n',
    'f\tfunction\tx,g(x)\ng\tfunction\tx,f(x)\n\tbyt\tf({c})\n',
    '#define foo {c}\n\tnop ; caf\xe9 \xc3\xa9\xff\n\tbyt\tfoo&255,"\xe9\xff"\n',
    '#define f\xe9 {c}\n\tbyt\tf\xe9&255\n',
    # faults far to the right and very long operands
    '\tbyt\t' + '1+' * 1500 + 'undefsym{c}\n',
    '\tbyt\t' + ' ' * 3000 + 'undefsym{c}\n',
    '\tbyt\t1,' + ' ' * 1100 + '"unterminated{c}\n',
    ' ' * 2000 + 'bogusinstruction{c}\t1\n',
    'm\tmacro\tp\n\tbyt\t' + ' ' * 1500 + 'p\n\tendm\n\tm\tundefsym{c}\n',
    '\tdb\t{c} dup (' + '1+' * 600 + '1)\n',
    # body lines whose TABs / control characters are rewritten when the body is stored
    'm\tmacro\n\tbyt\t1' + '\t' * 300 + ',{c}\n\tendm\n\tm\n',
    '\tirp\tq,1,2\n\tbyt\tq' + '\t' * 300 + ',{c}\n\tendm\n',
    '\tirpc\tq,"ab"\n' + '\t' * 40 + 'byt' + '\t' * 40 + '"q"' + '\t' * 200 + '\n\tendm\n',
    '\trept\t2\n\tbyt\t1' + '\t' * 300 + ',{c}\n\tendm\n',
    'm\tmacro\n\tbyt\t1' + '\x01' * 300 + ',{c}\n\tendm\n\tm\n',
    '\tsection\ts1\nx\tequ\tlab[parent2]\n\tpublic\tlab:parent3\n\tendsection\n',
]
LONG_TOKEN = 'Ab' * 650
C_CPUS = ['6502', '68000']


def pool_c():
    cases = []
    for cpu in C_CPUS:
        for t in range(len(C_TEMPLATES)):
            if '{c}' in C_TEMPLATES[t]:
                for c in range(len(C_COUNTS)):
                    cases.append(('C', cpu, t, c))
            else:
                cases.append(('C', cpu, t, -1))
    return cases


# ---------------------------------------------------------------------------
# pool D: soups

SOUP_TOKENS = ['\t', ' ', '\n', ',', '(', ')', '"', "'", ';', ':', '.', '$', '#', '%', '+', '-', '*', '/', '<', '>', '=', '\\', '{', '}', '[', ']',
               'macro', 'endm', 'rept', 'irp', 'if', 'endif', 'equ', 'set', 'db', 'dc.b', 'byt', 'org', 'cpu', '6502', 'z80', 'struct', 'endstruct',
               'section', 'endsection', 'lab', 'x', '0', '1', '255', 'function', 'include', 'switch', 'case', 'endcase', '\x00', '\xff', '\x0c', '\r']
N_SOUP = 3000


def pool_d():
    return [('D', i) for i in range(N_SOUP)]


def soup(i):
    rng = random.Random(1000003 * i + 7)
    if i % 3 == 0:
        n = rng.randrange(1, 2000)
        return bytes(rng.randrange(256) for _ in range(n))
    n = rng.randrange(1, 400)
    s = ''.join(rng.choice(SOUP_TOKENS) for _ in range(n))
    if i % 3 == 1:
        s = '\tcpu\t%s\n' % rng.choice(['6502', 'z80', '68000', '8051']) + s
    return s.encode('latin-1')


# ---------------------------------------------------------------------------
# pool E: utilities on damaged code files

def base_files():
    """a fixed, small set of well-formed code files (built by the independent writer)"""
    d = pfile.data
    files = []
    files.append(pfile.build([d(0x11, 0x1000, b'\x01\x02\x03\x04\x05'), pfile.entry(0x1000)]))
    files.append(pfile.build([d(0x51, 0, bytes(range(40))), d(0x51, 0x100, b'\xaa' * 3), d(0x70, 4, b'\x01\x00\x02\x00', gran=2)]))
    files.append(pfile.build([d(0x09, 0x40, b'\x00\x00\x00\x01' * 3, seg=4, gran=4), d(0x31, 0x20, b'\x07', seg=2)]))
    files.append(pfile.build([d(0x11, 0, b'\x01\x02', short=True), d(0x01, 0x10, b'\x4e\x71')]))
    files.append(pfile.build([d(0x11, 0x200, b''), d(0x11, 0x200, b'\x60')]))
    # a relocation-info record (type $85: three 32-bit counts, then the entries) in front of a data record
    plain = pfile.build([d(0x11, 0x1000, b'\x01\x02')])
    files.append(plain[:2] + b'\x85' + struct.pack('<III', 0, 0, 4) + b'abc\x00' + plain[2:])
    return files


E_EDIT_VALUES = [0x00, 0x01, 0x7f, 0x80, 0x81, 0x85, 0x86, 0xff]
E_EDIT4_VALUES = [0xffffffff, 0xfffffff3, 0xfffffff0, 0x80000000, 0x7fffffff, 0x10000000]
E_TOOLS = [
    ('plist', lambda f: [f]),
    ('pbind', lambda f: [f, 'out.p']),
    ('p2bin', lambda f: [f, 'out.bin']),
    ('p2bin', lambda f: [f, 'out.bin', '-r', '$-$', '-l', '255', '-s']),
    ('p2hex', lambda f: [f, 'out.hex']),
    ('p2hex', lambda f: [f, 'out.hex', '-F', 'Moto', '-r', '$-$']),
    ('p2hex', lambda f: [f, 'out.hex', '-F', 'Intel32', '-l', '2']),
    ('alink', lambda f: [f, 'out.p']),
]


def pool_e():
    cases = []
    files = base_files()
    for fi, buf in enumerate(files):
        for ti in range(len(E_TOOLS)):
            cases.append(('E', fi, ti, 'id', 0, 0))
            for cut in range(len(buf)):
                cases.append(('E', fi, ti, 'cut', cut, 0))
            for pos in range(min(len(buf), 64)):
                for v in range(len(E_EDIT_VALUES)):
                    cases.append(('E', fi, ti, 'set', pos, v))
            # 32-bit fields (lengths, counts, addresses) replaced as a whole
            for pos in range(min(len(buf) - 3, 40)):
                for v in range(len(E_EDIT4_VALUES)):
                    cases.append(('E', fi, ti, 'set4', pos, v))
    return cases


# ---------------------------------------------------------------------------
# pool H: option values of the utilities (well-formed input, every option with boundary arguments)

H_NUM = ['0', '1', '2', '3', '7', '16', '254', '255', '256', '65535', '65536', '4294967295', '4294967296', '-1', '$ff', '0x', '', 'x']
H_RANGE = ['0x-0x', '0x100-0x', '0x-0x100', '0x2000-0x', '0x-0x2', '$-$', '0-0', '0-$', '$-0', '0x10-0x5', '0xffffffff-0xffffffff', '0-0xffffffff', '-', '0', '0-', '-0', '1-2-3', '0x1000-0x1004']
H_OPTS = {
    'p2hex': [('-l', H_NUM), ('-r', H_RANGE), ('-R', H_NUM), ('-a', [None]), ('-i', ['0', '1', '2', '3', '-1', '']), ('-m', ['0', '1', '2', '3', '4', '-1', '']),
              ('-F', ['Default', 'Moto', 'Intel', 'Intel16', 'Intel32', 'MOS', 'Tek', 'DSK', 'Atmel', 'Mico8', 'C', '', 'nosuch']),
              ('+5', [None]), ('-5', [None]), ('-s', [None]), ('-d', H_RANGE), ('-e', H_NUM), ('-k', [None]), ('-M', ['0', '1', '2', '3', '4', '']),
              ('-SEGMENT', ['CODE', 'DATA', 'BITDATA', 'NOSUCH', '', '1']), ('-AVRLEN', ['1', '2', '3', '4', '0', '']),
              ('-CFORMAT', ['dSEl', 'd', '', 'xxxx', 'dSEl' * 20]), ('-f', ['0', '$11', '17,81', '256', '', ',', '$11,$11,$11'])],
    # p2bin fills the whole range: only ranges of at most 64 KiB (a 4 GiB image is legitimate work, not a hang)
    'p2bin': [('-l', H_NUM), ('-r', ['0x-0x', '0x100-0x', '0x-0x100', '0x2000-0x', '0x-0x2', '$-$', '0-0', '0-$', '$-0', '0x10-0x5', '0xffffffff-0xffffffff', '0-0xffff', '-', '0', '0-', '-0', '1-2-3', '0x1000-0x1004']), ('-f', ['0', '$11', '17,81', '256', '', ',']), ('-s', [None]), ('-k', [None]),
              ('-m', ['ALL', 'EVEN', 'ODD', 'BYTE0', 'BYTE1', 'BYTE2', 'BYTE3', 'WORD0', 'WORD1', 'BYTE4', '', 'x']),
              ('-e', H_NUM), ('-S', ['L1', 'B1', 'L2', 'B2', 'L4', 'B4', 'L8', 'B8', 'L0', 'L9', '1', '4', 'X4', '', 'L']),
              ('-SEGMENT', ['CODE', 'DATA', 'NOSUCH', ''])],
    'pbind': [('-f', ['0', '$11', '17,81', '256', '', ',', '$11,$11']), ('+f', ['$11'])],
    # the assembler's own options, plain and negated (+x), with boundary arguments, on a small valid source
    'asl': [('-i', ['inc1', 'inc1:inc2', '', 'x' * 300]), ('+i', ['inc1', 'nosuch', '']), ('-o', ['o1.p', '', 'x' * 300]), ('+o', ['o1.p', None]),
            ('-D', ['A', 'A=1', 'A=1,B=2', 'A=', '=1', 'A=1=2', '', 'A' * 300]), ('+D', ['A', 'A=1']), ('-cpu', ['z80', 'nosuch', '', '?']), ('+cpu', [None]),
            ('-alias', ['new=z80', 'new=', '=z80', 'new', 'a=b=c', '']), ('+alias', ['new=z80']), ('-r', ['0', '1', '2', '-1', '99999', '', 'x']), ('+r', [None]),
            ('-t', H_NUM), ('+t', ['0', '1', '32', '255', '256']), ('-E', ['e.log', '!0', '!1', '!2', '!3', '!4', '!5', '!9', '', None]), ('+E', [None]),
            ('-maxerrors', ['0', '1', '65536', '-1', '', 'x']), ('+maxerrors', [None]), ('-maxinclevel', ['0', '1', '200', '-1', '']), ('-g', ['MAP', 'NOICE', 'ATMEL', 'nosuch', '', None]),
            ('-NOICEMASK', ['0', '1', '255', '65536', '-1', '']), ('-LISTRADIX', ['0', '1', '2', '16', '36', '37', '-1', '']), ('-SPLITBYTE', [':', '', 'ab', '.']),
            ('+SPLITBYTE', [None]), ('-OLIST', ['l.lst', '', 'x' * 300]), ('-SHAREOUT', ['s.h', '', 'x' * 300]), ('-L', [None]), ('+L', [None]), ('-l', [None]),
            ('-c', [None]), ('-p', [None]), ('-a', [None]), ('-u', [None]), ('-C', [None]), ('-s', [None]), ('-I', [None]), ('-P', [None]), ('-M', [None]),
            ('-A', [None]), ('-U', [None]), ('-h', [None]), ('-w', [None]), ('-x', [None]), ('-n', [None]), ('-X', [None]), ('-Y', [None]), ('-G', [None]), ('+G', [None]),
            ('-WERROR', [None]), ('-GNUERRORS', [None]), ('-WARNRANGES', [None]), ('-q', [None])],
}
H_ASL_SOURCE = ('\tcpu\t6502\n\tinclude\t"a.inc"\nl1:\tlda\t#A_DEF\n\tjmp\tfwd\n\tbyt\t"abc\\{l1}"\nfwd:\tnop\n\tshared\tl1\n\tifdef\tB\n\twarning\t"B set"\n\tendif\n'
                'A_DEF\tequ\t5\n')
H_FILES = 4


def pool_h():
    cases = []
    for tool in sorted(H_OPTS):
        opts = H_OPTS[tool]
        for oi, (o, vals) in enumerate(opts):
            for vi in range(len(vals)):
                for fi in range(H_FILES):
                    cases.append(('H', tool, oi, vi, -1, 0, fi))
        # pairs of options (second one with its first three values)
        for oi in range(len(opts)):
            for oj in range(len(opts)):
                if oi != oj:
                    for vi in range(min(3, len(opts[oi][1]))):
                        for vj in range(min(3, len(opts[oj][1]))):
                            cases.append(('H', tool, oi, vi, oj, vj, (oi + oj + vi) % H_FILES))
    return cases


def case_h_asl(ctx, member):
    out = ctx.out
    _, tool, oi, vi, oj, vj, fi = member
    os.makedirs(ctx.path('inc1'), exist_ok=True)
    os.makedirs(ctx.path('inc2'), exist_ok=True)
    ctx.write('inc1/a.inc', '\tnop\n')
    ctx.write('inc2/a.inc', '\tnop\n\tnop\n')
    ctx.write('a.inc', '\tbyt\t1\n')
    ctx.write('in.asm', H_ASL_SOURCE)
    opts = H_OPTS['asl']
    args = []
    for (a, b) in ((oi, vi), (oj, vj)):
        if a < 0:
            continue
        o, vals = opts[a]
        args.append(o)
        if vals[b] is not None:
            args.append(vals[b])
    # source first or last (options with an optional argument may swallow what follows them: documented)
    argv = (['in.asm'] + args) if fi % 2 == 0 else (args + ['in.asm'])
    r = ctx.run('asl', argv, env=ASL_ENV, timeout=20)
    out.obs['asl_runs'] += 1
    out.sets['tools'].add('asl')
    tag = 'H:asl %s' % ' '.join(argv)
    if r.timed_out:
        out.violate('hang:asl:option-value', '%s: no exit within 20 s and 100 s' % tag)
        return
    if r.san:
        out.violate(r.san, '%s: %s' % (tag, r.err.decode('latin-1')[-600:]))
        return
    if r.rc not in ASL_OK + (4,):
        out.violate('exit-status-undocumented:asl:%s' % r.rc, tag)
        return
    out.sets['asl_statuses'].add(str(r.rc))
    out.sigs.add(tag)


def case_h(ctx, member):
    out = ctx.out
    _, tool, oi, vi, oj, vj, fi = member
    if tool == 'asl':
        return case_h_asl(ctx, member)
    ctx.write('in.p', base_files()[fi])
    for n in ('out.p', 'out.bin', 'out.hex'):
        try:
            os.unlink(ctx.path(n))
        except OSError:
            pass
    opts = H_OPTS[tool]
    args = ['in.p', {'p2hex': 'out.hex', 'p2bin': 'out.bin', 'pbind': 'out.p'}[tool]]
    for (a, b) in ((oi, vi), (oj, vj)):
        if a < 0:
            continue
        o, vals = opts[a]
        args.append(o)
        if vals[b] is not None:
            args.append(vals[b])
    # (output limited to 64 MiB: a few-byte input that makes a tool write more is stopped by SIGXFSZ and reported as such)
    r = ctx.run('/bin/sh', ['-c', 'ulimit -f 65536; exec "$0" "$@"', ctx.bins[tool]] + args, timeout=12)
    out.obs['tool_runs'] += 1
    out.sets['tools'].add(tool)
    tag = 'H:%s %s' % (tool, ' '.join(args))
    if r.sig == 25 or r.rc == 153:
        out.violate('runaway-output:%s' % tool, '%s: more than 64 MiB written for a %d-byte input' % (tag, len(base_files()[fi])))
        return
    if r.timed_out:
        out.violate('hang:%s:option-value' % tool, '%s: no exit within 12 s and 60 s on a %d-byte well-formed input' % (tag, len(base_files()[fi])))
        return
    if r.san:
        out.violate(r.san, '%s: %s' % (tag, r.err.decode('latin-1')[-600:]))
        return
    if r.rc not in TOOL_OK:
        out.violate('exit-status-undocumented:%s:%s' % (tool, r.rc), tag)
        return
    out.sets['tool_statuses'].add('%s:%s' % (tool, r.rc))
    out.sigs.add(tag)


# ---------------------------------------------------------------------------
# pool I: every plain statement of the golden programs as the FIRST statement of a source (right behind its CPU statement): operand
# storage, tables and per-file state are as a fresh start leaves them, not as hundreds of earlier lines have grown them

_POOL_I = None


def pool_i():
    global _POOL_I
    if _POOL_I is None:
        from . import c18
        seen = set()
        members = []
        for prog in corpus.programs():
            voc = c18.vocabulary(prog)
            for cpu in sorted(voc):
                for li, l in enumerate(voc[cpu]):
                    k = (cpu.lower(), ' '.join(l.split()).lower())
                    if k not in seen:
                        seen.add(k)
                        members.append(('I', prog.name, cpu, li))
        _POOL_I = members
    return _POOL_I


def case_i(ctx, member):
    from . import c18
    _, pname, cpu, li = member
    prog = corpus.Prog(pname)
    line = c18.vocabulary(prog)[cpu][li]
    text = '\tcpu\t%s\n%s\n' % (cpu, line)
    case_small(ctx, member, text, 'I:%s:%s:%d' % (pname, cpu, li), claim=not NO_TERM_RE.search(line) and not big_count(line))


# ---------------------------------------------------------------------------
# pool J: statements of OTHER families in front of every CPU the golden programs select: data, reservation and control statements
# whose handlers are shared between code generators and set up per address-unit size / endianness of the current target

J_STATEMENTS = [
    '\tdb\t1,2', '\tdb\t"ab"', '\tdb\t3 dup (1)', '\tdb\t?', '\tdb\t2 dup (?)', '\tdw\t1', '\tdw\t?', '\tdw\t"ab"', '\tdd\t1', '\tdd\t1.5',
    '\tdq\t1', '\tdq\t1.5', '\tdt\t1.0', '\tdn\t1,2,3', '\tds\t4', '\tdc.b\t1', '\tdc.w\t1', '\tdc.l\t1', '\tdc.b\t"ab"', '\tdc.w\t[3]1',
    '\tdc.d\t1.5', '\tdc.x\t1.5', '\tdc.p\t1.5', '\tds.b\t3', '\tds.w\t0', '\tds.l\t1', '\tdc\t1', '\tdfs\t2', '\tbyt\t1', '\tadr\t1',
    '\tfcb\t1', '\tfdb\t1', '\tfcc\t"ab"', '\trmb\t2', '\tdata\t1', '\tdata\t"ab"', '\tword\t1', '\tlong\t1', '\tbyte\t1', '\tfloat\t1.0',
    '\tdouble\t1.0', '\tsingle\t1.0', '\textended\t1.0', '\tstring\t"ab"', '\tbss\t2', '\tres\t2', '\tspace\t2', '\tblock\t2', '\tzero\t2',
    '\ttext\t"ab"', '\tascii\t"ab"', '\tasciz\t"ab"', '\tdefb\t1', '\tdefw\t1', '\tdefs\t2', '\tdefm\t"ab"', '\t.byte\t1', '\t.word\t1',
    '\talign\t4', '\talign\t2,0', '\teven', '\tphase\t10', '\tsegment\tdata\n\tdb\t1', '\tsegment\tbitdata\n\tdb\t1', '\tsegment\tio\n\tds\t1',
    'b1\tbit\t1,2', 's1\tsfr\t10h', 'p1\tport\t1', 'r1\treg\tr0', '\tltorg', '\tassume\tds:nothing', '\tbinclude\t"s.asm"', '\tpadding\ton\n\tdc.b\t1\n\tdc.w\t2',
    '\tbigendian\ton\n\tdw\t1234h', '\tsupmode\ton', '\tfpu\ton', '\tpacking\ton\n\tdata\t"abc"', '\tend\tstart',
]
_POOL_J = None


def pool_j():
    global _POOL_J
    if _POOL_J is None:
        from . import c18
        cpus = sorted({cpu.lower() for prog in corpus.programs() for cpu in c18.vocabulary(prog)})
        _POOL_J = [('J', cpu, si) for cpu in cpus for si in range(len(J_STATEMENTS))]
    return _POOL_J


def case_j(ctx, member):
    _, cpu, si = member
    text = '\tcpu\t%s\nstart:\n%s\n' % (cpu, J_STATEMENTS[si])
    case_small(ctx, member, text, 'J:%s:%d' % (cpu, si), claim=True)
    ctx.out.sets['foreign_statement_cpus'].add(cpu)


# ---------------------------------------------------------------------------
# pool F: dasl

N_DASL = 1500
DASL_CPUS = ['6800', '6802', '87C00', '4004', '87C00']


def pool_f():
    return [('F', i) for i in range(N_DASL)]


# pool G: dasl two-byte opcode sweep (first byte x every 5th second byte, then a zero tail), entry at the first byte
G_CPUS = ['6800', '87C00', '4004']


def pool_g():
    return [('G', c, b0, b1) for c in G_CPUS for b0 in range(256) for b1 in range(0, 256, 5)]


def case_g(ctx, member):
    out = ctx.out
    _, cpu, b0, b1 = member
    ctx.write('g.bin', bytes([b0, b1, 0x10, 0x00, 0x00, 0x01, 0x00, 0x00]))
    r = ctx.run('dasl', ['-cpu', cpu, '-binfile', 'g.bin@256', '-entryaddress', '256'], timeout=12)
    out.obs['tool_runs'] += 1
    tag = 'G:%s:%02x%02x' % (cpu, b0, b1)
    if r.timed_out:
        out.violate('hang:dasl:%s:opcode-prefix-%02x' % (cpu, b0), 'dasl -cpu %s on bytes %02x %02x 10 00 00 01 00 00: no exit within 12 s and 60 s' % (cpu, b0, b1))
        return
    if r.san:
        out.violate(r.san, '%s: %s' % (tag, r.err.decode('latin-1')[-500:]))
        return
    if r.rc not in (0, 1, 2, 3, 4):
        out.violate('exit-status-undocumented:dasl:%s' % r.rc, tag)
        return
    out.sigs.add(tag)


# ---------------------------------------------------------------------------

_POOLS = None


def pools():
    global _POOLS
    if _POOLS is None:
        _POOLS = {'A': pool_a(), 'B': pool_b(), 'C': pool_c(), 'D': pool_d(), 'E': pool_e(), 'F': pool_f(), 'G': pool_g(), 'H': pool_h(), 'I': pool_i(), 'J': pool_j()}
    return _POOLS


QUICK_SAMPLE = {'A': 160, 'B': 1500, 'C': 100000, 'D': 300, 'E': 1500, 'F': 100, 'G': 1500, 'H': 100000, 'I': 4000, 'J': 4000}      # C and H: whole pool


def plan(tier, seed):
    ps = pools()
    cases = []
    only = os.environ.get('VERIF_C03_POOLS')      # development aid: restrict to some pools
    for k in sorted(ps):
        if only and k not in only:
            continue
        members = ps[k]
        if tier == 'thorough':
            chosen = members
        else:
            rng = random.Random(seed * 7919 + ord(k))
            n = min(QUICK_SAMPLE[k], len(members))
            chosen = rng.sample(members, n)
        # group small members so that one worker call handles a batch (cheap cases)
        bs = {'A': 1, 'B': 40, 'C': 10, 'D': 20, 'E': 40, 'F': 20, 'G': 40, 'H': 40, 'I': 40, 'J': 40}[k]
        for i in range(0, len(chosen), bs):
            cases.append({'pool': k, 'members': chosen[i:i + bs]})
    return cases


EXHAUSTIVE = False

# ---------------------------------------------------------------------------
# execution and judgement


def judge_asl(out, r, where, src_text=None, claim_termination=True):
    """returns a violation key or None"""
    out.obs['asl_runs'] += 1
    if r.timed_out:
        if not claim_termination:
            out.obs['time_stops_termination_not_claimed'] += 1
            return None
        out.inconc('timeout: asl %s' % where)
        return None
    if r.rc == -1 and r.err.startswith(b'spawn failed'):
        out.inconc('harness: could not start asl')
        return None
    if r.san:
        return r.san
    if r.rc == 96:
        if claim_termination:
            return 'hang:line-budget'
        out.obs['budget_stops_termination_not_claimed'] += 1
        return None
    if r.rc == 97:
        out.obs['pass_cap_stops_left_to_C01'] += 1
        return None
    if r.rc not in ASL_OK:
        return 'exit-status-undocumented:asl:%s' % r.rc
    out.sets['asl_statuses'].add(str(r.rc))
    return None


ASL_ENV = {'ASL_VERIF_MAX_LINES': str(LINE_BUDGET), 'ASL_VERIF_MAX_PASSES': str(PASS_CAP)}
NO_TERM_RE = re.compile(r'\b(while|macro|rept|irp|irpn|irpc|dup|include|function)\b', re.I)


# where termination is not claimed a budget stop is only counted: a small budget saves the time of legitimately long loops
ASL_ENV_NOCLAIM = {'ASL_VERIF_MAX_LINES': str(min(LINE_BUDGET, 300000)), 'ASL_VERIF_MAX_PASSES': str(PASS_CAP)}


# message/report options that change how a diagnostic is rendered (position markers, GNU format, numbers, listing)
OPT_VARIANTS = [[], ['-x'], ['-x', '-x'], ['-gnuerrors', '-x'], ['-n', '-x', '-x'], ['-L'], ['-x', '-L', '-u', '-C'], [], ['-U'], ['-U', '-L', '-x']]


def opt_variant(tag):
    import zlib
    return OPT_VARIANTS[zlib.crc32(tag.encode('latin-1', 'replace')) % len(OPT_VARIANTS)]


def run_asl(ctx, src_name, flags=(), cwd=None, claim=True):
    # (no termination claim: an expiry is neither judged nor worth a second, longer run)
    return ctx.run('asl', [src_name, '-o', 'x.p'] + list(flags) + ['-q'], env=ASL_ENV if claim else ASL_ENV_NOCLAIM, cwd=cwd,
                   timeout=120 if claim else 40, retry=claim)


def case_a(ctx, member):
    out = ctx.out
    _, name, op_id, off = member
    prog = corpus.Prog(name)
    prog.stage(ctx.dir)
    prog_text = prog.source().decode('latin-1')
    lines = prog_text.split('\n')
    ops = []
    for l in lines:
        p = split_line(l) if l.strip() and not l.lstrip().startswith(';') else None
        ops.append(p[1] if p else None)
    muts = {}
    for idx in range(off, len(lines), STRIDE):
        nxt = next((ops[j] for j in range(idx + 1, min(idx + 6, len(lines))) if ops[j]), None)
        m = mutate_line(lines[idx], op_id, nxt)
        if m is not None and m != lines[idx]:
            muts[idx] = m
    if not muts:
        out.obs['a_members_without_applicable_line'] += 1
        return
    flags = list(prog.flags) + ['-i', corpus.include_dir()] + opt_variant('A:%s:%d:%d' % (name, op_id, off))
    active = dict(muts)
    rounds = 0
    while active and rounds < 8:
        rounds += 1
        text = '\n'.join(active.get(i, l) for i, l in enumerate(lines))
        ctx.write(name + '.asm', text)
        # mutations can create unbounded repetition counts: termination is only claimed when the mutated lines stay clear of such constructs
        # ... and when the program has no repetition construct at all that a mutated value could feed
        claim = not NO_TERM_RE.search(prog_text) and not any(NO_TERM_RE.search(v) for v in active.values())
        r = run_asl(ctx, name + '.asm', flags, claim=claim)
        key = judge_asl(out, r, 'A:%s' % name, claim_termination=claim)
        out.obs['mutated_lines_executed'] += len(active)
        if key is None:
            out.sigs.add('A:%s:%d:%d' % (name, op_id, off))
            return
        # find one responsible line by bisection, report it, restore it, continue with the rest
        cand = sorted(active)
        while len(cand) > 1:
            half = cand[:len(cand) // 2]
            text = '\n'.join((active[i] if i in half else l) for i, l in enumerate(lines))
            ctx.write(name + '.asm', text)
            r2 = run_asl(ctx, name + '.asm', flags, claim=claim)
            k2 = judge_asl(out, r2, 'A:%s' % name, claim_termination=claim)
            if k2 == key:
                cand = half
            else:
                cand = cand[len(cand) // 2:]
        culprit = cand[0]
        text = '\n'.join((active[i] if i == culprit else l) for i, l in enumerate(lines))
        ctx.write(name + '.asm', text)
        r3 = run_asl(ctx, name + '.asm', flags, claim=claim)
        k3 = judge_asl(out, r3, 'A:%s' % name, claim_termination=claim)
        if k3 == key:
            out.violate(key, '%s line %d mutated (operator %d) to %r: %s' % (name, culprit + 1, op_id, active[culprit][:160],
                                                                         (r3.err.decode('latin-1')[-700:] if r3.san else 'rc=%s' % r3.rc)))
        else:
            out.violate(key, '%s operator %d offset %d (needs several mutated lines): %s' % (name, op_id, off, r.err.decode('latin-1')[-500:]))
            return
        del active[culprit]
    out.sigs.add('A:%s:%d:%d' % (name, op_id, off))


def case_small(ctx, member, text, tag, claim=True, stdin=None, opts=None):
    out = ctx.out
    ctx.write('s.asm', text)
    r = ctx.run('asl', ['s.asm', '-o', 'x.p'] + (opt_variant(tag) if opts is None else list(opts)) + ['-q'], env=ASL_ENV if claim else ASL_ENV_NOCLAIM, timeout=20 if claim else 40, retry=claim,
                stdin=b'' if stdin is None else stdin)
    if r.timed_out and claim and len(text) < 4096 and getattr(r, 'cpu', 0) < 30:
        # the process did not get the processor for long enough (overloaded machine): no verdict
        out.inconc('timeout: asl %s starved (%.0f CPU seconds in 100 s)' % (tag, getattr(r, 'cpu', 0)))
        return
    if r.timed_out and claim and len(text) < 4096:
        # neither 20 s nor the second run with 100 s sufficed for a source of a few lines that contains no loop construct and no large
        # count, while the line budget (which counts source lines, not time) was not exhausted: one statement does not return
        show = text if isinstance(text, str) else repr(text[:300])
        out.violate('hang:asl:statement-does-not-return', '%s: source %r: no exit within 20 s and 100 s (%.0f CPU seconds used)' % (tag, show[:400], r.cpu))
        return
    key = judge_asl(out, r, tag, claim_termination=claim)
    if key:
        show = text if isinstance(text, str) else repr(text[:300])
        out.violate(key, '%s: source %r: %s' % (tag, show[:400], (r.err.decode('latin-1')[-600:] if r.san else 'rc=%s' % r.rc)))
    else:
        out.sigs.add(tag)


def big_count(s):
    return bool(re.search(r'\d{6,}|e308', s))


def strict_reject_reason(buf):
    """None if the independent reader accepts the file, else why it is structurally malformed"""
    try:
        recs = pfile.parse(buf, strict=False)
    except pfile.FormatError as e:
        return str(e)
    for r in recs:
        if r.kind == 'data' and r.gran == 0:
            return 'granularity 0'
    return None


def case_e(ctx, member):
    out = ctx.out
    _, fi, ti, kind, a, b = member
    buf = bytearray(base_files()[fi])
    if kind == 'cut':
        buf = buf[:a]
    elif kind == 'set':
        if buf[a] == E_EDIT_VALUES[b]:
            return
        buf[a] = E_EDIT_VALUES[b]
    elif kind == 'set4':
        buf[a:a + 4] = struct.pack('<I', E_EDIT4_VALUES[b])
    ctx.write('in.p', bytes(buf))
    for n in ('out.p', 'out.bin', 'out.hex'):
        try:
            os.unlink(ctx.path(n))
        except OSError:
            pass
    tool, mk = E_TOOLS[ti]
    if tool == 'p2bin':
        # an edited start address may describe an image of gigabytes: that much fill is legitimate work, not a hang
        try:
            rr = [x for x in pfile.parse(bytes(buf), strict=False) if x.kind == 'data' and x.gran]
            if rr and max(x.start * x.gran + len(x.data) for x in rr) - min(x.start * x.gran for x in rr) > (4 << 20):
                out.obs['p2bin_image_larger_than_4MiB_not_run'] += 1
                return
        except pfile.FormatError:
            pass
    r = ctx.run(tool, mk('in.p'), timeout=12)
    out.obs['tool_runs'] += 1
    out.sets['tools'].add(tool)
    tag = 'E:file%d:%s:%s@%d=%s' % (fi, tool, kind, a, E_EDIT_VALUES[b] if kind == 'set' else (E_EDIT4_VALUES[b] if kind == 'set4' else ''))
    if r.timed_out:
        # the automatic re-run with 200 s also expired: a file of <200 bytes cannot describe that much work
        out.violate('hang:%s:%s' % (tool, 'truncated-file' if kind == 'cut' else 'edited-file'),
                    '%s %s: no exit within 12 s and 60 s on a %d-byte input (%s)' % (tool, ' '.join(mk('in.p')), len(buf), tag))
        return
    if r.san:
        out.violate(r.san, '%s: %s' % (tag, r.err.decode('latin-1')[-600:]))
        return
    if r.rc not in TOOL_OK:
        out.violate('exit-status-undocumented:%s:%s' % (tool, r.rc), tag)
        return
    why = strict_reject_reason(bytes(buf))
    out.sets['tool_statuses'].add('%s:%s' % (tool, r.rc))
    if why and (why == 'bad magic' or 'past EOF' in why or 'truncated' in why) and r.rc == 0:
        cls = 'bad-magic' if why == 'bad magic' else 'truncated'
        out.violate('malformed-accepted:%s:%s' % (tool, cls), '%s: %s but %s exits 0' % (tag, why, tool))
        return
    out.sigs.add(tag)


def case_f(ctx, member):
    out = ctx.out
    _, i = member
    rng = random.Random(77 * i + 5)
    cpu = DASL_CPUS[i % len(DASL_CPUS)]
    n = rng.randrange(1, 600)
    blob = bytes(rng.randrange(256) for _ in range(n))
    base = rng.choice([0, 0x100, 0x8000, 0xff00, 0xfff0])
    args = ['-cpu', cpu]
    if i % 4 == 3:
        # corrupted Intel hex
        lines = []
        for o in range(0, len(blob), 16):
            chunk = blob[o:o + 16]
            rec = bytes([len(chunk), ((base + o) >> 8) & 255, (base + o) & 255, 0]) + chunk
            rec += bytes([(-sum(rec)) & 255])
            lines.append(':' + rec.hex().upper())
        lines.append(':00000001FF')
        text = '\n'.join(lines) + '\n'
        tb = bytearray(text.encode())
        for _ in range(rng.randrange(0, 6)):
            tb[rng.randrange(len(tb))] = rng.randrange(256)
        ctx.write('in.hex', bytes(tb))
        args += ['-hexfile', 'in.hex']
    else:
        ctx.write('in.bin', blob)
        args += ['-binfile', 'in.bin@%d' % base]
    for _ in range(rng.randrange(0, 4)):
        args += ['-entryaddress', str(rng.choice([base, base + 1, base + n - 1, base + n, 0, 0xffff, base + rng.randrange(n)]))]
    r = ctx.run('dasl', args, timeout=12)
    out.obs['tool_runs'] += 1
    out.sets['tools'].add('dasl')
    tag = 'F:%d' % i
    if r.timed_out:
        out.violate('hang:dasl', 'dasl %s: no exit within 12 s and 60 s (%s)' % (' '.join(args), tag))
        return
    if r.san:
        out.violate(r.san, 'dasl %s: %s' % (' '.join(args), r.err.decode('latin-1')[-600:]))
        return
    if r.rc not in (0, 1, 2, 3, 4):
        out.violate('exit-status-undocumented:dasl:%s' % r.rc, 'dasl %s' % ' '.join(args))
        return
    out.sets['tool_statuses'].add('dasl:%s' % r.rc)
    out.sigs.add(tag)


def run_case(case, ctx):
    out = ctx.out
    k = case['pool']
    out.sample = {'pool': k, 'first_member': case['members'][0]}
    for member in case['members']:
        member = tuple(member)
        if k == 'A':
            case_a(ctx, member)
        elif k == 'B':
            _, cpu, name, nargs, i, j = member
            for variant in (0, 3, 4):
                text = b_source(cpu, name, nargs, i, j, variant)
                claim = not big_count(text) and name not in ('WHILE', 'READ', 'INCLUDE') and not (name == 'REPT' and nargs and V1[i] not in ('0', '1', '-1', '2', '255', '256') if nargs == 1 else name == 'REPT')
                case_small(ctx, member, text, 'B:%s:%s:%d:%d:%d:v%d' % (cpu, name, nargs, i, j, variant), claim=claim)
            out.sets['pseudo_ops'].add(name)
        elif k == 'C':
            _, cpu, t, c = member
            body = C_TEMPLATES[t]
            cval = C_COUNTS[c] if c >= 0 else ''
            text = '\tcpu\t%s\n' % cpu + (body.format(c=cval, L=LONG_TOKEN) if c >= 0 else body.replace('{{', '{').replace('}}', '}').replace('{L}', LONG_TOKEN))
            if cpu == '68000':
                text = text.replace('\tbyt\t', '\tdc.b\t').replace('\tdfs\t', '\tds.b\t')
            claim = not big_count(cval)
            case_small(ctx, member, text, 'C:%s:%d:%d' % (cpu, t, c), claim=claim)
            # ... and once more with every report that walks the collected data (listing, used areas, cross reference, debug info, sharefile)
            case_small(ctx, member, text, 'C:%s:%d:%d:reports' % (cpu, t, c), claim=claim, opts=['-L', '-u', '-C', '-s', '-I', '-g', 'MAP', '-x'])
            out.sets['construct_templates'].add(t)
        elif k == 'D':
            _, i = member
            text = soup(i)
            case_small(ctx, member, text, 'D:%d' % i, claim=not NO_TERM_RE.search(text.decode('latin-1')))
        elif k == 'E':
            case_e(ctx, member)
        elif k == 'F':
            case_f(ctx, member)
        elif k == 'G':
            case_g(ctx, member)
        elif k == 'H':
            case_h(ctx, member)
        elif k == 'I':
            case_i(ctx, member)
        elif k == 'J':
            case_j(ctx, member)
        out.sets['pools'].add(k)
    out.nontrivial = True
