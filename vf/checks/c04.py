"""C04 — the code file contains exactly the program's bytes at the program's addresses.

Two monitors per execution:
 (i)  model: programs are generated from an abstract description (CPU / SEGMENT /
      ORG / data / reservation / END); the expected ordered list of contiguous
      runs of address units is computed from that description and compared with
      the runs read from the code file by the independent reader;
 (ii) conservation over the emission event log (hook H3): bytes traced at
      WriteBytes == bytes found in the file, same order, same addresses; the
      length field of every record == bytes traced between two record events.
(ii) needs no model and also runs over the golden corpus.
"""
import os

from .. import asl, corpus, pfile

ID = 'C04'
LEVEL = 'exploration'
RULE = ('generated programs over 7 targets (granularity 1/2/4) with run lengths straddling the 512-byte buffer and '
        '64 KiB record limits, plus every golden program; a case is non-trivial if the code file holds >=1 data record; '
        'distinct = distinct (target set, record-count class, longest-run class, segment set) for generated and program name for corpus')
ASSUMPTIONS = ['byte order inside one address unit of a word-granular target is a per-target constant (big-endian for DSP56000, little-endian otherwise)',
               'family header bytes as tabulated in doc/file-formats.md']

MANIFEST = dict(
    category='exploration', design_ref='DESIGN.md §4 C04',
    technique='reference-model monitor + offline conservation checker over the recorded emission event log (hook H3) against the code file read by an independent parser',
    text='Held on the executions of this run: generated CPU/SEGMENT/ORG/data/reservation/END programs on 7 targets (granularity 1, 2, 4; run lengths around the 512 B '
         'buffer and 64 KiB record limits, up to ~200 KiB) are compared run-by-run with the code file (independent strict reader); for these and for all golden programs '
         'every byte traced at emission must appear exactly once, in order, at its address in the file, and every record length field must equal the bytes traced for that record.',
    note='Trusts vf/pfile.py (written from doc/file-formats.md), the family header table of the manual, and a per-target constant for byte order inside an address unit. '
         'The conservation half trusts hook H3 (trace written next to the fwrite path, not a second code path).')

# name -> (header id, granularity of CODE, data statement, values per statement max, unit bits, big-endian units, reserve statement, code address limit in units)
TARGETS = {
    '6502':   (0x11, 1, 'byt', 60, 8, False, 'dfs', 0x10000),
    'z80':    (0x51, 1, 'db', 60, 8, False, 'ds', 0x10000),
    '8051':   (0x31, 1, 'db', 60, 8, False, 'ds', 0x10000),
    '16c84':  (0x70, 2, 'data', 40, 14, False, 'res', 0x400),
    '320c25': (0x75, 2, 'word', 40, 16, False, 'bss', 0x10000),
    '56000':  (0x09, 4, 'dc', 1, 24, True, 'ds', 0x10000),
    '320c30': (0x76, 4, 'word', 30, 32, False, 'bss', 0x1000000),
    # byte-granular targets whose data words are two bytes, most significant byte first (the assembler swaps the bytes of its internal words
    # on output): the model expands every value into its two address units
    'h8/300': (0x68, 1, 'dc.w', 40, 16, True, 'ds.b', 0x10000),
    '68000':  (0x01, 1, 'dc.w', 40, 16, True, 'ds.b', 0x10000),
}
WIDE = {'h8/300': 2, '68000': 2}
# extra segments in which only ORG and reservations are generated: cpu -> [(name, seg number)]
EXTRA_SEGS = {
    '8051': [('xdata', 4), ('data', 2), ('idata', 3)],
    '16c84': [('data', 2)],
    '56000': [('xdata', 4), ('ydata', 5)],
    '320c25': [('data', 2)],
}
DATA_IN_SEG = {('56000', 'xdata'), ('56000', 'ydata')}
LENGTHS = [1, 2, 3, 255, 256, 257, 510, 511, 512, 513, 514, 1022, 1023, 1024, 1025, 1026]
BIG = [65533, 65534, 65535, 65536, 65537, 131071, 131072, 131073]


def plan(tier, seed):
    n = 300 if tier == 'quick' else 5000
    cases = [{'gen': i} for i in range(n)]
    cases += [{'prog': p} for p in corpus.names()]
    return cases


# ---------------------------------------------------------------------------

def gen_program(rng, big_ok=True):
    """returns (source text, expected list of runs [(hdr, seg, gran, start_unit, [unit values])], entry or None, targets used)"""
    lines = []
    runs = []
    used = []
    entry = None
    extras = {}

    def add_run(hdr_, seg_, g_, addr_, vals_):
        if runs and runs[-1][0] == hdr_ and runs[-1][1] == seg_ and runs[-1][2] == g_ and runs[-1][3] + len(runs[-1][4]) == addr_:
            runs[-1][4].extend(vals_)
        else:
            runs.append([hdr_, seg_, g_, addr_, list(vals_)])
    nblocks = rng.randrange(1, 5)
    budget_bytes = 220_000
    flags = []
    for bi in range(nblocks):
        cpu = rng.choice(sorted(TARGETS))
        hdr, gran, dstat, maxv, bits, be, rstat, limit = TARGETS[cpu]
        used.append(cpu)
        if bi == 0 and rng.random() < 0.3:
            # target given on the command line: the source starts in the CODE segment of that target without any CPU/SEGMENT statement
            flags = ['-cpu', cpu]
        else:
            lines.append('\tcpu\t%s' % cpu)
            lines.append('\tsegment\tcode')
        seg = 1
        segname = 'code'
        pc = {}          # segname -> current address (units)
        addr = rng.choice([0, 1, 16, 100, limit // 2, limit // 4])
        wide = WIDE.get(cpu, 0)
        if wide:
            addr &= ~1          # (word data on an odd address would be padded: kept even, this check is not about padding)
        lines.append('\torg\t%d' % addr)
        cur = None       # current open run
        nops = rng.randrange(2, 14)
        for _ in range(nops):
            k = rng.randrange(13)
            can_emit = (segname == 'code') or ((cpu, segname) in DATA_IN_SEG)
            if k <= 5 and can_emit:
                # data run of a chosen byte length
                if big_ok and rng.random() < 0.12 and budget_bytes > 140_000:
                    nbytes = rng.choice(BIG)
                elif rng.random() < 0.6:
                    nbytes = rng.choice(LENGTHS)
                else:
                    nbytes = rng.randrange(1, 3000)
                nunits = max(1, nbytes // gran)
                if wide:
                    nunits = max(2, nunits & ~1)
                if addr + nunits > limit:
                    nunits = max(0, limit - addr)
                if nunits == 0 or nunits * gran > budget_bytes:
                    continue
                budget_bytes -= nunits * gran
                vals = []
                style = rng.randrange(3)
                remaining = nunits // wide if wide else nunits
                while remaining > 0:
                    if dstat in ('db',) and style == 0 and remaining >= 4:
                        # Intel DUP
                        cnt = min(remaining, rng.choice([remaining, 1000, 1024, 1025, 600]))
                        cnt = min(cnt, 1024)
                        v = rng.randrange(1 << bits)
                        lines.append('\t%s\t%d dup (%d)' % (dstat, cnt, v))
                        vals += [v] * cnt
                        remaining -= cnt
                    else:
                        cnt = min(remaining, rng.randrange(1, maxv + 1) if style != 1 else maxv)
                        vs = [rng.randrange(1 << bits) for _ in range(cnt)]
                        lines.append('\t%s\t%s' % (dstat, ','.join(str(v) for v in vs)))
                        vals += vs
                        remaining -= cnt
                if wide:
                    vals = [b for v in vals for b in v.to_bytes(wide, 'big')]
                g = gran_of(cpu, segname)
                if runs and runs[-1][0] == hdr and runs[-1][1] == seg and runs[-1][2] == g and runs[-1][3] + len(runs[-1][4]) == addr:
                    runs[-1][4].extend(vals)
                else:
                    runs.append([hdr, seg, g, addr, list(vals)])
                addr += nunits
            elif k == 6:
                n = rng.choice([1, 2, 7, 512, 513])
                if wide:
                    n += n & 1
                if addr + n > limit:
                    continue
                if segname == 'code' or (cpu, segname) in DATA_IN_SEG or True:
                    lines.append('\t%s\t%d' % (rstat, n))
                    addr += n
                    cur = None
            elif k == 7:
                lo = 0
                addr = rng.randrange(lo, max(1, limit - 70000)) if limit > 80000 else rng.randrange(0, limit // 2)
                if wide:
                    addr &= ~1
                lines.append('\torg\t%d' % addr)
                cur = None
            elif k == 8 and cpu in EXTRA_SEGS:
                pc[segname] = addr
                choices = [('code', 1)] + EXTRA_SEGS[cpu]
                segname, seg = rng.choice(choices)
                lines.append('\tsegment\t%s' % segname)
                addr = pc.get(segname, 0)
                if segname != 'code':
                    limit_s = 0x80 if cpu in ('8051', '16c84') and segname in ('data', 'idata') else 0x1000
                    addr = rng.randrange(0, limit_s // 2)
                    lines.append('\torg\t%d' % addr)
                    limit = limit_s
                else:
                    limit = TARGETS[cpu][7]
                    if addr >= limit - 10:
                        addr = 0
                        lines.append('\torg\t%d' % addr)
                    elif rng.random() < 0.3:
                        lines.append('\torg\t%d' % addr)
                    # else: no ORG - every segment keeps its own counter, CODE continues where it was left
                cur = None
            elif k == 10 and can_emit and gran == 1 and not wide and cpu != '56000':
                # BINCLUDE: the bytes of a file (or of the part selected by offset and length), stored from the current address on
                if big_ok and rng.random() < 0.15 and budget_bytes > 140_000:
                    flen = rng.choice(BIG[:5]) + rng.choice([0, 0, 4464, 5000])
                else:
                    flen = rng.choice(LENGTHS + [100, 3000])
                fname = 'inc%d.bin' % len(extras)
                blob = bytes(rng.randrange(256) for _ in range(min(flen, 997))) * (flen // min(flen, 997) + 1)
                blob = blob[:flen]
                form = rng.randrange(3)
                off = rng.choice([0, 1, 255, 256, 257, flen // 2]) if form else 0
                off = min(off, flen - 1)
                ln = rng.choice([1, 256, 257, flen - off]) if form == 2 else flen - off
                ln = max(1, min(ln, flen - off))
                if rng.random() < 0.2 and ln <= limit:
                    # the included bytes end exactly at the last address of the segment
                    addr = limit - ln
                    lines.append('\torg\t%d' % addr)
                if addr + ln > limit or ln > budget_bytes:
                    continue
                budget_bytes -= ln
                extras[fname] = blob
                lines.append('\tbinclude\t"%s"%s' % (fname, '' if form == 0 else (',%d' % off) if form == 1 else ',%d,%d' % (off, ln)))
                add_run(hdr, seg, 1, addr, list(blob[off:off + ln]))
                addr += ln
            elif k == 11 and segname == 'code' and not wide and gran_of(cpu, 'code') == gran:
                # SAVE / CPU <other> / ... / RESTORE: the processor comes back, the program counter is not part of what is saved:
                # what follows goes on at the current address, as data of the restored processor
                other = rng.choice([c for c in sorted(TARGETS) if c != cpu and c not in WIDE and c != '56000'])
                ohdr, ogran, odstat, omaxv, obits, obe, orstat, olimit = TARGETS[other]
                a2 = rng.choice([0x100, 0x300, 0x200 + rng.randrange(64)])
                cnt = rng.randrange(1, min(omaxv, 8) + 1)
                if a2 + cnt + 16 >= min(limit, olimit):
                    continue
                vs = [rng.randrange(1 << obits) for _ in range(cnt)]
                lines += ['\tsave', '\tcpu\t%s' % other, '\torg\t%d' % a2, '\t%s\t%s' % (odstat, ','.join(str(v) for v in vs)), '\trestore']
                add_run(ohdr, 1, ogran, a2, vs)
                used.append(other)
                addr = a2 + cnt
                cnt = rng.randrange(1, min(maxv, 8) + 1)
                vs = [rng.randrange(1 << bits) for _ in range(cnt)]
                lines.append('\t%s\t%s' % (dstat, ','.join(str(v) for v in vs)))
                add_run(hdr, seg, gran, addr, vs)
                addr += cnt
            elif k == 12 and cpu == '68000' and segname == 'code' and addr + 8 < limit:
                # an odd number of bytes, then 'DS.W 0' (documented: align to the next even address), then data again
                nb = rng.choice([1, 3, 5])
                vs = [rng.randrange(256) for _ in range(nb)]
                lines.append('\tdc.b\t%s' % ','.join(str(v) for v in vs))
                add_run(hdr, seg, 1, addr, vs)
                addr += nb
                al = rng.choice([('ds.w', 2), ('ds.l', 4), ('ds.w', 2)])
                lines.append('\t%s\t0' % al[0])
                addr = (addr + al[1] - 1) & ~(al[1] - 1)
            else:
                pass
    if rng.random() < 0.5:
        entry = rng.randrange(0, 0x400)
        lines.append('\tend\t%d' % entry)
    elif rng.random() < 0.5:
        lines.append('\tend')
    if lines[-1].startswith('\tend') and rng.random() < 0.5:
        # "END ... lines that follow are ignored": nothing of this may reach the code file
        dstat_ = TARGETS[used[-1]][2]
        for _ in range(rng.randrange(1, 4)):
            lines.append(rng.choice(['\t%s\t1' % dstat_, '\torg\t%d' % rng.randrange(0, 512), '\tend\t%d' % rng.randrange(1, 512), '\tbogus statement',
                                     '\tcpu\t6502', 'lab_after_end:']))
    src = '\n'.join(lines) + '\n'
    exp = [(r[0], r[1], r[2], r[3], r[4]) for r in runs if r[4]]
    return src, exp, entry, used, flags, extras


def gran_of(cpu, segname):
    if segname == 'code':
        return TARGETS[cpu][1]
    if cpu == '56000':
        return 4
    return 1


def units_from_bytes(data, gran, be):
    out = []
    for i in range(0, len(data), gran):
        out.append(int.from_bytes(data[i:i + gran], 'big' if be else 'little'))
    return out


BE_HDRS = {0x09}


def file_runs(recs):
    """ordered maximal contiguous runs of units from the file: [(hdr, seg, gran, start, [units])]"""
    runs = []
    for r in recs:
        if r.kind != 'data' or not r.data:
            continue
        units = units_from_bytes(r.data, r.gran, r.cpu in BE_HDRS)
        if runs and runs[-1][0] == r.cpu and runs[-1][1] == r.seg and runs[-1][2] == r.gran and runs[-1][3] + len(runs[-1][4]) == r.start:
            runs[-1][4].extend(units)
        else:
            runs.append([r.cpu, r.seg, r.gran, r.start, units])
    return [tuple(x) for x in runs]


def check_wellformed(out, buf, tag):
    try:
        recs = pfile.parse(buf, strict=True)
    except pfile.FormatError as e:
        out.violate('malformed-code-file', '%s: strict reader rejects the code file: %s' % (tag, e))
        return None
    kinds = [r.kind for r in recs]
    if kinds[-1] != 'creator':
        out.violate('malformed-code-file', '%s: last record is not the creator record' % tag)
    if kinds.count('entry') > 1:
        out.violate('malformed-code-file', '%s: more than one entry record' % tag)
    for r in recs:
        if r.kind == 'data':
            out.obs['records_read'] += 1
            out.sets['record_headers'].add('%02x/seg%d/gran%d' % (r.cpu, r.seg, r.gran))
            if len(r.data) == 0:
                out.obs['empty_records'] += 1
    return recs


def conservation(out, trace, recs, tag):
    """event log (final pass) against the file"""
    last = 0
    for e in trace:
        if e['k'] == 'P':
            last = max(last, int(e['pass']))
    ev = [e for e in trace if e['k'] in ('E', 'N', 'T') and int(e['pass']) == last]
    cur = 0
    rec_lens = []
    chunks = []        # ordered (hdr, seg, gran, byteaddr, bytes)
    for e in ev:
        if e['k'] == 'E':
            n = int(e['len'])
            data = bytes.fromhex(e['hex'])
            if len(data) != n:
                out.inconc('harness: trace chunk length mismatch')
                return
            cur += n
            gran = int(e['gran'])
            chunks.append([int(e['hdr'], 16), int(e['seg']), gran, int(e['addr'], 16) * gran, bytearray(data)])
            out.obs['trace_chunks'] += 1
            out.obs['trace_bytes'] += n
        elif e['k'] == 'T':
            n = int(e['bytes'])
            cur -= n
            # retraction removes the most recently written bytes
            while n > 0 and chunks:
                take = min(n, len(chunks[-1][4]))
                del chunks[-1][4][len(chunks[-1][4]) - take:]
                n -= take
                if not chunks[-1][4]:
                    chunks.pop()
            out.obs['retractions'] += 1
        else:
            ls = int(e['lensofar'])
            if ls != cur:
                out.violate('record-length-bookkeeping',
                            '%s: at a record boundary the assembler believes %d bytes are in the record, %d were traced' % (tag, ls, cur))
            if ls:
                rec_lens.append(ls)
            cur = 0
    file_lens = [len(r.data) for r in recs if r.kind == 'data' and len(r.data)]
    if file_lens != rec_lens:
        out.violate('record-lengths-differ', '%s: record lengths in file %s != lengths traced %s' % (tag, file_lens[:12], rec_lens[:12]))
    # merge both sides into maximal runs of consecutive contiguous chunks
    def merge(items):
        res = []
        for h, s, g, a, d in items:
            if not d:
                continue
            if res and res[-1][0] == h and res[-1][1] == s and res[-1][2] == g and res[-1][3] + len(res[-1][4]) == a:
                res[-1][4] += d
            else:
                res.append([h, s, g, a, bytearray(d)])
        return [(h, s, g, a, bytes(d)) for h, s, g, a, d in res]
    tr = merge(chunks)
    fl = merge([(r.cpu, r.seg, r.gran, r.start * r.gran, r.data) for r in recs if r.kind == 'data'])
    if tr != fl:
        msg = '%s: bytes emitted (trace) differ from bytes in the code file: ' % tag
        if len(tr) != len(fl):
            msg += '%d runs traced, %d runs in file; ' % (len(tr), len(fl))
        for i, (a, b) in enumerate(zip(tr, fl)):
            if a != b:
                msg += 'first difference in run %d: traced hdr=%02x seg=%d addr=%x len=%d, file hdr=%02x seg=%d addr=%x len=%d' % (
                    i, a[0], a[1], a[3], len(a[4]), b[0], b[1], b[3], len(b[4]))
                if a[:4] == b[:4]:
                    for j, (x, y) in enumerate(zip(a[4], b[4])):
                        if x != y:
                            msg += ' byte offset %d traced %02x file %02x' % (j, x, y)
                            break
                break
        out.violate('emitted-bytes-not-conserved', msg)
    out.obs['conservation_checks'] += 1
    out.obs['bytes_compared'] += sum(len(x[4]) for x in fl)


def run_case(case, ctx):
    out = ctx.out
    if 'prog' in case:
        prog = corpus.Prog(case['prog'])
        prog.stage(ctx.dir)
        a = asl.assemble(ctx, prog.name + '.asm', list(prog.flags) + ['-i', corpus.include_dir()], trace=True)
        out.sample = {'corpus': prog.name}
        tag = prog.name
        if a.run.timed_out:
            out.inconc('timeout')
            return
        if a.run.san:
            out.violate(a.run.san, '%s: %s' % (tag, a.run.err.decode('latin-1')[-800:]))
            return
        if a.rc != 0 or a.p is None:
            out.violate('corpus-program-fails:' + tag, 'rc=%s %s' % (a.rc, a.run.text()[-300:]))
            return
        recs = check_wellformed(out, a.p, tag)
        if recs is None:
            return
        conservation(out, a.trace, recs, tag)
        out.nontrivial = any(r.kind == 'data' and r.data for r in recs)
        out.sig = ('corpus', tag)
        return
    rng = ctx.rng
    src, exp, entry, used, gflags, extras = gen_program(rng)
    ctx.write('g.asm', src)
    for fn, blob in extras.items():
        ctx.write(fn, blob)
    out.obs['binclude_files'] += len(extras)
    out.obs['save_restore_brackets'] += src.count('\trestore')
    out.obs['align_by_ds0'] += src.count('\t0\n')
    a = asl.assemble(ctx, 'g.asm', gflags, trace=True, timeout=120)
    tag = 'generated #%d' % ctx.idx
    out.sample = {'generated': ctx.idx, 'targets': used, 'flags': gflags, 'expected_runs': [(h, s, g, st, len(v)) for h, s, g, st, v in exp][:8],
                  'source_head': src.split('\n')[:12]}
    if a.run.timed_out:
        out.inconc('timeout')
        return
    if a.run.san:
        out.violate(a.run.san, '%s: %s' % (tag, a.run.err.decode('latin-1')[-800:]))
        return
    if a.rc != 0 or a.p is None:
        out.violate('valid-program-rejected', '%s: rc=%s %s' % (tag, a.rc, a.run.text()[-400:]))
        return
    recs = check_wellformed(out, a.p, tag)
    if recs is None:
        return
    conservation(out, a.trace, recs, tag)
    got = file_runs(recs)
    expt = [(h, s, g, st, list(v)) for h, s, g, st, v in exp]
    gott = [(h, s, g, st, list(v)) for h, s, g, st, v in got]
    if expt != gott:
        msg = '%s: code file differs from the program: ' % tag
        if len(expt) != len(gott):
            msg += 'expected %d runs %s, file has %d runs %s; ' % (len(expt), [(hex(h), s, st, len(v)) for h, s, g, st, v in expt][:6],
                                                                 len(gott), [(hex(h), s, st, len(v)) for h, s, g, st, v in gott][:6])
        for i, (x, y) in enumerate(zip(expt, gott)):
            if x != y:
                msg += 'run %d expected hdr=%02x seg=%d gran=%d start=%x n=%d, file hdr=%02x seg=%d gran=%d start=%x n=%d' % (
                    i, x[0], x[1], x[2], x[3], len(x[4]), y[0], y[1], y[2], y[3], len(y[4]))
                if x[:4] == y[:4]:
                    for j, (p, q) in enumerate(zip(x[4], y[4])):
                        if p != q:
                            msg += '; unit %d expected %x file %x' % (j, p, q)
                            break
                break
        out.violate('image-differs-from-program', msg)
    ents = [r.entry for r in recs if r.kind == 'entry']
    if entry is None and ents:
        out.violate('spurious-entry-record', '%s: entry record %s without END address' % (tag, ents))
    if entry is not None and ents != [entry]:
        out.violate('entry-record-wrong', '%s: END %d but entry records %s' % (tag, entry, ents))
    out.obs['model_checks'] += 1
    out.obs['units_compared'] += sum(len(v) for _, _, _, _, v in expt)
    longest = max([len(v) * g for _, _, g, _, v in expt] or [0])
    cls = 0 if longest < 512 else 1 if longest < 65536 else 2
    out.nontrivial = bool(expt)
    out.sig = ('gen', tuple(sorted(set(used))), min(len(expt), 6), cls, tuple(sorted(set(s for _, s, _, _, _ in expt))))
    out.sets['targets'].update(used)
    out.sets['longest_run_class'].add(['<512', '<64K', '>=64K'][cls])
