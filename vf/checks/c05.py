"""C05 -- P2BIN writes the memory image described by the code file.

Every case is one execution of the real p2bin on 1..3 code files written with
vf/pfile.py (never through asl) under a random option set; the produced binary,
the exit status and the overlap warning are judged by vf/model/p2bin.py, a
reference model written from doc/utility-programs.md.  Bytes the manual does
not define are 'unspecified' in the model and are not compared.

A disagreement is reduced (options, files, records dropped one at a time as long
as the same symptom stays) before it is keyed, so that the key names the
features that are needed to see the failure and the kind of failure, never the
random input.
"""
import copy
import os

from .. import pfile
from ..model import p2bin as M

ID = 'C05'
LEVEL = 'exploration'
RULE = ('case = one p2bin execution over 1..3 pfile-written code files (1..11 selected records laid out as shuffled tiles with gaps / exact adjacency / '
        'overlaps / nesting, plus records of other segments and families; granularity 1/2/4; record sizes around 1, 4096 and 65535 bytes; (offset) suffixes) '
        'under a random option set (-r explicit/$/0x per side, -l, -m, -S, -e, -s, -f, -segment, -q, P2BINCMD, single-name form, four number notations); '
        'non-trivial = the model defines the image and at least one selected record lies in the window; '
        'distinct = distinct (granularity, segment class, -m mode, range form, header form, -e/-s/-f/-l presence, #files, offset use, '
        'layout relations: gap/adjacent/overlap/clip-left/clip-right/big record)')
ASSUMPTIONS = [
    'byte address of a record byte = (record start + file offset) * granularity + index; -m selects on that byte address',
    'automatic range bounds are taken over the records selected by -f/-segment',
    'families written as short records ($01..$7f headers): granularity 1 for $01/$11/$31/$51/$61, 2 for $70/$75, 4 for $09/$76',
    'overlap warning text contains "overlapping" (English catalogue, LANG=C)',
]
MANIFEST = dict(
    category='exploration', design_ref='DESIGN.md §4 C05',
    technique='runtime monitor: reference model of the documented P2BIN semantics (window, granularity, fill, byte lanes, entry header, checksum, filters, offsets, '
              'overlap warning) judging executions of the real binary on generated code files; disagreements delta-reduced to a feature-named key',
    text='Held on the executions of this run: for generated code files (several records with gaps, exact adjacency, overlaps, nesting, records straddling the window, '
         'granularity 1/2/4, several segments and families, (offset) suffixes, 1..3 inputs) and option sets over -r (explicit/automatic per side), -l, -m, -S, -e, -s, -f, '
         '-segment, every output byte the manual defines equals the model, the file length equals the selected range, -s makes the byte sum zero, status is 0, '
         'and the overlap warning appears exactly when two selected records share an address.',
    note='Bytes the manual leaves open are not compared: records disagreeing on an overlapped byte, windows not aligned to the -m lane period, header content without '
         'a known entry address, checksum byte when a non-zero-sum header is present (either reading accepted), overlap warning when the common addresses lie '
         'outside the window or off the selected lane, mixed granularities, empty selections. Trusts vf/pfile.py as the writer of well-formed code files.')
REGISTERED = True

WARN_TEXT = b'overlapping'

# family -> granularity in the CODE segment (doc/file-formats.md table + the targets C04 checks)
FAM_GRAN = {0x01: 1, 0x11: 1, 0x31: 1, 0x51: 1, 0x61: 1, 0x70: 2, 0x75: 2, 0x09: 4, 0x76: 4}
FAMS = {1: [0x51, 0x11, 0x31, 0x61, 0x01], 2: [0x70, 0x75], 4: [0x09, 0x76]}
OTHER_FAMS = [0x41, 0x62, 0x63, 0x21, 0x79, 0x4a, 0x3b, 0x72, 0x74]
SEGS = {1: 'CODE', 2: 'DATA', 3: 'IDATA', 4: 'XDATA', 5: 'YDATA', 6: 'BITDATA', 7: 'IO', 8: 'REG', 9: 'ROMDATA'}
MODES = ['EVEN', 'ODD', 'BYTE0', 'BYTE1', 'BYTE2', 'BYTE3', 'WORD0', 'WORD1']
MAX_WINDOW_BYTES = 300_000


def plan(tier, seed):
    n = 1500 if tier == 'quick' else 40000
    return [{'n': i} for i in range(n)]


# ---------------------------------------------------------------------------
# generator

def num(rng, v):
    """a number in one of the four documented notations (doc/utility-programs.md, introduction)"""
    k = rng.randrange(4)
    hx = ('%x' if rng.random() < 0.7 else '%X') % v
    if k == 0:
        return str(v), 'dec'
    if k == 1:
        return '$' + hx, '$'
    if k == 2:
        return '0x' + hx, '0x'
    return ('' if hx[0].isdigit() else '0') + hx + 'h', 'h'


def rcase(rng, s):
    k = rng.randrange(3)
    return s.upper() if k == 0 else s.lower() if k == 1 else s


def pick_units(rng, g):
    k = rng.random()
    if k < 0.80:
        return rng.randrange(1, 25)
    if k < 0.90:
        return rng.randrange(100, 700)
    if k < 0.98:
        return max(1, rng.choice([4096, 8192]) // g + rng.choice([-1, 0, 1, 2]))
    return 65535 // g - rng.choice([0, 0, 1])


def gen_spec(rng):
    g = rng.choice([1] * 6 + [2] * 3 + [4] * 2)
    seg = rng.choice([1] * 7 + [2, 4, 5, 7, 9])
    sel_fams = [rng.choice(FAMS[g])]
    if rng.random() < 0.25:
        f2 = rng.choice(FAMS[g])
        if f2 not in sel_fams:
            sel_fams.append(f2)
    use_f = rng.random() < 0.30
    mode = rng.choice(['ALL'] * 5 + MODES) if rng.random() < 0.75 else rng.choice(MODES)
    period = M.LANES[mode][0]
    pu = max(1, period // g)                 # lane period in address units
    aligned = period == 1 or rng.random() < 0.93

    # ---- layout of the selected records (absolute addresses in units)
    base = rng.choice([0, 0, 0, 1, 3, 0x10, 0x100, 0x1000, 0x7ff0, 0x8000, 0xfff0, 0x10000, 0x123456, 0xffff00,
                       0x7fffff00, 0x80000000, 0xa0000000, 0xfff00000])
    base -= base % 4
    if not aligned or rng.random() < 0.2:
        base += rng.randrange(0, 4)
    if aligned:
        base -= base % pu
    nrec = rng.choice([1, 1, 2, 2, 3, 3, 4, 4, 5, 6, 7, 9])
    recs = []                                # [start, units]
    budget = MAX_WINDOW_BYTES // 2
    if rng.random() < 0.7:
        pos = base
        for _ in range(nrec):
            u = pick_units(rng, g)
            if u * g > budget:
                u = rng.randrange(1, 25)
            budget -= u * g
            if recs and rng.random() < 0.3:
                gap = rng.choice([1, 1, 2, 3, rng.randrange(1, 40)])
                pos += gap
                budget -= gap * g
            recs.append([pos, u])
            pos += u
    else:
        span = rng.choice([30, 60, 200, 3000])
        for _ in range(nrec):
            u = pick_units(rng, g)
            if u * g > budget:
                u = rng.randrange(1, 25)
            budget -= u * g
            recs.append([base + rng.randrange(0, span), u])
    # extras that overlap on purpose: start on an existing boundary or inside an existing record
    nextra = rng.choice([0, 0, 0, 0, 1, 1, 2])
    tiles = list(recs)
    for _ in range(nextra):
        t = rng.choice(tiles)
        k = rng.randrange(6)
        u = rng.choice([1, 1, 2, 3, rng.randrange(1, 30)])
        if k == 0:
            st = t[0]                                   # same start
        elif k == 1:
            st = t[0] + t[1] - 1                        # overlaps the last unit and continues
        elif k == 2:
            st = t[0] + rng.randrange(0, t[1])          # inside
            u = min(u, t[0] + t[1] - st)                # nested
        elif k == 3:
            st = max(0, t[0] - u + 1)                   # ends on the first unit
        elif k == 4:
            st = t[0] + t[1]                            # starts exactly behind t (overlaps only if something follows)
        else:
            st = t[0] + rng.randrange(0, t[1])
        recs.append([st, max(1, u)])
    hi_lim = 0xffffffff
    recs = [r for r in recs if r[0] + r[1] - 1 <= hi_lim and r[1] * g <= 65535]
    if not recs:
        recs = [[base, 4]]
    if aligned and pu > 1:
        # make lowest start and highest end fall on the lane period so that automatic bounds are aligned
        lo_r = min(recs, key=lambda r: r[0])
        d = lo_r[0] % pu
        if d and (lo_r[1] + d) * g <= 65535:
            lo_r[0] -= d
            lo_r[1] += d
        hi_r = max(recs, key=lambda r: r[0] + r[1])
        d = (-(hi_r[0] + hi_r[1])) % pu
        if d and (hi_r[1] + d) * g <= 65535 and hi_r[0] + hi_r[1] + d - 1 <= hi_lim:
            hi_r[1] += d
    lo = min(r[0] for r in recs)
    hi = max(r[0] + r[1] - 1 for r in recs)
    order = list(range(len(recs)))
    rng.shuffle(order)

    # ---- content: overlapped bytes agree in about half of the cases (then the model defines them)
    agree = rng.random() < 0.5
    backing = rng.randbytes((hi - lo + 1) * g)
    datas = []
    for st, u in recs:
        if agree:
            datas.append(backing[(st - lo) * g:(st - lo + u) * g])
        else:
            datas.append(rng.randbytes(u * g))

    # ---- files, offsets
    nfiles = rng.choice([1] * 5 + [2] * 3 + [3])
    files = [{'name': 'f%d' % i, 'ext': rng.random() < 0.8, 'off': None, 'recs': []} for i in range(nfiles)]
    assign = [rng.randrange(nfiles) for _ in recs]
    for fi, f in enumerate(files):
        mine = [recs[i][0] for i in range(len(recs)) if assign[i] == fi]
        if rng.random() < 0.35:
            mn = min(mine) if mine else 0x1000
            off = min(mn, rng.choice([1, 2, 0x10, 0x100, 0x1000, 0x8000, mn, rng.randrange(0, mn + 1)]))
            txt, nota = num(rng, off)
            f['off'] = [txt, off, nota]
    for i in order:
        f = files[assign[i]]
        off = f['off'][1] if f['off'] else 0
        cpu = rng.choice(sel_fams)
        short = seg == 1 and rng.random() < 0.6          # short records exist for CODE only
        f['recs'].append(['d', cpu, seg, g, recs[i][0] - off, datas[i].hex(), short])
    # distractors: other segment, or (with -f) other family in the same segment
    for _ in range(rng.choice([0, 0, 1, 1, 2, 3])):
        f = rng.choice(files)
        off = f['off'][1] if f['off'] else 0
        if use_f and rng.random() < 0.5:
            cpu = rng.choice([c for c in OTHER_FAMS + list(FAM_GRAN) if c not in sel_fams])
            dseg = seg
        else:
            cpu = rng.choice(sel_fams + OTHER_FAMS)
            dseg = rng.choice([s for s in SEGS if s != seg])
        dg = rng.choice([1, 1, 2, 4])
        if dseg == 1 and cpu in FAM_GRAN:
            dg = FAM_GRAN[cpu]
        du = rng.randrange(1, 30)
        dst = max(off, min(0xffffffff - du, lo + rng.randrange(-40, (hi - lo) % 5000 + 40))) - off
        short = dseg == 1 and cpu in FAM_GRAN and rng.random() < 0.5
        rec = ['d', cpu, dseg, dg, dst, rng.randbytes(du * dg).hex(), short]
        f['recs'].insert(rng.randrange(len(f['recs']) + 1), rec)

    opts = []
    # ---- -f / -segment
    if use_f:
        vals = list(sel_fams)
        if rng.random() < 0.4:
            vals.append(rng.choice([0x42, 0x48, 0x6c, 0x05]))
        rng.shuffle(vals)
        parts = [num(rng, v) for v in vals]
        opts.append(['f', ','.join(p[0] for p in parts), vals, [p[1] for p in parts]])
    if seg != 1 or rng.random() < 0.15:
        opts.append(['segment', rcase(rng, SEGS[seg]), seg])

    # ---- -r
    s_auto = rng.random() < 0.5
    e_auto = rng.random() < 0.5
    outside = (not s_auto) and (not e_auto) and rng.random() < 0.04
    notas = []
    if outside:
        ws = hi + rng.randrange(1, 40)
        ws -= ws % pu if aligned else 0
        if ws <= hi:
            ws += pu
        we = ws + rng.randrange(1, 40) * pu - 1
        if we > 0xffffffff:
            ws, we = lo, hi
    else:
        bounds_s = [r[0] for r in recs] + [r[0] + r[1] for r in recs]
        bounds_e = [r[0] + r[1] - 1 for r in recs] + [r[0] - 1 for r in recs]
        d = rng.choice([1, 1, 2, 3, 4, 7, 16, 100])
        ws = rng.choice([lo - d, lo - d, lo, lo, lo + d, rng.choice(bounds_s), rng.randrange(lo, hi + 1)])
        ws = min(max(ws, 0), hi)
        if aligned:
            ws -= ws % pu
        d = rng.choice([1, 1, 2, 3, 4, 7, 16, 100])
        we = rng.choice([hi + d, hi + d, hi, hi, hi - d, rng.choice(bounds_e), rng.randrange(lo, hi + 1)])
        we = min(max(we, lo, 0 if s_auto else ws), 0xffffffff)
        if aligned:
            we += (-(we + 1)) % pu
            if we > 0xffffffff:
                we -= pu
        if not s_auto and we < ws:
            we = ws + pu - 1
    eff_s = lo if s_auto else ws
    eff_e = hi if e_auto else we
    if eff_e < eff_s or (eff_e - eff_s + 1) * g > MAX_WINDOW_BYTES:
        s_auto = e_auto = True
        eff_s, eff_e = lo, hi
    if not (s_auto and e_auto and rng.random() < 0.5):
        if s_auto:
            st, sn = rng.choice(['$', '0x']), 'auto'
        else:
            st, sn = num(rng, ws)
        if e_auto:
            et, en = rng.choice(['$', '0x']), 'auto'
        else:
            et, en = num(rng, we)
        opts.append(['r', st + '-' + et, None if s_auto else ws, None if e_auto else we, [sn, en]])

    # ---- -m -l
    if mode != 'ALL' or rng.random() < 0.1:
        opts.append(['m', rcase(rng, mode), mode])
    if rng.random() < 0.6:
        v = rng.choice([0, 0, 0xff, 0x55, 1, 0x80, rng.randrange(256)])
        t, nota = num(rng, v)
        opts.append(['l', t, v, nota])

    # ---- -S -e entry records
    hdr = None
    if rng.random() < 0.35:
        n = rng.choice([1, 2, 3, 4])
        letter = rng.choice(['', 'L', 'B', 'l', 'b', 'B'])
        hdr = n
        opts.append(['S', letter + str(n), letter.upper() == 'B', n])
    lim = 1 << (8 * (hdr or 4))
    ent_src = rng.random()
    if ent_src < (0.5 if hdr else 0.15):
        v = rng.choice([0, 1, lim - 1, rng.randrange(lim), rng.randrange(min(lim, 0x10000))])
        t, nota = num(rng, v)
        opts.append(['e', t, v, nota])
        if rng.random() < 0.3:
            # an entry record next to -e: the option wins (P2HEX section: the file is searched only if the option is missing)
            f = rng.choice(files)
            f['recs'].insert(rng.randrange(len(f['recs']) + 1), ['e', rng.randrange(lim)])
    elif ent_src < (0.88 if hdr else 0.35):
        # exactly one entry record, in a file without (offset): the manual does not say whether the offset moves
        # the entry address, nor which of several entry records counts -- neither is generated
        cand = [f for f in files if not f['off']]
        if cand:
            f = rng.choice(cand)
            v = rng.choice([0, lim - 1, rng.randrange(lim), rng.randrange(min(lim, 0x10000))])
            f['recs'].insert(rng.randrange(len(f['recs']) + 1), ['e', v])

    # ---- -s -q
    img_bytes = (eff_e - eff_s + 1) * g
    if rng.random() < 0.25 and (aligned or img_bytes >= 2 * period):
        opts.append(['s'])
    if rng.random() < 0.5:
        opts.append(['q'])
    rng.shuffle(opts)

    spec = {'files': files, 'opts': opts, 'target': 'out.bin', 'env': [], 'layout': rng.randrange(1 << 30)}
    if nfiles == 1 and not files[0]['off'] and rng.random() < 0.15:
        spec['target'] = None                 # P2BIN <name>  ->  <name>.bin
    if rng.random() < 0.1:
        # frequently used parameters may be stored in P2BINCMD
        spec['env'] = [i for i, o in enumerate(opts) if o[0] in ('l', 'm', 's', 'S', 'q') and rng.random() < 0.6]
    return spec


# ---------------------------------------------------------------------------
# spec -> model input / command line

def spec_opts(spec):
    return {o[0]: o for o in spec['opts']}


def model_expect(spec):
    o = spec_opts(spec)
    files = []
    entries = []
    for f in spec['files']:
        off = f['off'][1] if f['off'] else 0
        rl = []
        for r in f['recs']:
            if r[0] == 'd':
                rl.append(M.Rec(r[1], r[2], r[3], r[4], bytes.fromhex(r[5])))
            else:
                entries.append((r[1], off))
        files.append((off, rl))
    return M.expect(
        files,
        start=o['r'][2] if 'r' in o else None,
        stop=o['r'][3] if 'r' in o else None,
        fill=o['l'][2] if 'l' in o else None,
        mode=o['m'][2] if 'm' in o else 'ALL',
        flt=set(o['f'][2]) if 'f' in o else None,
        segment=o['segment'][2] if 'segment' in o else M.SEG_CODE,
        hdr_len=o['S'][3] if 'S' in o else 0,
        hdr_big=o['S'][2] if 'S' in o else False,
        entry_opt=o['e'][2] if 'e' in o else None,
        entries=entries,
        checksum='s' in o)


def opt_words(o):
    k = o[0]
    if k in ('s', 'q'):
        return ['-' + k]
    return ['-' + k, o[1]]


def command(spec):
    """-> (argv, env dict, output file name, dict file name -> content)"""
    import random
    lay = random.Random(spec.get('layout', 0))
    blobs = {}
    groups = []
    for f in spec['files']:
        recs = []
        for r in f['recs']:
            if r[0] == 'd':
                recs.append(pfile.data(r[1], r[4], bytes.fromhex(r[5]), seg=r[2], gran=r[3], short=r[6]))
            else:
                recs.append(pfile.entry(r[1]))
        blobs[f['name'] + '.p'] = pfile.build(recs)
        word = f['name'] + ('.p' if f['ext'] else '')
        if f['off']:
            word += '(' + f['off'][0] + ')'
        groups.append([word])
    env_words = []
    ogroups = []
    for i, o in enumerate(spec['opts']):
        if i in spec['env']:
            env_words += opt_words(o)
        else:
            ogroups.append(opt_words(o))
    target = spec['target']
    # files keep their order (it is the processing order); options are dropped in between at random places
    seq = list(groups) + ([[target]] if target else [])
    for og in ogroups:
        seq.insert(lay.randrange(len(seq) + 1), og)
    argv = [w for grp in seq for w in grp]
    out = target if target else spec['files'][0]['name'] + '.bin'
    env = {'P2BINCMD': ' '.join(env_words)} if env_words else {}
    return argv, env, out, blobs


def execute(ctx, spec):
    argv, env, outname, blobs = command(spec)
    for name, data in blobs.items():
        ctx.write(name, data)
    for stale in set(['out.bin', outname]):
        try:
            os.unlink(ctx.path(stale))
        except OSError:
            pass
    r = ctx.run('p2bin', argv, env=env or None, timeout=60)
    data = ctx.read(outname)
    return r, data, argv, env


# ---------------------------------------------------------------------------
# judge

PRIORITY = ['crash', 'status', 'no-output', 'overlap-warning-missing', 'overlap-warning-spurious', 'length', 'header', 'image', 'checksum']


def judge(spec, exp, r, data):
    """-> dict symptom -> message (empty: held).  'timeout' is handled by the caller."""
    sy = {}
    if r.san:
        sy['crash'] = r.san
        return sy
    if not exp.judged and exp.reason != M.R_LANES:
        return sy            # not a case the generator means to produce: nothing is demanded
    if r.rc != 0:
        sy['status'] = 'exit status %s on a well-formed input: %s' % (r.rc, (r.err.decode('latin-1').strip() or r.out.decode('latin-1').strip())[-200:])
        return sy
    if data is None:
        sy['no-output'] = 'status 0 but no output file'
        return sy
    if not exp.judged:
        return sy
    warned = WARN_TEXT in r.err or WARN_TEXT in r.out
    if exp.overlap is True and not warned:
        sy['overlap-warning-missing'] = 'two selected records share an address inside the window, no overlap warning was given'
    if exp.overlap is False and warned:
        sy['overlap-warning-spurious'] = 'no two selected records share an address, yet an overlap warning was given'
    nh = len(exp.header)
    want_len = nh + len(exp.image)
    if len(data) != want_len:
        sy['length'] = 'file length %d, expected %d (%d header + window %x..%x * granularity %d%s)' % (
            len(data), want_len, nh, exp.start, exp.stop, exp.gran, ' thinned by -m' if len(exp.image) != (exp.stop - exp.start + 1) * exp.gran else '')
    for i, h in enumerate(exp.header):
        if h is not None and i < len(data) and data[i] != h:
            sy['header'] = 'header bytes %s, expected %s' % (data[:nh].hex(), bytes(x or 0 for x in exp.header).hex())
            break
    body = data[nh:]
    n = min(len(body), len(exp.image))
    last = len(exp.image) - 1
    if body[:n] != exp.image[:n] or exp.last_byte is not None:
        for i in range(n):
            if exp.last_byte is not None and i == last:
                continue
            if body[i] != exp.image[i] and exp.origin[i] != M.O_UNSPEC:
                what = 'record data' if exp.origin[i] == M.O_DATA else 'fill value'
                sy['image'] = 'byte %d of the image is %02x, expected %s %02x (image around: got %s, expected %s)' % (
                    i, body[i], what, exp.image[i], body[max(0, i - 4):i + 8].hex(), exp.image[max(0, i - 4):i + 8].hex())
                break
    if exp.last_byte is not None and len(body) == len(exp.image) and 'image' not in sy and body:
        if body[-1] not in exp.last_byte:
            sy['checksum'] = 'last byte %02x, byte sum of the image %02x; expected last byte %s' % (
                body[-1], sum(body) & 0xff, '/'.join('%02x' % x for x in sorted(exp.last_byte)))
    return sy


def features(spec, exp):
    o = spec_opts(spec)
    ft = []
    for k in ('f', 'segment', 'm', 'l', 'S', 'e', 's'):
        if k in o:
            ft.append('-' + k)
    if 'r' in o and (o['r'][2] is not None or o['r'][3] is not None):
        ft.append('-r:explicit')
    if any(f['off'] and f['off'][1] for f in spec['files']):
        ft.append('offset')
    if len(spec['files']) > 1:
        ft.append('files>1')
    recs = [r for f in spec['files'] for r in f['recs']]
    if any(r[0] == 'd' and r[3] > 1 for r in recs):
        ft.append('gran>1')
    if any(r[0] == 'd' and len(r[5]) // 2 > 4096 for r in recs):
        ft.append('record>4096')
    if any(r[0] == 'e' for r in recs):
        ft.append('entry-record')
    if spec['env']:
        ft.append('P2BINCMD')
    if spec['target'] is None:
        ft.append('single-name')
    if exp is not None and exp.overlap is not False and exp.judged:
        ft.append('overlap')
    return ft


def reduce_spec(ctx, spec, symptom, budget=250):
    """greedy one-at-a-time simplification keeping `symptom`; returns (spec, exp, run, data, argv, env)"""
    def test(cand):
        nonlocal budget
        if budget <= 0:
            return None
        budget -= 1
        try:
            exp = model_expect(cand)
        except Exception:
            return None
        if not exp.judged and not (exp.reason == M.R_LANES and symptom in ('status', 'no-output')):
            return None
        r, data, argv, env = execute(ctx, cand)
        if r.timed_out:
            return None
        if symptom in judge(cand, exp, r, data):
            return (cand, exp, r, data, argv, env)
        return None

    best = test(spec)
    if best is None:
        return None
    changed = True
    while changed and budget > 0:
        changed = False
        cur = best[0]
        cands = []
        shrink = []        # tried last: many small steps
        if cur['env']:
            c = copy.deepcopy(cur); c['env'] = []; cands.append(c)
        if cur['target'] is None:
            c = copy.deepcopy(cur); c['target'] = 'out.bin'; cands.append(c)
        for i in range(len(cur['opts'])):
            c = copy.deepcopy(cur)
            del c['opts'][i]
            c['env'] = []
            cands.append(c)
        for i, o in enumerate(cur['opts']):
            if o[0] == 'r':
                for side in (2, 3):
                    if o[side] is not None:
                        c = copy.deepcopy(cur)
                        oo = c['opts'][i]
                        oo[side] = None
                        a, b = oo[1].split('-')
                        oo[1] = ('0x' if side == 2 else a) + '-' + ('0x' if side == 3 else b)
                        cands.append(c)
        if len(cur['files']) > 1:
            for i in range(len(cur['files'])):
                c = copy.deepcopy(cur)
                del c['files'][i]
                cands.append(c)
            # merge all files into the first when no offsets are involved
            if not any(f['off'] for f in cur['files']):
                c = copy.deepcopy(cur)
                for f in c['files'][1:]:
                    c['files'][0]['recs'] += f['recs']
                del c['files'][1:]
                cands.append(c)
        for fi, f in enumerate(cur['files']):
            if f['off']:
                c = copy.deepcopy(cur)
                off = f['off'][1]
                c['files'][fi]['off'] = None
                for r in c['files'][fi]['recs']:
                    if r[0] == 'd':
                        r[4] += off
                cands.append(c)
            for ri in range(len(f['recs'])):
                c = copy.deepcopy(cur)
                del c['files'][fi]['recs'][ri]
                cands.append(c)
            for ri, r in enumerate(f['recs']):
                if r[0] == 'd' and r[6]:
                    c = copy.deepcopy(cur); c['files'][fi]['recs'][ri][6] = False; cands.append(c)
                if r[0] == 'd' and len(r[5]) // 2 > r[3]:
                    units = len(r[5]) // 2 // r[3]
                    for keep in (units // 2, units - 1):
                        if keep >= 1:
                            c = copy.deepcopy(cur)
                            c['files'][fi]['recs'][ri][5] = r[5][:keep * r[3] * 2]
                            shrink.append(c)
        drecs = [r for f in cur['files'] for r in f['recs'] if r[0] == 'd']
        if any(r[3] != 1 for r in drecs):
            c = copy.deepcopy(cur)
            for f in c['files']:
                for r in f['recs']:
                    if r[0] == 'd':
                        r[3], r[6] = 1, False
            cands.append(c)
        if any(r[2] != 1 for r in drecs):
            c = copy.deepcopy(cur)
            for f in c['files']:
                for r in f['recs']:
                    if r[0] == 'd':
                        r[2] = 1
            c['opts'] = [o for o in c['opts'] if o[0] != 'segment']
            c['env'] = []
            cands.append(c)
        if drecs:
            m = min(r[4] for r in drecs)
            for o in cur['opts']:
                if o[0] == 'r':
                    m = min([m] + [x for x in o[2:4] if x is not None])
            m -= m % 4
            if m > 0:
                c = copy.deepcopy(cur)
                for f in c['files']:
                    for r in f['recs']:
                        if r[0] == 'd':
                            r[4] -= m
                for o in c['opts']:
                    if o[0] == 'r':
                        o[2] = None if o[2] is None else o[2] - m
                        o[3] = None if o[3] is None else o[3] - m
                        o[1] = ('0x' if o[2] is None else '$%x' % o[2]) + '-' + ('0x' if o[3] is None else '$%x' % o[3])
                cands.append(c)
        for c in cands + shrink:
            got = test(c)
            if got is not None:
                best = got
                changed = True
                break
    return best


def describe(spec):
    out = []
    for f in spec['files']:
        rl = []
        for r in f['recs']:
            if r[0] == 'd':
                n = len(r[5]) // 2
                rl.append('%s$%02x/%s/g%d @%x len %d%s' % ('short ' if r[6] else '', r[1], SEGS.get(r[2], r[2]), r[3], r[4], n,
                                                          ' [' + r[5][:24] + (']' if n <= 12 else '..]')))
            else:
                rl.append('entry %x' % r[1])
        out.append('%s.p: %s' % (f['name'], '; '.join(rl)))
    return out


def run_case(case, ctx):
    out = ctx.out
    rng = ctx.rng
    spec = gen_spec(rng)
    exp = model_expect(spec)
    r, data, argv, env = execute(ctx, spec)
    o = spec_opts(spec)
    out.sample = {'argv': argv, 'env': env, 'files': describe(spec)[:4],
                  'window': [exp.start, exp.stop], 'judged': exp.judged, 'unjudged_reason': exp.reason}
    out.obs['executions'] += 1
    if r.timed_out:
        out.inconc('timeout')
        return
    sy = judge(spec, exp, r, data)

    # ---- what was observed
    mode = o['m'][2] if 'm' in o else 'ALL'
    out.sets['modes'].add(mode)
    out.sets['statuses'].add(str(r.rc))
    rform = 'default' if 'r' not in o else ('%s-%s' % ('auto' if o['r'][2] is None else 'explicit', 'auto' if o['r'][3] is None else 'explicit'))
    out.sets['range_forms'].add(rform)
    if 'r' in o:
        out.sets['number_notations'].update(x for x in o['r'][4] if x != 'auto')
    for k in ('l', 'e'):
        if k in o:
            out.sets['number_notations'].add(o[k][3])
    if 'f' in o:
        out.sets['number_notations'].update(o['f'][3])
    hform = 'none'
    if 'S' in o:
        hform = ('B' if o['S'][2] else 'L') + str(o['S'][3])
        out.sets['header_forms'].add(o['S'][1])
    out.sets['options_used'].update('-' + k for k in o)
    out.sets['files_per_run'].add(str(len(spec['files'])))
    if spec['env']:
        out.obs['runs_with_P2BINCMD'] += 1
    if spec['target'] is None:
        out.obs['runs_single_name_form'] += 1
    anyoff = any(f['off'] and f['off'][1] for f in spec['files'])
    if anyoff:
        out.obs['runs_with_offset'] += 1
    rel = set()
    if exp.judged:
        out.obs['judged_runs'] += 1
        out.sets['granularities'].add(str(exp.gran))
        out.sets['segments'].add(SEGS[o['segment'][2]] if 'segment' in o else 'CODE(default)')
        nd = exp.origin.count(M.O_DATA)
        nf = exp.origin.count(M.O_FILL)
        nu = exp.origin.count(M.O_UNSPEC)
        out.obs['image_bytes_compared_data'] += nd
        out.obs['image_bytes_compared_fill'] += nf
        out.obs['image_bytes_unspecified_skipped'] += nu
        out.obs['header_bytes_compared'] += sum(1 for h in exp.header if h is not None)
        out.obs['header_bytes_unspecified'] += sum(1 for h in exp.header if h is None)
        if exp.last_byte is not None:
            out.obs['checksums_checked' if len(exp.last_byte) < 256 else 'checksums_unspecified'] += 1
        out.obs['overlap_expected_%s' % {True: 'yes', False: 'no', None: 'unspecified'}[exp.overlap]] += 1
        if WARN_TEXT in r.err or WARN_TEXT in r.out:
            out.obs['overlap_warnings_seen'] += 1
        # layout relations between the selected records and the window
        selr = sorted((x.start, x.end) for x in M.select(
            [(f['off'][1] if f['off'] else 0, [M.Rec(q[1], q[2], q[3], q[4], bytes.fromhex(q[5])) for q in f['recs'] if q[0] == 'd']) for f in spec['files']],
            set(o['f'][2]) if 'f' in o else None, o['segment'][2] if 'segment' in o else 1))
        for (a, b), (c, d) in zip(selr, selr[1:]):
            rel.add('adjacent' if c == b + 1 else 'gap' if c > b + 1 else 'overlap')
        for a, b in selr:
            if a < exp.start <= b:
                rel.add('clip-left')
            if a <= exp.stop < b:
                rel.add('clip-right')
            if b < exp.start or a > exp.stop:
                rel.add('record-outside-window')
            if (b - a + 1) * exp.gran > 4096:
                rel.add('record>4096')
        if nf and nd:
            rel.add('fill+data')
        out.sets['layout_relations'].update(rel)
        out.nontrivial = exp.ncontributing >= 1
        out.sig = (exp.gran, 'CODE' if 'segment' not in o or o['segment'][2] == 1 else 'other', mode, rform, hform,
                   'e' in o, 's' in o, 'f' in o, 'l' in o, len(spec['files']), anyoff, tuple(sorted(rel)))
    else:
        out.obs['unjudged_runs'] += 1
        out.obs['unjudged: ' + exp.reason] += 1

    if not sy:
        return
    # ---- violations: reduce per symptom, key by features + symptom
    for symptom in [s for s in PRIORITY if s in sy][:3]:
        if symptom == 'crash':
            out.violate(sy['crash'], 'p2bin %s: %s' % (' '.join(argv), r.err.decode('latin-1')[-600:]))
            continue
        red = reduce_spec(ctx, spec, symptom)
        if red is None:
            # not reproducible on a second execution: no verdict from this case
            out.inconc('symptom %s not reproduced' % symptom)
            continue
        rs, rexp, rr, rdata, rargv, renv = red
        msg = judge(rs, rexp, rr, rdata)[symptom]
        ft = features(rs, rexp)
        key = 'p2bin:%s:%s' % ('+'.join(ft) or 'plain', symptom)
        if '-f' in ft:
            # diagnosis by observation: does a list that names none of the families present give the very same result?
            alt = copy.deepcopy(rs)
            for oo in alt['opts']:
                if oo[0] == 'f':
                    oo[1], oo[2] = '$7e', [0x7e]
            r2, d2, _, _ = execute(ctx, alt)
            if r2.rc == rr.rc and d2 == rdata:
                key = 'p2bin:-f:selects-nothing'
        out.violate(key, 'reduced witness: p2bin %s%s | %s | %s | original: p2bin %s' % (
            ' '.join(rargv), (' [P2BINCMD=%s]' % renv['P2BINCMD']) if renv else '', ' || '.join(describe(rs)), msg, ' '.join(argv)))


def spec_fill(spec):
    o = spec_opts(spec)
    return o['l'][2] if 'l' in o else M.DEFAULT_FILL
