"""C06 — P2HEX output decodes, with valid checksums, to the code file's contents.

Per case: one or two code files are written with vf/pfile.py (never through asl), the
real p2hex is run on them with a generated option set, and the text it wrote is decoded
by vf/hexfmt.py (decoders written from the public format definitions and self-tested on
published vectors before any case runs).  The oracle is a reference model written from
doc/utility-programs.md: which records are selected (-f, -segment, -r window incl. the
'$'/'0x' wildcards, file offset), where they land (-a, -R), how an address unit of a
word-oriented target appears (-m 0..3), and which entry address is announced (-e / entry
record).  Refuting events: a line the format's grammar rejects; a checksum / count field
that does not verify; a decoded (address, byte) that the model does not have or the other
way round; wrong terminator / entry / S5 / record-type fields; a missing overflow warning.
"""
import os
import re
import shutil

from .. import hexfmt, pfile

ID = 'C06'
LEVEL = 'exploration'
RULE = ('case = one p2hex run over 1-2 generated code files (1-5 selected records of 1..65535 bytes, placed below / across 64 KiB, 1 MiB, 16 MiB '
        'and near 4 GiB, plus unselected records of other segments / families) x explicit or default format x random option set; '
        'non-trivial = at least one data line decoded; distinct = distinct (format, family granularity, address zone, option-name set, '
        'line-length class, record-count class, multi-line?)')
ASSUMPTIONS = ['vf/hexfmt.py implements the public format definitions (self-test on published vectors, and on S-record / Intel hex files '
               'encoded by GNU objcopy where installed, runs before every check run)',
               'AVR program words are stored low byte first in the code file (Atmel generic lines carry the word value)',
               'for S-record / MOS / Tektronix output of word-oriented targets the address field counts address units of the target '
               '(manual: "address specifications always relate to the granularity of the processor")',
               'INHX16M (-m 1) keeps the byte addresses of INHX8M and only reverses the bytes inside a word',
               'messages are matched in the English catalogue (LANG=C)']
MANIFEST = dict(
    category='exploration', design_ref='DESIGN.md §4 C06',
    technique='runtime monitor: reference model of record selection / relocation written from the manual + independent decoders of the public hex '
              'format definitions (syntax, per-record checksums, count and terminator fields), applied to every execution of the real p2hex',
    text='Held on the executions of this run: for generated code files with records below and across the 64 KiB / 1 MiB / 16 MiB boundaries and data '
         'longer than one line, in Motorola S, Intel 8/16/32, MOS, Tektronix, Atmel generic and C array format (explicit, or the documented default of '
         'the CPU family) under -r/-a/-R/-l/-M/+5/-i/-m/-e/-avrlen/-segment/-f/-cformat and file offsets, every line p2hex wrote was accepted by the '
         'format grammar, every checksum / byte count / S5 count / MOS record count verified, and decoding gave exactly the address-to-byte mapping of '
         'the selected, clipped, relocated records; entry address and terminator records were as documented; addresses beyond a format\'s reach produced the documented warning.',
    note='Trusts vf/hexfmt.py and vf/pfile.py.  TI-DSK and Mico8 output is not decoded (not in the property).  Not generated because the manual is silent: -m 1..3 outside the Intel formats, '
         '-m 2/3 with granularity other than 2 or with Intel16/32, Atmel format for byte-addressed records, C format for word-addressed records, overlapping '
         'records, negative -R, -l below one address unit, Intel16 addresses $100000-$10FFEF, default-format (variant unspecified) Intel output above 64 KiB, '
         'undocumented -s/-d/-k; entry addresses are not judged together with -R/-a/offset, for the C format, or when wider than the record that carries them.  '
         'A Tektronix termination block is accepted but not demanded '
         '(the manual lists -e only for DSK, Intel and Motorola).  Odd -l values: the English manual says rounded down, the German one rounded up; the '
         'monitor only demands that no line is longer than the next even number.')
REGISTERED = True

M32 = 0xffffffff

# header id -> (granularity of CODE, documented default format class or None, short record allowed)
# default classes follow the sentence in doc/utility-programs.md: S-records for Motorola CPUs, Hitachi and TLCS-900,
# MOS for 65xx/MELPS(-7700), Atmel generic for AVR, Intel hex "for the rest" (which Intel variant is not stated ->
# 'INTELx': any Intel variant is accepted and the addresses stay below 64 KiB).  Families whose table entry is not
# covered by an unambiguous reading of that sentence (2650, XCore, TLCS-9000, MELPS-4500, TI DSPs -> DSK) get None.
FAM = {
    0x01: (1, 'MOTO'), 0x61: (1, 'MOTO'), 0x62: (1, 'MOTO'), 0x63: (1, 'MOTO'), 0x66: (1, 'MOTO'), 0x65: (1, 'MOTO'),
    0x68: (1, 'MOTO'), 0x69: (1, 'MOTO'), 0x6c: (1, 'MOTO'), 0x52: (1, 'MOTO'), 0x05: (1, 'MOTO'), 0x03: (1, 'MOTO'),
    0x11: (1, 'MOS'), 0x19: (1, 'MOS'),
    0x51: (1, 'INTELx'), 0x31: (1, 'INTELx'), 0x41: (1, 'INTELx'), 0x42: (1, 'INTELx'), 0x2a: (1, 'INTELx'),
    0x4a: (1, 'INTELx'), 0x33: (1, 'INTELx'), 0x29: (1, 'INTELx'), 0x21: (1, 'INTELx'), 0x79: (1, 'INTELx'),
    0x70: (2, 'INTELx'), 0x71: (2, 'INTELx'), 0x72: (2, 'INTELx'),
    0x3b: (2, 'ATMEL'),
    0x75: (2, None), 0x12: (2, None),
    0x09: (4, 'MOTO'), 0x76: (4, 'INTELx'), 0x7d: (4, 'INTELx'),
}
BY_GRAN = {g: sorted(h for h, (gg, _) in FAM.items() if gg == g and h != 0x3b) for g in (1, 2, 4)}
DEFAULTABLE = sorted(h for h, (_, c) in FAM.items() if c)

FORMATS = ['MOTO', 'INTEL', 'INTEL16', 'INTEL32', 'MOS', 'TEK', 'ATMEL', 'C', 'DEFAULT']
FMT_WEIGHTS = [5, 4, 3, 4, 3, 3, 2, 2, 4]
FMT_ARG = {'MOTO': 'Moto', 'INTEL': 'Intel', 'INTEL16': 'Intel16', 'INTEL32': 'Intel32', 'MOS': 'MOS', 'TEK': 'Tek', 'ATMEL': 'Atmel', 'C': 'C'}
SEGS = {'data': 2, 'idata': 3, 'xdata': 4, 'ydata': 5, 'bitdata': 6, 'io': 7, 'reg': 8, 'romdata': 9, 'eedata': 10}

LENS = [1, 2, 3, 4, 7, 8, 15, 16, 17, 31, 32, 33, 40, 64, 100, 255, 256, 257, 511, 512, 1000]
BIGLENS = [4096, 65520, 65534, 65535]
LINELENS = [2, 3, 4, 5, 8, 12, 15, 16, 17, 30, 31, 32, 33, 64, 100, 128, 200, 252, 253, 254]
BOUNDARIES = [0x10000, 0x10000, 0x20000, 0x100000, 0x1000000, 0x80000000]


def prepare(bins, tier, seed):
    bad = hexfmt.selftest()
    bad += objcopy_crosscheck()
    if bad:
        raise RuntimeError('hexfmt self-test failed (decoder bug, not an AS defect): %s' % bad[:5])


def objcopy_crosscheck():
    """second opinion on the S-record / Intel hex decoders: a blob encoded by GNU objcopy (an independent
    implementation of the public definitions) must decode to itself.  Skipped when objcopy is not installed."""
    import subprocess
    import tempfile
    oc = shutil.which('objcopy')
    if not oc:
        return []
    bad = []
    root = os.path.join(os.path.dirname(os.path.dirname(os.path.dirname(os.path.abspath(__file__)))), '.work')
    os.makedirs(root, exist_ok=True)
    wd = tempfile.mkdtemp(prefix='C06.selftest.', dir=root)
    try:
        blob = bytes((i * 37 + 11) & 0xff for i in range(700))
        src = os.path.join(wd, 'blob.bin')
        with open(src, 'wb') as f:
            f.write(blob)
        for fmt, base, extra in (('srec', 0x0, []), ('srec', 0xff00, []), ('srec', 0xffff00, []), ('srec', 0x100, ['--srec-forceS3']),
                                 ('srec', 0x10, ['--srec-len=7']),
                                 ('ihex', 0x0, []), ('ihex', 0xff00, []), ('ihex', 0xfff00, []), ('ihex', 0x7fffff00, [])):
            dst = os.path.join(wd, 'blob.' + fmt)
            try:
                r = subprocess.run([oc, '-I', 'binary', '-O', fmt, '--change-addresses', hex(base)] + extra + [src, dst],
                                   stdout=subprocess.PIPE, stderr=subprocess.PIPE, timeout=300)
            except (OSError, subprocess.TimeoutExpired):
                continue
            if r.returncode != 0:
                continue
            with open(dst) as f:
                text = f.read().replace('\r\n', '\n')
            d = hexfmt.decode_srec(text) if fmt == 'srec' else hexfmt.decode_ihex(text)
            if d.issues:
                bad.append('objcopy %s @%x: %s' % (fmt, base, d.issues[:3]))
                continue
            m = {}
            for rec in d.data_recs():
                for i, b in enumerate(rec.data):
                    m[rec.addr_of(i)] = b
            if m != {base + i: b for i, b in enumerate(blob)}:
                bad.append('objcopy %s @%x: decoded map differs from the blob' % (fmt, base))
    finally:
        shutil.rmtree(wd, ignore_errors=True)
    return bad


def plan(tier, seed):
    n = 1200 if tier == 'quick' else 30000
    return [{'i': i} for i in range(n)]


# ---------------------------------------------------------------------------
# generation

def num(rng, v):
    """a number in one of the notations the manual allows on the command line"""
    k = rng.randrange(4)
    if k == 0:
        return '0x%x' % v
    if k == 1:
        return '$%X' % v
    if k == 2:
        return '%d' % v
    s = '%xh' % v
    return s if s[0].isdigit() else '0' + s


def gen_case(rng):
    c = {}
    fmt = rng.choices(FORMATS, FMT_WEIGHTS)[0]
    c['fmt'] = fmt
    # ---- family / granularity
    if fmt == 'DEFAULT':
        hdr = rng.choice(DEFAULTABLE)
        gran = FAM[hdr][0]
        cls = FAM[hdr][1]
    elif fmt == 'ATMEL':
        hdr, gran, cls = 0x3b, 2, 'ATMEL'     # byte-addressed records in Atmel generic: manual silent, not generated
    elif fmt == 'C':
        gran = 1                               # start/len/end of word-addressed blocks: manual silent, not generated
        hdr = rng.choice(BY_GRAN[1])
        cls = 'C'
    else:
        gran = rng.choices([1, 2, 4], [7, 2, 1])[0]
        hdr = rng.choice(BY_GRAN[gran] + ([0x3b] if gran == 2 else []))
        cls = fmt
    c['hdr'], c['gran'], c['cls'] = hdr, gran, cls
    opts = []          # list of (name, [argv words])
    onames = []

    def opt(name, *words):
        opts.append(list(words))
        onames.append(name)

    # ---- -m (only Intel formats, only word-oriented records; 2/3 only 16-bit words and plain Intel)
    mode = 0
    if cls in ('INTEL', 'INTEL16', 'INTEL32', 'INTELx') and gran > 1 and rng.random() < 0.55:
        cand = [0, 1]
        if gran == 2 and (cls == 'INTEL' or (cls == 'INTELx' and hdr in (0x70, 0x71, 0x72))):
            cand += [2, 3, 2, 3]
        mode = rng.choice(cand)
        opt('-m%d' % mode, '-m', str(mode))
    c['mode'] = mode
    # ---- -l
    linelen = 16
    if rng.random() < 0.4 and cls != 'ATMEL':
        linelen = rng.choice(LINELENS)
        if linelen + (linelen & 1) < gran:
            linelen = gran         # a line cannot hold less than one address unit: not generated
        opt('-l', '-l', str(linelen))
    c['linelen'] = linelen
    maxline = linelen + (linelen & 1)
    # ---- hex address scale: how many hex addresses one address unit occupies
    intel = cls in ('INTEL', 'INTEL16', 'INTEL32', 'INTELx')
    scale = gran if (intel and mode < 2) else 1
    if cls == 'ATMEL':
        avrlen = 3
        if rng.random() < 0.5:
            avrlen = rng.choice([2, 3])
            opt('-avrlen', '-avrlen', str(avrlen))
        c['avrlen'] = avrlen
        reach = (1 << (8 * avrlen)) - 1
    else:
        reach = {'MOTO': M32, 'INTEL': 0xffff, 'INTEL16': 0xfffff, 'INTEL32': M32, 'MOS': 0xffff, 'TEK': 0xffff, 'C': M32, 'INTELx': 0xffff}[cls]
    c['reach'] = reach
    # ---- record placement (unit addresses)
    want_overflow = reach < M32 and cls != 'INTELx' and rng.random() < 0.12
    nrec = rng.choice([1, 1, 2, 2, 3, 4, 5])
    used = []

    def free(s, n):
        return s >= 0 and s + n - 1 <= M32 - 0x200 and all(s + n <= a or s >= a + m for a, m in used)

    recs = []
    big_budget = 1
    for ri in range(nrec):
        for _ in range(40):
            r = rng.random()
            if r < 0.08 and big_budget:
                nbytes = rng.choice(BIGLENS)
            elif r < 0.6:
                nbytes = rng.choice(LENS)
            elif r < 0.8:
                nbytes = maxline * rng.randrange(1, 5) + rng.choice([-1, 0, 1])
            else:
                nbytes = rng.randrange(1, 700)
            nunits = max(1, nbytes // gran)
            limit_units = (reach + 1) // scale
            z = rng.random()
            if want_overflow and ri == 0:
                # beyond the reach of the format
                s = rng.choice([limit_units + rng.randrange(0, 0x100), limit_units - rng.randrange(0, nunits + 1) + (1 if nunits == 1 else 0),
                                limit_units * 2 + 0x10000 + rng.randrange(0x1000)])
                if cls == 'INTEL16':
                    # $100000..$10FFEF is reachable by a real 8086 (segment FFFF) but beyond "4 bits further": not generated
                    s = 0x110000 // scale + rng.randrange(0, 0x1000)
            elif z < 0.3:
                s = rng.choice([0, 0, 1, 0x10, 0x100, 0x200, 0x1000, 0x7ff0, 0x8000]) + rng.randrange(0, 3)
            elif z < 0.75:
                b = rng.choice(BOUNDARIES) // scale
                s = b - rng.choice([0, 1, nunits, nunits - 1, nunits + 1, rng.randrange(0, nunits + 1), rng.randrange(0, maxline + 1), 0x100])
            elif z < 0.9:
                s = rng.randrange(0, 0x10000)
            else:
                s = rng.choice([0x12345, 0xfffff0, 0x7fffff00, 0xfffe0000, 0xffff8000]) + rng.randrange(0, 0x40)
            if not want_overflow and (s + nunits) * scale - 1 > reach:
                if limit_units <= nunits:
                    continue
                s = rng.randrange(0, limit_units - nunits)
            if want_overflow and ri > 0 and (s + nunits) * scale - 1 > reach:
                continue
            if free(s, nunits):
                used.append((s, nunits))
                if nbytes >= 4096:
                    big_budget -= 1
                recs.append({'cpu': hdr, 'seg': 1, 'gran': gran, 'start': s, 'n': nunits})
                break
    if not recs:
        recs.append({'cpu': hdr, 'seg': 1, 'gran': gran, 'start': 0x100, 'n': 4})
        used.append((0x100, 4))
    # ---- -segment: the selected records live in another segment, CODE records become bystanders
    segname = None
    if gran == 1 and cls != 'ATMEL' and rng.random() < 0.15:
        segname = rng.choice(sorted(SEGS) + ['code'])
        if segname != 'code':
            for r in recs:
                r['seg'] = SEGS[segname]
        opt('-segment', '-segment', rng.choice([segname, segname.upper()]))
    c['segname'] = segname
    selseg = SEGS.get(segname, 1) if segname else 1
    # ---- -f
    filt = None
    if rng.random() < 0.3:
        filt = [hdr]
        others = [h for h in FAM if h != hdr]
        for _ in range(rng.randrange(0, 3)):
            filt.append(rng.choice(others))
        rng.shuffle(filt)
        opt('-f', '-f', ','.join(num(rng, h) for h in filt))
    c['filt'] = filt
    # ---- bystanders: records that must not appear (other segment; other family when a filter is set)
    noise = []
    for _ in range(rng.choice([0, 0, 1, 2])):
        kind = rng.randrange(2)
        n = rng.choice([1, 5, 16, 33, 300])
        s = rng.choice([0, 0x100, 0xfff8, rng.randrange(0, 0x20000)])
        if kind == 0:
            oseg = rng.choice([x for x in [1, 2, 3, 4, 7] if x != selseg])
            g = gran if oseg == 1 else 1
            noise.append({'cpu': hdr, 'seg': oseg, 'gran': g, 'start': s, 'n': max(1, n // g)})
        elif filt:
            oh = rng.choice([h for h in FAM if h not in filt])
            g = FAM[oh][0]
            noise.append({'cpu': oh, 'seg': selseg, 'gran': g if selseg == 1 else 1, 'start': s, 'n': max(1, n // g)})
    # ---- files
    nfiles = 2 if (len(recs) + len(noise) >= 2 and rng.random() < 0.2) else 1
    allr = [dict(r, sel=True) for r in recs] + [dict(r, sel=False) for r in noise]
    rng.shuffle(allr)
    files = [[] for _ in range(nfiles)]
    for i, r in enumerate(allr):
        files[rng.randrange(nfiles) if i >= nfiles else i % nfiles].append(r)
    offsets = [0] * nfiles
    if rng.random() < 0.1:
        fi = rng.randrange(nfiles)
        off = rng.choice([0x10, 0x100, 0x1000, 0x8000])
        # the offset is applied to the stored addresses: store them lower so that the placement above stays the effective one
        if all(r['start'] >= off for r in files[fi]):
            offsets[fi] = off
            for r in files[fi]:
                r['start'] -= off
            onames.append('offset')
    c['offsets'] = offsets
    for f in files:
        for r in f:
            r['short'] = bool(r['seg'] == 1 and r['cpu'] in FAM and FAM[r['cpu']][0] == r['gran'] and rng.random() < 0.5)
            r['fill'] = rng.randrange(4)
            r['seed'] = rng.randrange(1 << 30)
    c['files'] = files
    # effective (after offset) list of selected records in processing order
    sel = []
    for fi, f in enumerate(files):
        for r in f:
            if r['sel']:
                sel.append((r['start'] + offsets[fi], r['n'], r))
    lo = min(s for s, n, _ in sel)
    hi = max(s + n - 1 for s, n, _ in sel)
    # ---- -r
    wk = rng.random()
    ws = we = None            # None = automatic
    if wk < 0.45:
        pass
    elif wk < 0.52:
        w = rng.choice(['$-$', '0x-0x', '$-0x', '0X-$'])
        opt('-r', '-r', w)
    else:
        s0, n0, _ = rng.choice(sel)
        a = s0 + rng.choice([0, 0, 1, n0 // 2, n0 - 1, -1, -16, -0x100])
        a = max(0, a)
        b = max(a, s0) + rng.choice([0, 1, n0 // 2, n0 - 1, n0, n0 + 16, 15, 0x1000, 0x10000])
        b = min(b, M32)
        if b < a:
            b = a
        # window must hold at least one selected unit
        if not any(max(a, s) <= min(b, s + n - 1) for s, n, _ in sel):
            a, b = s0, s0 + n0 - 1
        if wk < 0.8:
            ws, we = a, b
            opt('-r', '-r', '%s-%s' % (num(rng, a), num(rng, b)))
        elif wk < 0.9:
            if b >= lo:
                we = b
                opt('-r$-', '-r', '%s-%s' % (rng.choice(['$', '0x']), num(rng, b)))
        else:
            if a <= hi:
                ws = a
                opt('-r-$', '-r', '%s-%s' % (num(rng, a), rng.choice(['$', '0x'])))
    c['ws'], c['we'] = ws, we
    # ---- -a / -R
    rel = rng.random() < 0.2
    if rel:
        opt('-a', '-a')
    reloc = 0
    if rng.random() < 0.22:
        reloc = rng.choice([1, 0x10, 0x100, 0x1000, 0x8000, 0xfff0, 0xff00, 0x10000, 0x100000, 0x1000000, 0x12345])
        top = hi - ((ws if ws is not None else lo) if rel else 0) + reloc
        if top * scale > M32 - 0x100:
            reloc = 0
        elif top * scale + scale - 1 > reach and (cls == 'INTELx' or (not want_overflow and rng.random() < 0.7)):
            # mostly keep in-reach cases in reach; the rest exercises "relocated beyond the reach".  Default Intel
            # format: the manual does not say which Intel variant a family gets, so its reach is unknown -> stay below 64K
            reloc = 0
        if reloc:
            opt('-R', '-R', num(rng, reloc))
    c['rel'], c['reloc'] = rel, reloc
    if rel and ws is None:
        # "-a" rebases to the window start; with an automatic start the manual says "the lowest address found in the source
        # file" without saying whether records excluded by -f / -segment count: no such record may lie below the selected data
        for fi, f in enumerate(files):
            f[:] = [r for r in f if r['sel'] or r['start'] + offsets[fi] >= lo]
    # ---- entry
    moving = rel or reloc or any(offsets)
    c['file_entry'] = None
    c['opt_entry'] = None
    if cls in ('MOTO', 'INTEL', 'INTEL16', 'INTEL32', 'INTELx', 'C'):
        if rng.random() < 0.3:
            s0, n0, _ = sel[0]
            e = rng.choice([0, 1, 0x100, 0xffff, s0 * (scale if mode < 2 else 1), rng.randrange(0, 0x10000)])
            if cls in ('MOTO', 'INTEL32', 'C') and rng.random() < 0.3:
                e = rng.choice([0x12345, 0xfffff, 0x123456, 0x12345678, 0xfffffffe])
            if cls == 'INTEL16' and rng.random() < 0.3:
                e = rng.choice([0x12345, 0xfffff, 0x10000])
            c['file_entry'] = e
            c['entry_file'] = rng.randrange(nfiles)
            onames.append('entry-record')
        if rng.random() < 0.2:
            e = rng.choice([0, 1, 0x10, 0x1234, 0xfffe, 0xffff, rng.randrange(0, 0x10000)])
            c['opt_entry'] = e
            opt('-e', '-e', num(rng, e))
    c['moving'] = bool(moving)
    # ---- Motorola specials
    c['minmoto'] = 1
    c['rec5'] = True
    if cls == 'MOTO':
        if rng.random() < 0.35:
            c['minmoto'] = rng.choice([1, 2, 3])
            opt('-M%d' % c['minmoto'], '-M', str(c['minmoto']))
        if rng.random() < 0.25:
            c['rec5'] = False
            opt('+5', '+5')
    # ---- Intel end line
    c['ivar'] = 0
    if intel and rng.random() < 0.35:
        c['ivar'] = rng.choice([0, 1, 2])
        opt('-i%d' % c['ivar'], '-i', str(c['ivar']))
    # ---- C descriptor layout
    c['cformat'] = 'dSEl'
    if cls == 'C' and rng.random() < 0.6:
        letters = [rng.choice(x) for x in ('dD', 'sS', 'lL', 'eE')]
        rng.shuffle(letters)
        k = rng.randrange(1, 5)
        letters = letters[:k]
        c['cformat'] = ''.join(letters)
        opt('-cformat', '-cformat', c['cformat'])
    if fmt != 'DEFAULT':
        a = FMT_ARG[fmt]
        opt('-F', '-F', rng.choice([a, a.upper(), a.lower()]))
    c['quiet'] = rng.random() < 0.85
    if c['quiet']:
        opts.append([rng.choice(['-q', '-quiet'])])
    order = list(range(len(opts)))
    rng.shuffle(order)
    c['argv_opts'] = [w for i in order for w in opts[i]]
    c['onames'] = sorted(set(onames))
    c['zone'] = zone_of(lo * scale, hi * scale + scale - 1, reach, want_overflow)
    # minimal call "p2hex name" (one source, target derived): manual, last paragraph of the P2HEX section
    c['minimal'] = nfiles == 1 and not any(offsets) and rng.random() < 0.08
    return c


def zone_of(lo, hi, reach, overflow):
    if overflow:
        return 'beyond-reach'
    for name, b in (('x64K', 0x10000), ('x1M', 0x100000), ('x16M', 0x1000000), ('x2G', 0x80000000)):
        if lo < b <= hi:
            return name
    if hi < 0x10000:
        return '<64K'
    if hi < 0x100000:
        return '<1M'
    if hi < 0x1000000:
        return '<16M'
    return '>=16M'


def payload(r):
    import random
    n = r['n'] * r['gran']
    k = r['fill']
    if k == 0:
        return bytes((i * 7 + r['seed']) & 0xff for i in range(n))
    if k == 1:
        return bytes([0xff]) * n
    if k == 2:
        return bytes(n)
    return random.Random(r['seed']).randbytes(n)


# ---------------------------------------------------------------------------
# reference model (doc/utility-programs.md)

def model(c, datas):
    """returns (groups, window) — groups: ordered list of (final unit address, bytes) of the selected, clipped records"""
    sel = []
    for fi, f in enumerate(c['files']):
        for ri, r in enumerate(f):
            if c['filt'] is not None and r['cpu'] not in c['filt']:
                continue
            want_seg = SEGS.get(c['segname'], 1) if c['segname'] else 1
            if r['seg'] != want_seg:
                continue
            sel.append((r['start'] + c['offsets'][fi], r['n'], r['gran'], datas[fi][ri]))
    if not sel:
        return [], (None, None), []
    ws = c['ws'] if c['ws'] is not None else min(s for s, n, g, d in sel)
    we = c['we'] if c['we'] is not None else max(s + n - 1 for s, n, g, d in sel)
    groups = []
    unwindowed = []
    for s, n, g, d in sel:
        unwindowed.append((s, d))
        a, b = max(ws, s), min(we, s + n - 1)
        if b < a:
            continue
        chunk = d[(a - s) * g:(b - s + 1) * g]
        h = a
        if c['rel']:
            h -= ws
        h = (h + c['reloc']) & M32
        groups.append((h, chunk))
    return groups, (ws, we), unwindowed


def expected_map(c, groups):
    g = c['gran']
    m = {}
    mode = c['mode']
    for h, chunk in groups:
        for i, b in enumerate(chunk):
            k = i % g
            if mode >= 2 and k != mode - 2:
                continue
            m[(h + i // g, k)] = b
    return m


def expected_stream(c, groups):
    g = c['gran']
    mode = c['mode']
    out = bytearray()
    for h, chunk in groups:
        if mode >= 2:
            out += chunk[mode - 2::g]
        else:
            out += chunk
    return bytes(out)


# ---------------------------------------------------------------------------

def run_case(case, ctx):
    out = ctx.out
    rng = ctx.rng
    c = gen_case(rng)
    cls = c['cls']
    gran = c['gran']
    mode = c['mode']
    # ---- write the code files
    names = ['a.p', 'b.p']
    datas = []
    for fi, f in enumerate(c['files']):
        recs = []
        dl = []
        for r in f:
            d = payload(r)
            dl.append(d)
            recs.append(pfile.data(r['cpu'], r['start'], d, seg=r['seg'], gran=r['gran'], short=r['short']))
        if c['file_entry'] is not None and c.get('entry_file') == fi:
            recs.insert(rng.randrange(len(recs) + 1), pfile.entry(c['file_entry']))
            # keep dl aligned with data records only
        datas.append(dl)
        ctx.write(names[fi], pfile.build(recs))
    groups, (ws, we), unwindowed = model(c, datas)
    # ---- command line
    srcs = []
    for fi in range(len(c['files'])):
        s = rng.choice([names[fi], names[fi][:-2]])       # extension .p is added automatically
        if c['offsets'][fi]:
            s += '(%s)' % num(rng, c['offsets'][fi])
        srcs.append(s)
    if c['minimal']:
        argv = ['a'] + c['argv_opts']
        target = 'a.hex'
    else:
        tgt = rng.choice(['out.hex', 'out'])
        argv = srcs + [tgt] + c['argv_opts']
        target = 'out.hex'
    r = ctx.run('p2hex', argv, timeout=120)
    fmt_tag = cls if c['fmt'] != 'DEFAULT' else 'DEFAULT-' + cls
    K = 'hex:%s:' % cls
    ctxk = ''
    if gran > 1:
        ctxk += ':gran>1'
    if mode:
        ctxk += ':-m%d' % mode
    if c['segname'] and c['segname'] != 'code':
        ctxk += ':-segment'
    tag = 'p2hex %s  [records: %s]' % (' '.join(argv), '; '.join(
        ' '.join('%02x/seg%d/g%d@%x+%d%s' % (x['cpu'], x['seg'], x['gran'], x['start'], x['n'], '' if x['sel'] else '(unselected)') for x in f) for f in c['files']))
    out.sample = {'argv': argv, 'format': fmt_tag, 'gran': gran, 'zone': c['zone'],
                  'records': [[(hex(x['cpu']), x['seg'], x['gran'], hex(x['start']), x['n'], x['sel']) for x in f] for f in c['files']]}
    if r.timed_out:
        out.inconc('timeout')
        return
    if r.san:
        out.violate(r.san, tag + ': ' + r.err.decode('latin-1')[-700:])
        return
    segwin = bool(c['segname'] and c['segname'] != 'code' and (c['ws'] is not None or c['we'] is not None))
    SEGWIN_KEY = 'hex:-segment:-r-window-not-applied'
    if r.rc != 0 and segwin and 'range setting failed' in r.text():
        out.violate(SEGWIN_KEY, '%s: the -r window given on the command line admits %d bytes of segment %s, p2hex says: %s'
                    % (tag, sum(len(ch) for h, ch in groups), c['segname'], r.text()[-120:]))
        return
    if r.rc != 0:
        out.violate('p2hex:valid-invocation-fails:rc%s' % r.rc, '%s: exit status %s: %s' % (tag, r.rc, r.text()[-300:]))
        return
    text = ctx.read(target)
    if text is None:
        out.violate('p2hex:no-target-file', '%s: status 0 but %s was not written' % (tag, target))
        return
    text = text.decode('latin-1')
    stderr = r.err.decode('latin-1')
    out.obs['executions_decoded'] += 1
    out.sets['formats'].add(fmt_tag)
    out.sets['options'].update(c['onames'])
    out.sets['zones'].add(c['zone'])
    out.sets['families'].add('%02x' % c['hdr'])
    out.sets['granularities'].add(str(gran))

    # ---- decode under the requested (or documented default) format
    if cls == 'MOTO':
        d = hexfmt.decode_srec(text)
    elif cls in ('INTEL', 'INTEL16', 'INTEL32', 'INTELx'):
        d = hexfmt.decode_ihex(text, c['ivar'])
    elif cls == 'MOS':
        d = hexfmt.decode_mos(text)
    elif cls == 'TEK':
        d = hexfmt.decode_tek(text)
    elif cls == 'ATMEL':
        d = hexfmt.decode_atmel(text, c['avrlen'])
    else:
        d = hexfmt.decode_c(text)
    if c['fmt'] == 'DEFAULT' and any(k == 'syntax' for k, _ in d.issues):
        first = text.split('\n', 1)[0]
        out.violate('default-format:%02x:not-%s' % (c['hdr'], cls),
                    '%s: the manual makes %s the default format of family $%02x; the file starts with %r' % (tag, cls, c['hdr'], first[:40]))
        return
    if segwin:
        # data of a segment other than CODE under an explicit window: if the data bytes in the file are not those the window admits,
        # this is reported under one key, whatever else (missing end record of an empty file...) follows from it
        if cls == 'C':
            got = b''.join(b['data'] for b in (d.blocks or []) if b.get('data') is not None)
            nodata = 'd' not in c['cformat'].lower()
        else:
            got = b''.join(x.data for x in d.data_recs())
            nodata = False
        want = expected_stream(c, groups)
        if not nodata and len(got) != len(want):
            out.violate(SEGWIN_KEY, '%s: the -r window admits %d bytes of segment %s, the file carries %d' % (tag, len(want), c['segname'], len(got)))
            return
    seen = set()
    for kind, msg in d.issues:
        key = K + kind
        if key in seen:
            continue
        seen.add(key)
        out.violate(key, '%s: %s' % (tag, msg))
    for k in d.kinds:
        out.sets['record_kinds'].add('%s:%s' % (cls, k))
    if any(k in ('syntax', 'count') for k, _ in d.issues):
        return

    # ---- decoded lines -> (unit, byte-in-unit) map and data stream
    dec = {}
    dup = None
    split = None
    stream = bytearray()
    lines = []
    addressless = False
    maxline = c['linelen'] + (c['linelen'] & 1)
    longest = 0
    intel = cls in ('INTEL', 'INTEL16', 'INTEL32', 'INTELx')
    if cls == 'C':
        drecs = []
        addressless = False
        for b in d.blocks:
            if b['data'] is None:
                continue
            st = b['start']
            if st is None and b['end'] is not None:
                st = (b['end'] - len(b['data']) + 1) & M32       # "the last address used by the data"
            if st is None:
                addressless = True
                st = 0
            drecs.append((st, b['data']))
    else:
        drecs = [(x.addr, x.data) for x in d.data_recs()]
    recobjs = d.data_recs() if cls != 'C' else [None] * len(drecs)
    for (addr, data), ro in zip(drecs, recobjs):
        lines.append((addr, len(data)))
        longest = max(longest, len(data))
        if mode < 2 and len(data) % gran and split is None:
            split = addr
        if intel and mode < 2:
            for i, b in enumerate(data):
                A = ro.addr_of(i)
                u, k = A // gran, A % gran
                if mode == 1:
                    k = gran - 1 - k
                if (u, k) in dec and dup is None:
                    dup = A
                dec[(u, k)] = b
            if mode == 1 and gran > 1 and len(data) % gran == 0:
                for j in range(0, len(data), gran):
                    stream += bytes(reversed(data[j:j + gran]))
            else:
                stream += data
        elif intel:
            for i, b in enumerate(data):
                A = ro.addr_of(i)
                if (A, mode - 2) in dec and dup is None:
                    dup = A
                dec[(A, mode - 2)] = b
            stream += data
        else:
            for i, b in enumerate(data):
                key = ((addr + i // gran) & M32, i % gran)
                if key in dec and dup is None:
                    dup = addr
                dec[key] = b
            stream += data
    out.obs['data_lines_decoded'] += len(drecs)
    out.obs['data_bytes_decoded'] += len(stream)

    exp = expected_map(c, groups)
    exps = expected_stream(c, groups)
    if cls == 'C' and 'd' not in c['cformat'].lower():
        # descriptors without a data member: only start / length / end can be compared
        wantb = [(h, len(ch)) for h, ch in groups]
        gotb = [(b['start'], b['len'], b['end']) for b in d.blocks]
        okb = len(wantb) == len(gotb) and all((s is None or s == h) and (l is None or l == n) and (e is None or e == (h + n - 1) & M32)
                                              for (h, n), (s, l, e) in zip(wantb, gotb))
        if not okb:
            out.violate(K + 'descriptors-differ' + ctxk, '%s: descriptors (start, len, end) %s, selected blocks (start, len) %s' % (tag, gotb[:6], wantb[:6]))
        else:
            out.obs['descriptor_only_files_checked'] += 1
        check_c(c, d, out, K, tag, text, ctx)
        check_entry(c, d, out, K, tag, c['opt_entry'] if c['opt_entry'] is not None else c['file_entry'], False)
        out.nontrivial = bool(gotb)
        out.sig = (fmt_tag, gran, c['zone'], tuple(c['onames']), 'nodata', min(len(groups), 3))
        return
    scale = gran if (intel and mode < 2) else 1
    top = max((h + len(ch) // gran - 1) for h, ch in groups) if groups else 0
    beyond = (top * scale + scale - 1) > c['reach']
    # Intel16 "reaches 4 bits further" than 16 bit; $100000..$10FFEF can still be written as segment:offset (segment FFFF):
    # whether that counts as too long is not stated -> no warning is demanded there, the addresses are not judged
    must_warn = beyond and not (cls == 'INTEL16' and (top * scale + scale - 1) <= 0x10ffef)
    warned = ('address overflow' in stderr) or ('berlauf' in stderr)

    if cls == 'C' and addressless:
        # -cformat without start and end member: the descriptors carry no address, only the data can be compared
        if bytes(stream) != exps or [len(x[1]) for x in drecs] != [len(ch) for h, ch in groups]:
            out.violate(K + 'data-differs' + ctxk, '%s: blocks of %s bytes decoded, %s selected' % (tag, [len(x[1]) for x in drecs][:8], [len(ch) for h, ch in groups][:8]))
        else:
            out.obs['addressless_files_checked'] += 1
    elif beyond:
        out.obs['cases_beyond_reach'] += 1
        # manual: "Addresses that are too long for a given format will be reported by P2HEX with a warning;
        # afterwards, they will be truncated" -> only the warning and the conservation of the data bytes are demanded
        if must_warn and not warned:
            out.violate(K + 'no-overflow-warning', '%s: highest address written is $%x (reach of the format $%x) but no address overflow warning on stderr: %r'
                        % (tag, top * scale + scale - 1, c['reach'], stderr[-200:]))
        if bytes(stream) != exps:
            out.violate(K + 'beyond-reach:data-not-conserved' + ctxk, '%s: %d data bytes decoded, %d selected' % (tag, len(stream), len(exps)))
    else:
        if split is not None and dec != exp:
            out.violate(K + 'line-ends-inside-address-unit' + ctxk,
                        '%s: the line at $%x carries a number of bytes that is not a multiple of the granularity %d and the following addresses are wrong' % (tag, split, gran))
        elif segwin and c['rel'] and (dec != exp or dup is not None) and bytes(stream) == exps:
            # -a rebases to the start of the -r window; the right bytes at addresses that ignore the window given for this segment
            out.violate(SEGWIN_KEY, '%s: -a must rebase to the window start $%x of segment %s; first line decodes to $%x'
                        % (tag, ws, c['segname'], drecs[0][0] if drecs else -1))
        elif dec != exp or dup is not None:
            kind, msg = classify(c, groups, unwindowed, drecs, recobjs, stream, exps, dec, exp, dup, scale, intel)
            out.violate(K + kind + ctxk, '%s: %s' % (tag, msg))
        else:
            out.obs['maps_equal'] += 1
            out.obs['bytes_compared'] += len(exp)

    # ---- line length
    if cls not in ('ATMEL', 'C'):
        if longest > maxline:
            out.violate(K + 'line-longer-than--l', '%s: a line carries %d data bytes, -l %d allows at most %d' % (tag, longest, c['linelen'], maxline))
    elif cls == 'C':
        per = max([ln.count('0x') for ln in text.split('\n') if ln.startswith('  0x')] or [0])
        longest = per
        if per > maxline:
            out.violate(K + 'line-longer-than--l', '%s: a line carries %d array elements, -l %d allows at most %d' % (tag, per, c['linelen'], maxline))
    multi = len(drecs) > len(groups)

    # ---- format specific structure
    if cls == 'MOTO':
        check_moto(c, d, out, K, tag)
    if intel:
        check_intel(c, d, out, K, tag)
    if cls == 'C':
        check_c(c, d, out, K, tag, text, ctx)
    # ---- entry address (manual: -e, else the code file's entry, else none / 0 for Motorola)
    want_entry = c['opt_entry'] if c['opt_entry'] is not None else c['file_entry']
    check_entry(c, d, out, K, tag, want_entry, intel)

    out.nontrivial = bool(drecs)
    out.sig = (fmt_tag, gran, c['zone'], tuple(c['onames']), linelen_class(c['linelen']), min(len(groups), 3), multi)


def linelen_class(l):
    return 'default' if l == 16 else '<16' if l < 16 else '<=64' if l <= 64 else '>64'


def classify(c, groups, unwindowed, drecs, recobjs, stream, exps, dec, exp, dup, scale, intel):
    """name the KIND of disagreement between decoded and expected mapping"""
    gran = c['gran']
    mode = c['mode']
    if bytes(stream) == exps:
        # same bytes in the same order: the addresses are wrong.  Find the first line whose address differs.
        pos = 0
        starts = []          # expected hex address for every stream position at group starts
        for h, ch in groups:
            n = len(ch) if mode < 2 else len(ch) // gran
            starts.append((pos, h * scale, n))
            pos += n
        p = 0
        prev = None
        for (addr, data) in drecs:
            ea = None
            for s, h, n in starts:
                if s <= p < s + n:
                    if scale > 1 or gran == 1 or mode >= 2:
                        ea = h + (p - s)
                    else:
                        ea = h + (p - s) // gran
                    break
            if ea is not None and addr != ea:
                if addr == (ea & 0xffff):
                    k = 'address-truncated-to-16-bit'
                elif addr == (ea & 0xffffff):
                    k = 'address-truncated-to-24-bit'
                elif prev is not None and addr == prev:
                    k = 'address-does-not-advance'
                elif (ea - addr) % 0x10000 == 0:
                    k = 'address-off-by-multiple-of-64K'
                else:
                    k = 'address-wrong'
                return k, 'the data bytes are all there but a line that must be at $%x decodes to $%x (first of %d lines; %d groups expected)' % (ea, addr, len(drecs), len(groups))
            prev = addr
            p += len(data)
        if dup is not None:
            return 'address-written-twice', 'address $%x is written by two lines' % dup
        # same line start addresses but bytes inside a line land elsewhere (wrap inside a record)
        return 'address-wraps-inside-line', 'line start addresses agree but %d decoded addresses differ from the model (a line runs across the end of the addressable range of its record type)' % len(set(dec) ^ set(exp))
    # different bytes
    alt = b''.join(d for s, d in unwindowed) if mode < 2 else b''.join(d[mode - 2::gran] for s, d in unwindowed)
    if (c['ws'] is not None or c['we'] is not None) and bytes(stream) == alt and alt != exps:
        return 'window-ignored', 'the file holds all %d bytes of the selected records, the -r window $%x-$%x admits %d' % (
            len(stream), c['ws'] if c['ws'] is not None else -1, c['we'] if c['we'] is not None else -1, len(exps))
    if len(stream) < len(exps) and exps.startswith(bytes(stream)):
        return 'data-missing-at-end', '%d bytes decoded, %d expected (a prefix)' % (len(stream), len(exps))
    if len(stream) < len(exps):
        return 'data-missing', '%d bytes decoded, %d expected' % (len(stream), len(exps))
    if len(stream) > len(exps):
        return 'data-extra', '%d bytes decoded, %d expected' % (len(stream), len(exps))
    n = next(i for i, (x, y) in enumerate(zip(stream, exps)) if x != y)
    return 'data-wrong', 'same amount of data but byte %d of the stream is %02x, expected %02x' % (n, stream[n], exps[n])


def check_moto(c, d, out, K, tag):
    recs = d.recs
    if not recs:
        return
    if recs[0].typ != 'header':
        out.violate(K + 'no-S0-header', '%s: the file does not start with an S0 record' % tag)
    data = [r for r in recs if r.typ == 'data']
    terms = [r for r in recs if r.typ == 'term']
    if data and (len(terms) != 1 or recs[-1].typ != 'term'):
        out.violate(K + 'terminator', '%s: %d termination records, last record is %s' % (tag, len(terms), recs[-1].typ))
    # -M: "assures that S records with a minimum type of 2 resp. 3 will be used"
    for r in data:
        if r.width - 1 < c['minmoto']:
            out.violate(K + 'record-type-below--M', '%s: S%d record although -M %d' % (tag, r.width - 1, c['minmoto']))
            break
    # S5: "contains the number of data records (S1/S2/S3) to follow"; +5 suppresses it
    counts = [i for i, r in enumerate(recs) if r.typ == 'count']
    if not c['rec5']:
        if counts:
            out.violate(K + 'S5-despite-+5', '%s: S5 record written although +5 was given' % tag)
    else:
        if data and not counts:
            out.violate(K + 'S5-missing', '%s: no S5 record' % tag)
        for j, i in enumerate(counts):
            end = counts[j + 1] if j + 1 < len(counts) else len(recs)
            following = [r for r in recs[i + 1:end] if r.typ == 'data']
            out.obs['s5_groups_checked'] += 1
            if recs[i].addr != len(following):
                out.violate(K + 'S5-count', '%s: S5 record announces %d data records, %d follow' % (tag, recs[i].addr, len(following)))
                break
            # "records in one group will always be of the same type"
            if len({r.width for r in following}) > 1:
                out.violate(K + 'mixed-types-in-group', '%s: record types differ within one group' % tag)
                break
        first_data = next((i for i, r in enumerate(recs) if r.typ == 'data'), None)
        if counts and first_data is not None and counts[0] > first_data:
            out.violate(K + 'S5-count', '%s: data records precede the first S5 record' % tag)
    # terminator type corresponds to the widest data record type (S9<->S1, S8<->S2, S7<->S3)
    if data and len(terms) == 1:
        w = max(r.width for r in data)
        if terms[0].width != w:
            out.violate(K + 'terminator-type', '%s: termination record with %d address bytes, widest data record has %d' % (tag, terms[0].width, w))


def check_intel(c, d, out, K, tag):
    cls = c['cls']
    kinds = {r.typ for r in d.recs}
    if cls == 'INTEL':
        if 'ext' in kinds:
            out.violate(K + 'extended-address-record-in-8-bit-format', '%s: type 02/04 record in plain Intel format' % tag)
    for r in d.recs:
        if r.typ == 'ext':
            if cls == 'INTEL16' and r.mode != 'seg':
                out.violate(K + 'wrong-extension-record', '%s: type 04 record in Intel16 output' % tag)
                break
            if cls == 'INTEL32' and r.mode != 'lin':
                out.violate(K + 'wrong-extension-record', '%s: type 02 record in Intel32 output' % tag)
                break
    if c['ivar'] == 0:
        # manual: variant 0 is ':00000001FF' (with a start address in the 8-bit format the address field carries it)
        t = [r for r in d.recs if r.typ == 'term']
        if t and cls in ('INTEL16', 'INTEL32') and t[-1].addr != 0:
            out.violate(K + 'end-record', '%s: end record %s, expected :00000001FF' % (tag, t[-1].raw))


def check_entry(c, d, out, K, tag, want, intel):
    cls = c['cls']
    if cls in ('MOS', 'TEK', 'ATMEL'):
        return            # manual: -e "is valid for the DSK, Intel, and Motorola formats"
    if c['moving'] and want is not None:
        # whether -R / -a / a file offset also move the entry address is not stated: only presence is observed
        out.obs['entry_not_judged_moving'] += 1
        return
    if cls == 'MOTO':
        t = [r for r in d.recs if r.typ == 'term']
        if len(t) != 1:
            return
        got = t[0].addr
        if want is None:
            if got != 0:
                out.violate(K + 'entry-not-zero', '%s: no entry address given, termination record carries $%x (manual: 0)' % (tag, got))
            else:
                out.obs['entry_checked'] += 1
            return
        if want >= 1 << (8 * t[0].width):
            out.obs['entry_not_judged_too_wide'] += 1      # does not fit the record type in use: manual silent
            return
        if got != want:
            out.violate(K + 'entry-wrong', '%s: entry address $%x expected, termination record carries $%x' % (tag, want, got))
        else:
            out.obs['entry_checked'] += 1
        return
    if cls == 'C':
        # the manual names -e only for DSK, Intel and Motorola and does not describe an entry symbol of the C format: observed, not judged
        if d.entry is not None:
            out.obs['c_entry_define_seen'] += 1
        return
    # Intel
    if want is None:
        if d.entry is not None:
            out.violate(K + 'spurious-entry', '%s: no entry address given, file announces $%x (%s)' % (tag, d.entry, d.entry_kind))
        else:
            out.obs['entry_checked'] += 1
        return
    carriers = {'INTEL': ('eof',), 'INTEL16': ('03',), 'INTEL32': ('05',), 'INTELx': ('eof', '03', '05')}[cls]
    limit = {'eof': 0xffff, '03': 0xfffff, '05': M32}
    if want > (0xffff if cls == 'INTELx' else max(limit[k] for k in carriers)):
        # wider than the record that has to carry it (unknown variant for the default format): manual silent
        out.obs['entry_not_judged_too_wide'] += 1
        return
    if d.entry is None:
        if want == 0 and 'eof' in carriers:
            out.obs['entry_checked'] += 1      # a zero start address in the end record is the plain end record
            return
        if cls in ('INTEL', 'INTELx') and c['ivar'] != 0:
            out.obs['entry_not_judged_fixed_end_line'] += 1   # the -i 1/2 end lines have no address field / are given literally
            return
        out.violate(K + 'entry-missing', '%s: entry address $%x expected, none in the file' % (tag, want))
        return
    if d.entry_kind not in carriers:
        out.violate(K + 'entry-record-type', '%s: entry address announced by a %s record in %s output' % (tag, d.entry_kind, cls))
        return
    if want > limit[d.entry_kind]:
        out.obs['entry_not_judged_too_wide'] += 1
        return
    if d.entry != want:
        out.violate(K + 'entry-wrong', '%s: entry address $%x expected, file announces $%x (%s)' % (tag, want, d.entry, d.entry_kind))
    else:
        out.obs['entry_checked'] += 1


_GCC = shutil.which('gcc')
FIELD_TYPES = {'d': ('const char *', 'data'), 'D': ('const char *', 'data'), 's': ('unsigned', 'start'), 'S': ('unsigned long', 'start'),
               'l': ('unsigned', 'len'), 'L': ('unsigned long', 'len'), 'e': ('unsigned', 'end'), 'E': ('unsigned long', 'end')}


def check_c(c, d, out, K, tag, text, ctx):
    cf = c['cformat']
    # descriptor layout = the letters of -cformat in order (manual: "Each letter in format defines an element of the descriptor")
    want_fields = [FIELD_TYPES[ch] for ch in cf]
    got_fields = [(('const char *' if t.endswith('*') else t), n) for t, n in d.fields]      # "a pointer to the data": any pointer type
    if got_fields != want_fields:
        out.violate(K + 'descriptor-layout', '%s: descriptor members %s, -cformat %s asks for %s' % (tag, d.fields, cf, want_fields))
    for b in d.blocks:
        if b['data'] is not None and b['len'] is not None and b['len'] != len(b['data']):
            out.violate(K + 'len-field', '%s: block length %d but the array has %d elements' % (tag, b['len'], len(b['data'])))
            break
        n = b['len'] if b['len'] is not None else (len(b['data']) if b['data'] is not None else None)
        if b['start'] is not None and b['end'] is not None and n is not None and b['end'] != b['start'] + n - 1:
            out.violate(K + 'end-field', '%s: start $%x length %d but end $%x' % (tag, b['start'], n, b['end']))
            break
    # hex digit case follows d / D
    if 'd' in cf or 'D' in cf:
        lits = ''.join(x[2:] for a in d.arrays.values() for x in a[1])
        if ('d' in cf and lits != lits.lower()) or ('D' in cf and lits != lits.upper()):
            out.violate(K + 'hex-digit-case', '%s: array constants do not use the letter case -cformat %s asks for' % (tag, cf))
    # an ISO C compiler must accept the text (independent judge of "syntactically valid")
    if _GCC and ctx.idx % 2 == 0:
        ctx.write('cc/out.h', text)
        ctx.write('cc/m.c', '#include "out.h"\nint main(void) { return 0; }\n')
        env = {'PATH': '/usr/bin:/bin', 'LC_ALL': 'C'}
        import subprocess
        try:
            p = subprocess.run([_GCC, '-std=c99', '-fsyntax-only', '-w', 'm.c'], cwd=ctx.path('cc'), env=env,
                               stdout=subprocess.PIPE, stderr=subprocess.PIPE, timeout=120)
        except subprocess.TimeoutExpired:
            out.inconc('timeout')
            return
        out.obs['c_files_compiled'] += 1
        if p.returncode != 0:
            err = p.stderr.decode('latin-1')
            m = re.search(r'error: (.*)', err)
            kind = re.sub(r"['\"].*?['\"]", 'X', m.group(1))[:40].strip().replace(' ', '-') if m else 'rejected'
            out.violate(K + 'c-compiler-rejects:' + kind, '%s: gcc -std=c99 -fsyntax-only: %s' % (tag, err[:400]))
