"""C07 — PBIND conserves records and PLIST reports them truthfully.

One case = 1..4 code files written by vf/pfile.py (never by asl), one PBIND
run over them (with or without a -f list) and PLIST runs over PBIND's output
and over one of the inputs.

Oracle for PBIND (conservation law): the output, read by the independent
strict reader, must end in exactly one creator record and must otherwise be
the in-order concatenation of the inputs' data records whose family byte is
in the -f list (all of them without -f) plus the entry records, compared
field by field after normalising the header encoding (a short $01..$7f
record and a $81 record of segment CODE with the family's granularity are
the same record).

Oracle for PLIST (reference model from doc/utility-programs.md and
doc/file-formats.md): exactly one table row per record, in file order; a data
row must name the family of the record's header byte, its segment, start
address, length in bytes and last address (start + length/granularity - 1),
all hexadecimal; the entry row must show the entry address, the last row the
creator string; every segment that holds bytes must have a summary line whose
number is the sum of its record lengths.
"""
import collections

from .. import pfile
from ..model import bindlist as M

ID = 'C07'
LEVEL = 'exploration'
RULE = ('case = 1..4 pfile.py-written code files (family pool of 1..5 out of the 99 families of the manual table whose CODE granularity is known, '
        'segments 0..10, record granularity 1/2/4 independent of the family default (1/2/4), short and $81 headers, entry records, record lengths from {0, 1 unit, 255..257, 8191..8193 (PBIND copy buffer), 16384, '
        '65534, 65535} or random < 3000, start addresses over the whole 32-bit range) bound by PBIND without / with a -f list (1..9 headers in '
        '$hex, 0xhex, hexh or decimal spelling, possibly naming absent families), then listed by PLIST (output file and one input); '
        'non-trivial = at least one data record in the inputs; distinct = distinct (file count, filter class, set of '
        '(header kind, CODE/other segment, granularity, granularity = family default?) and set of length classes over all input records, entry records present)')
ASSUMPTIONS = ['vf/pfile.py reads and writes the code file format as defined in doc/file-formats.md',
               'granularity of segment CODE per processor family = the Gran byte asl itself writes for that family (recorded from the 201 golden programs; vf/model/bindlist.py CODE_GRAN)',
               'PLIST family names are compared with the manual table of header bytes by a spelling-tolerant relation (containment / x wildcards), not verbatim',
               'English message catalogue (LANG=C) for the words "byte(s)" in the PLIST summary']
MANIFEST = dict(
    category='exploration', design_ref='DESIGN.md §4 C07',
    technique='conservation-law monitor over PBIND executions (records of the inputs vs records of the output, independent strict reader) + reference-model monitor for every PLIST row and total',
    text='Held on the executions of this run: for generated sequences of 1..4 well-formed code files (mixed families, segments 0..10, record granularities 1/2/4 independent of the family default, short and long headers, '
         'entry records, record lengths 0..65535 incl. the 8 KiB copy-buffer boundary) PBIND exited 0 and wrote a well-formed file holding exactly the selected records, in order, '
         'with unchanged family, segment, granularity, start and payload; PLIST printed one row per record with the true family, segment, start, byte length and last address and '
         'per-segment totals equal to the sums of the record lengths.',
    note='Entry records under -f are accepted both copied and dropped (the manual does not say whether header $80 is subject to the list). Not generated because the manual is silent: '
         'empty creator strings, families outside the manual table, negated or repeated -f, wildcards, PLIST with several files or options, relocatable records ($82..$85).')
REGISTERED = True

QUICK_N, THOROUGH_N = 2000, 15000


def plan(tier, seed):
    n = QUICK_N if tier == 'quick' else THOROUGH_N
    return [{'n': i} for i in range(n)]


# ---------------------------------------------------------------------------
# generator

LEN_EDGE = [0, 0, 1, 1, 2, 3, 4, 8, 255, 256, 257, 8191, 8192, 8193, 16384]
LEN_BIG = [65534, 65535, 65535, 65532, 32768]
START_EDGE = [0, 0, 1, 0x10, 0x100, 0x7fff, 0x8000, 0xffff, 0x10000, 0xffffff, 0x7fffffff, 0x80000000, 0xfffffffe, 0xffffffff]


def len_class(n):
    if n == 0:
        return '0'
    if n < 256:
        return '<256'
    if n <= 8192:
        return '<=8K'
    if n < 65000:
        return '<65000'
    return '64K'


def gen_record(rng, pool, big_left):
    fam = rng.choice(pool)
    cg = M.CODE_GRAN[fam]
    # Gran is an explicit field of the $81 record (doc/file-formats.md) and the property demands that PBIND keeps it
    # and that PLIST computes the last address from it, whatever the family's usual unit is ("mixed ... granularities"):
    # every combination (family default 1/2/4) x (record granularity 1/2/4) x (segment 0..10) is generated.  asl itself
    # only writes the family's own granularity, so such files come from other producers - well-formed all the same.
    if rng.random() < 0.55:
        seg = 1
    else:
        # segments 0..10: 0..9 from the table of doc/file-formats.md, 10 = EEDATA (doc/assembler-usage.md segment
        # numbers, doc/pseudo-instructions.md SEGMENT; asl writes it for AVR and PIC16C8x)
        seg = rng.choice([0, 2, 3, 4, 5, 6, 7, 8, 9, 10, 10])
    if rng.random() < 0.5:
        gran = cg
    else:
        gran = rng.choice([1, 2, 4])
    # the short header implies segment CODE and the family's granularity: only such records can be written with it
    short = seg == 1 and gran == cg and rng.random() < 0.5
    r = rng.random()
    if big_left[0] > 0 and r < 0.08:
        n = rng.choice(LEN_BIG)
        big_left[0] -= 1
    elif r < 0.55:
        n = rng.choice(LEN_EDGE)
    else:
        n = rng.randrange(1, 3000)
    n -= n % gran                     # Length counts bytes and covers whole address units
    units = n // gran
    if rng.random() < 0.5:
        start = rng.choice(START_EDGE)
    elif rng.random() < 0.5:
        start = rng.randrange(0, 0x10000)
    else:
        start = rng.getrandbits(32)
    # the record must end inside the 32-bit address space (last address = start + units - 1)
    if units and start + units - 1 > 0xffffffff:
        start = 0x100000000 - units - rng.choice([0, 0, 1, 5])
    if rng.random() < 0.1:
        payload = bytes([rng.randrange(256)]) * n
    else:
        payload = rng.randbytes(n)
    return pfile.data(fam, start, payload, seg=seg, gran=gran, short=short)


WORD_FAMILIES = [f for f in M.FAMILIES if M.CODE_GRAN[f] != 1]

CREATORS = [b'AS 1.42/x86_64-Linux', b'BIND/C 1.42', b'x', b'AS 1.41r8/i386-unknown-msdos', b'some other tool (c) 1999']


def gen_file(rng, pool, big_left):
    nrec = rng.choice([0, 1, 1, 1, 2, 2, 3, 3, 4, 5, 6, 9, 14])
    recs = []
    for _ in range(nrec):
        if rng.random() < 0.12:
            recs.append(pfile.entry(rng.choice([0, 1, 0x100, 0xffff, 0x12345678, 0xffffffff, rng.getrandbits(32)])))
        else:
            recs.append(gen_record(rng, pool, big_left))
    # an empty creator string is never generated: the manual only says the string ends at the end of the file
    creator = rng.choice(CREATORS)
    return recs, creator


# ---------------------------------------------------------------------------
# monitors

def check_bind(out, inputs, flt, outbuf, tag):
    """conservation law; returns the records of the output or None"""
    try:
        got = M.read(outbuf)
    except pfile.FormatError as e:
        out.violate('pbind:output-malformed', '%s: the strict reader rejects PBIND\'s output: %s' % (tag, e))
        return None
    if not got or got[-1].kind != 'creator':
        out.violate('pbind:output-malformed', '%s: output does not end in a creator record' % tag)
        return None
    for r in got[:-1]:
        if r.kind not in ('data', 'entry'):
            out.violate('pbind:record-invented', '%s: output holds a %s record, the inputs hold none' % (tag, r.kind))
            return got
    full, data_only = M.bind_expected(inputs, flt)
    o = [M.norm(r) for r in got[:-1]]
    o_data = [x for x in o if x[0] == 'data']
    for r in got[:-1]:
        if r.kind == 'data':
            out.obs['records_in_outputs'] += 1
            out.sets['output_header_kinds'].add('short' if r.short else 'long')
    out.obs['records_expected'] += len(data_only)
    out.obs['bytes_compared'] += sum(len(x[5]) for x in data_only)
    if flt is None:
        exp, obs_seq, what = full, o, 'data and entry records'
    else:
        # the manual does not say whether the entry record (header $80) is subject to the -f list:
        # entry records are accepted copied (all, in place) or dropped (all)
        if any(x[0] == 'entry' for x in o):
            exp, obs_seq, what = full, o, 'selected data records and entry records'
        else:
            exp, obs_seq, what = data_only, o_data, 'selected data records'
    if obs_seq == exp:
        out.obs['bind_conserved'] += 1
        return got
    desc = '%s: expected %d %s, output holds %d; ' % (tag, len(exp), what, len(obs_seq))

    def show(x):
        if x[0] == 'entry':
            return 'entry %08x' % x[1]
        return 'family %02x seg %d gran %d start %08x len %d' % (x[1], x[2], x[3], x[4], len(x[5]))
    if flt is not None and exp and not obs_seq:
        out.violate('pbind:-f:selects-nothing', desc + 'first expected: ' + show(exp[0]))
    elif flt is not None and any(x[0] == 'data' and x[1] not in flt for x in obs_seq):
        bad = [x for x in obs_seq if x[0] == 'data' and x[1] not in flt][0]
        out.violate('pbind:-f:filtered-family-copied', desc + 'not selected but present: ' + show(bad))
    elif collections.Counter(obs_seq) == collections.Counter(exp):
        i = [a == b for a, b in zip(exp, obs_seq)].index(False)
        out.violate('pbind:records-reordered', desc + 'position %d expected %s, found %s' % (i, show(exp[i]), show(obs_seq[i])))
    elif len(obs_seq) < len(exp) and M.is_subsequence(obs_seq, exp):
        i = ([a == b for a, b in zip(exp, obs_seq)] + [False]).index(False)
        out.violate('pbind:record-lost:%s' % exp[i][0], desc + 'missing at position %d: %s' % (i, show(exp[i])))
    elif len(obs_seq) > len(exp) and M.is_subsequence(exp, obs_seq):
        i = ([a == b for a, b in zip(exp, obs_seq)] + [False]).index(False)
        out.violate('pbind:record-duplicated-or-invented', desc + 'extra at position %d: %s' % (i, show(obs_seq[i])))
    else:
        i = ([a == b for a, b in zip(exp, obs_seq)] + [False]).index(False)
        if i < len(exp) and i < len(obs_seq) and exp[i][0] == obs_seq[i][0] == 'data':
            f = M.first_altered_field(exp[i], obs_seq[i])
            out.violate('pbind:record-altered:%s' % f, desc + 'position %d expected %s, found %s' % (i, show(exp[i]), show(obs_seq[i])))
        elif i < len(exp) and i < len(obs_seq) and exp[i][0] == obs_seq[i][0] == 'entry':
            out.violate('pbind:record-altered:entry-address', desc + 'position %d expected %s, found %s' % (i, show(exp[i]), show(obs_seq[i])))
        else:
            out.violate('pbind:record-sequence-differs', desc + 'first difference at position %d' % i)
    return got


CPU_LIMIT_S = 5
SIGXCPU = 24


def run_tool(ctx, tool, args):
    """run a tool under a CPU-time limit (not a wall-clock limit: independent of the load of the machine).
    Both tools need milliseconds for the <1 MB files of this check; a process that burns 5 CPU seconds
    is looping.  Hangs are the subject of C03, here they only end the case as inconclusive."""
    return ctx.run('/bin/sh', ['-c', 'ulimit -t %d; exec "$0" "$@"' % CPU_LIMIT_S, ctx.bins[tool]] + list(args), timeout=120)


def gave_up(out, r):
    if r.timed_out:
        out.inconc('timeout')
        return True
    if r.sig == SIGXCPU:
        out.inconc('cpu-limit: the tool used more than %d s of CPU time' % CPU_LIMIT_S)
        out.obs['cpu_limit_hits'] += 1
        return True
    return False


def check_list(ctx, out, name, buf, arg, what):
    """run PLIST on file `arg` (contents `buf`) and compare every row and total with the reference"""
    recs = M.read(buf)
    r = run_tool(ctx, 'plist', [arg])
    tag = 'plist %s (%s)' % (arg, what)
    if gave_up(out, r):
        return
    if r.san:
        out.violate(r.san, '%s: %s' % (tag, r.err.decode('latin-1')[-800:]))
        return
    if r.rc != 0:
        out.violate('plist:exit-%s-on-wellformed-file' % r.rc, '%s: exit status %s: %s' % (tag, r.rc, r.err.decode('latin-1')[-300:]))
        return
    out.obs['plist_runs'] += 1
    text = r.out.decode('latin-1')
    lst = M.parse_listing(text)
    if not lst.ok:
        out.violate('plist:no-table', '%s: %s' % (tag, lst.why))
        return
    if len(lst.rows) != len(recs):
        out.violate('plist:row-count', '%s: %d records in the file, %d table rows' % (tag, len(recs), len(lst.rows)))
        return
    names = {}
    sums = collections.Counter()
    for i, (rec, row) in enumerate(zip(recs, lst.rows)):
        where = '%s row %d %r' % (tag, i, row.strip())
        if rec.kind == 'entry':
            tok = row.split()
            if not tok or tok[-1].upper() != '%08X' % rec.entry:
                out.violate('plist:entry-row', '%s: entry record %08X' % (where, rec.entry))
            elif M.parse_data_row(row):
                out.violate('plist:entry-row', '%s: entry record shown as a data row' % where)
            else:
                out.obs['plist_entry_rows_checked'] += 1
            continue
        if rec.kind == 'creator':
            c = rec.creator.decode('latin-1')
            if not row.rstrip('\r').endswith(c) or M.parse_data_row(row):
                out.violate('plist:creator-row', '%s: creator string %r' % (where, c))
            else:
                out.obs['plist_creator_rows_checked'] += 1
            continue
        sums[rec.seg] += len(rec.data)
        d = M.parse_data_row(row)
        enc = 'short-record' if rec.short else 'long-record'
        if d is None:
            out.violate('plist:data-row-unreadable', '%s: not <type> <segment> <start> <length> <end>' % where)
            continue
        out.obs['plist_data_rows_checked'] += 1
        out.sets['plist_segments'].add(d['segment'])
        out.sets['plist_families'].add('%02x=%s' % (rec.cpu, d['family']))
        if not M.family_name_ok(rec.cpu, d['family']):
            out.violate('plist:family-column', '%s: header byte $%02x is family %r in the manual' % (where, rec.cpu, M.MANUAL_FAMILIES[rec.cpu]))
        elif names.setdefault(d['family'], rec.cpu) != rec.cpu:
            out.violate('plist:family-column', '%s: the same name is printed for header bytes $%02x and $%02x' % (where, names[d['family']], rec.cpu))
        if not M.segment_name_ok(rec.seg, d['segment']):
            out.violate('plist:segment-column', '%s: record is in segment %d (%s)' % (where, rec.seg, '/'.join(M.SEGMENTS[rec.seg]) or '<undefined>'))
        if d['start'] != rec.start:
            out.violate('plist:start-column', '%s: record starts at %08X' % (where, rec.start))
        if d['length'] != len(rec.data):
            out.violate('plist:length-column', '%s: record holds %d bytes' % (where, len(rec.data)))
        if rec.data:
            last = rec.start + len(rec.data) // rec.gran - 1
        elif rec.start > 0:
            last = rec.start - 1        # manual: "calculated as start address+length-1"
        else:
            last = None                 # start 0, length 0: the manual's formula has no 32-bit value
        if last is not None and last > 0xffffffff:
            last = None                 # never generated; only met in a PBIND output that was already reported as altered
        if last is not None and d['end'] != last:
            out.violate('plist:end-address:%s' % enc, '%s: family $%02x segment %d granularity %d start %08X length %d -> last address %08X'
                        % (where, rec.cpu, rec.seg, rec.gran, rec.start, len(rec.data), last))
    # totals
    printed = {}
    for num, seg in lst.totals:
        printed.setdefault(M.segment_of_name(seg), num)
    for seg in sorted(set(sums) | set(printed)):
        want = sums.get(seg, 0)
        num = printed.get(seg)
        sname = M.SEGMENTS[seg][0] if M.SEGMENTS[seg] else '<undefined> (0)'
        if num is None:
            if want:
                out.violate('plist:total-missing', '%s: no summary line for the %d bytes of segment %s; summary: %r' % (tag, want, sname, lst.totals))
            continue
        if not num.isdigit():
            out.violate('plist:total-not-a-number', '%s: summary line for segment %s shows %r instead of %d' % (tag, sname, num, want))
        elif int(num) != want:
            out.violate('plist:total-wrong', '%s: summary says %s bytes %s, the records hold %d' % (tag, num, sname, want))
        else:
            out.obs['plist_totals_checked'] += 1


def run_case(case, ctx):
    out = ctx.out
    rng = ctx.rng
    nfiles = rng.choice([1, 1, 2, 2, 3, 4])
    pool = rng.sample(M.FAMILIES, rng.choice([1, 2, 2, 3, 4, 5]))
    if rng.random() < 0.6:
        # three quarters of the families are byte-addressed: make sure word-addressed ones take part
        pool[rng.randrange(len(pool))] = rng.choice(WORD_FAMILIES)
        pool = sorted(set(pool))
    big_left = [2]
    files = []
    for i in range(nfiles):
        recs, creator = gen_file(rng, pool, big_left)
        name = 'in%d.p' % i
        buf = pfile.build(recs, creator=creator)
        ctx.write(name, buf)
        files.append((name, buf))
    order = list(range(nfiles))
    if nfiles < 4 and rng.random() < 0.1:
        order.append(rng.randrange(nfiles))          # the same source named twice
    inputs = [M.read(files[i][1]) for i in order]
    # ---- filter
    flt = None
    fargs = []
    fclass = 'none'
    if rng.random() < 0.55:
        present = sorted({r.cpu for recs in inputs for r in recs if r.kind == 'data'})
        k = rng.random()
        if present and k < 0.6:
            sel = rng.sample(present, rng.randrange(1, len(present) + 1))
            fclass = 'all-present' if len(sel) == len(present) else 'subset'
        elif k < 0.85 or not present:
            sel = rng.sample(M.FAMILIES, rng.randrange(1, 4))
            sel = [x for x in sel if x not in present] or [0x7f if 0x7f not in present else 0x01]
            sel = [x for x in sel if x not in present]
            fclass = 'absent-only' if sel else 'none'
        else:
            sel = rng.sample(present, rng.randrange(1, len(present) + 1)) + rng.sample(M.FAMILIES, rng.randrange(1, 4))
            fclass = 'mixed'
        if sel:
            if rng.random() < 0.15:
                sel.append(sel[0])                   # a header named twice
            rng.shuffle(sel)
            flt = set(sel)
            fargs = ['-f', ','.join(M.number_spelling(rng, v) for v in sel)]
            if len(flt) >= 2 and rng.random() < 0.35:
                # the list built up by several -f options, and headers retracted again with the negated option +f
                # (utility-programs.md: options of the tools can be negated as with AS; assembler-usage.md: the negation of a
                # list-valued option with a name erases this name from the list).  Never retracts the whole list.
                cut = rng.randrange(1, len(sel))
                fargs = ['-f', ','.join(M.number_spelling(rng, v) for v in sel[:cut]), '-f', ','.join(M.number_spelling(rng, v) for v in sel[cut:])]
                if rng.random() < 0.7:
                    uniq = sorted(flt)
                    gone = rng.sample(uniq, rng.randrange(1, len(uniq)))
                    fargs += ['+f', ','.join(M.number_spelling(rng, v) for v in gone)]
                    flt -= set(gone)
                    fclass += '+retracted'
                else:
                    fclass += '+split'
    quiet = rng.random() < 0.5
    target = rng.choice(['out.p', 'out.p', 'out', 'bound.p'])
    tfile = target if '.' in target else target + '.p'
    opts = fargs + (['-q'] if quiet else [])
    srcs = [files[i][0] for i in order]
    if rng.random() < 0.2:
        argv = opts + srcs + [target]
    else:
        argv = srcs + [target] + opts
    tag = 'pbind ' + ' '.join(argv)
    all_recs = [r for recs in inputs for r in recs]
    kinds = sorted({('short' if r.short else 'long', 'code' if r.seg == 1 else 'other', r.gran, r.gran == M.CODE_GRAN[r.cpu]) for r in all_recs if r.kind == 'data'})
    lens = sorted({len_class(len(r.data)) for r in all_recs if r.kind == 'data'})
    has_entry = any(r.kind == 'entry' for r in all_recs)
    out.sample = {'cmd': argv, 'files': [[repr(r) for r in recs[:6]] for recs in inputs][:3]}
    out.sig = (len(order), fclass, kinds, lens, has_entry)
    out.nontrivial = any(r.kind == 'data' for r in all_recs)
    for r in all_recs:
        if r.kind == 'data':
            out.obs['records_in_inputs'] += 1
            out.sets['input_header_kinds'].add('short' if r.short else 'long')
            out.sets['segments'].add(r.seg)
            out.sets['granularities'].add(r.gran)
            out.sets['family_gran/record_gran/segment'].add('%d/%d/%d' % (M.CODE_GRAN[r.cpu], r.gran, r.seg))
            out.sets['length_classes'].add(len_class(len(r.data)))
            out.sets['families'].add('%02x' % r.cpu)
        elif r.kind == 'entry':
            out.obs['entry_records_in_inputs'] += 1
    out.sets['filter_classes'].add(fclass)
    out.sets['file_counts'].add(len(order))
    # ---- PBIND
    r = run_tool(ctx, 'pbind', argv)
    if gave_up(out, r):
        return
    if r.san:
        out.violate(r.san, '%s: %s' % (tag, r.err.decode('latin-1')[-800:]))
        return
    out.obs['pbind_runs'] += 1
    out.sets['pbind_status'].add(str(r.rc))
    if r.rc != 0:
        out.violate('pbind:exit-%s-on-wellformed-input' % r.rc, '%s: exit status %s, stderr: %s' % (tag, r.rc, r.err.decode('latin-1')[-300:].strip()))
        return
    outbuf = ctx.read(tfile)
    if outbuf is None:
        out.violate('pbind:no-target-file', '%s: exit status 0 but %s does not exist' % (tag, tfile))
        return
    for name, buf in files:
        if ctx.read(name) != buf:
            out.violate('pbind:source-modified', '%s: source file %s was changed' % (tag, name))
    got = check_bind(out, inputs, flt, outbuf, tag)
    # ---- PLIST
    if got is not None:
        # manual: "The file name will automatically be extended with the extension P if it doesn't already have one"
        arg = tfile[:-2] if rng.random() < 0.2 else tfile
        check_list(ctx, out, tfile, outbuf, arg, 'output of ' + tag)
    i = rng.randrange(nfiles)
    check_list(ctx, out, files[i][0], files[i][1], files[i][0], 'generated input')
