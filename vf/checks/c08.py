"""C08 — expressions and constants evaluate to their documented mathematical value.

Oracle: vf/model/expr.py, an evaluator written from the manual's operator/function/notation
tables.  Every generated expression is laid down by the real assembler as data
(`dc.q` integers, `dc.d` doubles, `dc.b` strings, each in its own 64-byte slot on a 68000
target) and read back from the code file with the independent reader vf/pfile.py; the bytes
must equal the model's value (libm results within a tolerance).  Expressions the manual
defines as errors (division by zero, arguments outside a function's domain, operand types the
tables exclude) must draw an error message on their own line.  Values routed through
user-defined FUNCTIONs (int/float/string arguments, nested calls, arguments used several times)
are laid down next to the same formula written inline and must match it, and the model, bit for bit.  A disagreement is localised by
re-assembling every sub-expression of the failing tree, and is keyed by the innermost operator
or function that disagrees plus the sign/type class of its operands.
"""
import hashlib
import re
import struct

from .. import asl, pfile
from ..model import expr as E
from ..model import exprgen as G

ID = 'C08'
LEVEL = 'exploration'
REGISTERED = True
RULE = ('case = one generated source file; kinds: tree (random expression trees up to depth 6 over the manual\'s operator and function '
        'tables with boundary operands, each assembled fully bracketed and with only the brackets the rank table requires), func '
        '(bit/string/numeric functions over boundary arguments), ufunc (values routed through user-defined FUNCTIONs next to the same formula written inline), notation (integer constants in every enabled notation x RADIX 2..36 x '
        'INTSYNTAX/RELAXED on 8 targets), error (expressions the manual defines as errors), lex (documented constant spellings inside a '
        'formula); distinct = distinct expression text (notation: distinct (target, switches, radix, notation, token)); non-trivial = the '
        'expression contains at least one operator or function / the constant is not a plain decimal number')
ASSUMPTIONS = ['doc/assembler-usage.md (Formula Expressions) and doc/pseudo-instructions.md (RADIX, INTSYNTAX, RELAXED) are the specification; '
               'cases the manual leaves open are not generated (vf/model/expr.py raises Silent for each of them)',
               'DC.Q / DC.D / DC.B on the 68000 target lay down big-endian two\'s-complement, IEEE-754 double and character bytes of their argument',
               'libm results (transcendental functions, float power) are compared with a relative/absolute tolerance of 1e-9 and never fed into further operators',
               'vf/pfile.py reads the code file correctly (checked on its own by C04)']
MANIFEST = dict(
    category='exploration', design_ref='DESIGN.md §4 C08',
    technique='reference-model monitor: independent evaluator written from the manual; values observed bit-exactly through data words in the code file; '
              'failing trees are localised to the innermost disagreeing operator by re-assembling all sub-expressions',
    text='Held on the executions of this run: random expression trees to depth 6 (fully bracketed and minimally bracketed renderings), all bit/string '
         'functions over boundary arguments, integer constants in every enabled notation for RADIX 2..36 under INTSYNTAX/RELAXED settings on 8 targets, '
         'values routed through user-defined FUNCTIONs next to the same formula written inline, and expressions the manual defines as errors; every value laid down by asl equalled the model\'s, every undefined or ill-typed operation drew an error.',
    note='Not generated because the manual is silent: shift counts outside 0..63, integer power with negative exponent, 0^0, remainder sign for negative '
         'operands, collating order of strings (only order-independent relations), integer constants above 2^63-1, string+number, INT of negative '
         'fractions and its result type, monadic minus on non-constants, float overflow/denormals, parameter names inside string constants or VAL texts of a FUNCTION formula.')

SLOT = 64
BASE = 0x1000
ERR_RE = re.compile(r'^> > > (\S+?)\((\d+)\)(?: \S+\(\d+\))*(?::\d+)?: (error|warning|fatal error)(?: #(\d+))?: ?(.*)$', re.M)

TREES_PER_CASE = 250


def plan(tier, seed):
    if tier == 'quick':
        n = {'tree': 90, 'func': 14, 'notation': 50, 'error': 12, 'lex': 2, 'ufunc': 10}
    else:
        n = {'tree': 2400, 'func': 160, 'notation': 700, 'error': 120, 'lex': 4, 'ufunc': 200}
    cases = []
    for kind in ('tree', 'func', 'notation', 'error', 'lex', 'ufunc'):
        cases += [{'kind': kind} for _ in range(n[kind])]
    return cases


# ---------------------------------------------------------------------------
# observation

class Item:
    """one expression to be observed: text, expected value, how to judge"""
    __slots__ = ('text', 'val', 'approx', 'node', 'form', 'status', 'got', 'detail', 'tag', 'raw', 'strict')

    def __init__(self, text, val, approx=False, node=None, form='full', tag=None, strict=False):
        self.text = text
        self.val = val
        self.approx = approx
        self.node = node
        self.form = form
        self.tag = tag
        self.raw = None
        self.strict = strict      # floats: the sign of zero counts as well
        self.status = None      # 'ok' | 'value' | 'type' | 'rejected' | 'crash' | 'unobserved'
        self.got = None
        self.detail = ''


HEADER = ['\tcpu\t68000', '\tpadding\toff']


def build_source(items, prologue):
    """returns (text, line number (1-based) -> item index)"""
    lines = list(prologue)
    lmap = {}
    for i, it in enumerate(items):
        lines.append('\torg\t%d' % (BASE + SLOT * i))
        t = it.val[0]
        if t == 'i':
            lines.append('\tdc.q\t' + it.text)
            lmap[len(lines)] = i
        elif t == 'f':
            lines.append('\tdc.d\t' + it.text)
            lmap[len(lines)] = i
            lines.append('\tdc.b\texprtype(%s)' % it.text)
            lmap[len(lines)] = i
        else:
            lines.append('\tdc.b\texprtype(%s)' % it.text)
            lmap[len(lines)] = i
            lines.append('\tdc.b\t' + it.text)
            lmap[len(lines)] = i
    return '\n'.join(lines) + '\n', lmap


class Abort(Exception):
    pass


def run_asl(ctx, name, text, env=None):
    ctx.write(name, text)
    a = asl.assemble(ctx, name, ['-n'], out=name[:-4] + '.p', timeout=120, env=env)
    if a.run.timed_out:
        ctx.out.inconc('timeout')
        raise Abort()
    return a


def slot_bytes(img, i):
    base = BASE + SLOT * i
    out = bytearray()
    for k in range(SLOT):
        b = img.get(base + k)
        if b is None:
            break
        out.append(b)
    return bytes(out)


def judge(it, data):
    """compare the bytes found in the slot with the model value"""
    t, v = it.val
    it.raw = data
    if t == 'i':
        if len(data) != 8:
            it.status, it.detail = 'type', 'expected 8 bytes of an integer, slot holds %d bytes %s' % (len(data), data[:24].hex())
            return
        got = struct.unpack('>q', data)[0]
        it.got = ('i', got)
        it.status = 'ok' if got == v else 'value'
        return
    if t == 'f':
        if len(data) != 9:
            it.status, it.detail = 'type', 'expected 8 bytes of a double + type byte, slot holds %d bytes %s' % (len(data), data[:24].hex())
            return
        got = struct.unpack('>d', data[:8])[0]
        it.got = ('f', got)
        if data[8] != 1:
            it.status, it.detail = 'type', 'EXPRTYPE says %d, expected 1 (float)' % data[8]
            return
        if got != got or got in (float('inf'), float('-inf')):
            it.status = 'value'
        elif it.approx:
            it.status = 'ok' if abs(got - v) <= 1e-9 * max(1.0, abs(v)) else 'value'
        else:
            # +0.0 == -0.0 unless the case asks for the bit pattern
            same = got == v and (not it.strict or struct.pack('>d', got) == struct.pack('>d', v))
            it.status = 'ok' if same else 'value'
        return
    if len(data) < 1:
        it.status, it.detail = 'type', 'empty slot'
        return
    it.got = ('s', data[1:])
    if data[0] != 2:
        it.status, it.detail = 'type', 'EXPRTYPE says %d, expected 2 (string)' % data[0]
    else:
        it.status = 'ok' if data[1:] == v else 'value'


FAST_ENV = {'ASAN_OPTIONS': 'detect_leaks=0:exitcode=99:symbolize=0:allocator_may_return_null=1:handle_abort=1'}
MAX_RUNS_PER_CASE = 900


def died(run):
    return bool(run.san or run.sig is not None or run.rc not in (0, 2))


def observe(ctx, items, prologue, name):
    """assemble, read back, fill .status of every item.
    - lines that draw an error are marked 'rejected' and the rest is assembled again (errors
      suppress the whole code file);
    - if asl dies, the file is split into 8 parts which are observed on their own, down to
      single expressions (status 'crash'): every expression gets a verdict, the number of
      executions is bounded by ~1.2 x expressions + 25 x crashing expressions."""
    out = ctx.out
    if not items:
        return
    if out.execs > MAX_RUNS_PER_CASE:
        for it in items:
            it.status = 'unobserved'
        out.inconc('execution budget of the case exhausted')
        return
    text, lmap = build_source(items, prologue)
    single = len(items) == 1
    a = run_asl(ctx, name + '.asm', text, env=None if single else FAST_ENV)
    if died(a.run):
        if single:
            items[0].status = 'crash'
            items[0].detail = a.run.san or ('crash:signal-%s' % a.run.sig if a.run.sig else 'crash:exit-status-%s' % a.run.rc)
            return
        step = max(1, (len(items) + 7) // 8)
        for k in range(0, len(items), step):
            observe(ctx, items[k:k + step], prologue, name)
        return
    errs = {}
    for m in ERR_RE.finditer(a.run.err.decode('latin-1') + a.run.out.decode('latin-1')):
        if m.group(3) == 'warning':
            continue
        ln = int(m.group(2))
        if ln in lmap:
            errs.setdefault(lmap[ln], []).append((m.group(4), m.group(5)))
            if m.group(4):
                out.sets['error_numbers_on_valid_lines'].add(m.group(4))
        else:
            errs.setdefault(-1, []).append((m.group(4), '%s: %s' % (ln, m.group(5))))
    if -1 in errs:
        for it in items:
            it.status = 'unobserved'
        out.inconc('harness: error outside the observed lines: %s' % errs[-1][:3])
        raise Abort()
    if errs:
        for k, lst in errs.items():
            items[k].status = 'rejected'
            items[k].detail = '; '.join('#%s %s' % e for e in lst[:2])
        if a.p is not None:
            out.violate('code-file-despite-errors', 'asl reported errors and still wrote a code file')
        observe(ctx, [it for k, it in enumerate(items) if k not in errs], prologue, name)
        return
    if a.p is None or a.run.rc != 0:
        for it in items:
            it.status = 'unobserved'
        out.violate('no-code-file-without-error', 'asl exit %s without an error line and without code file: %s'
                    % (a.run.rc, a.run.err.decode('latin-1')[-300:]))
        return
    try:
        recs = pfile.parse(a.p)
    except pfile.FormatError as e:
        out.inconc('harness: code file unreadable: %s' % e)
        raise Abort()
    img = {}
    for m in pfile.image(recs).values():
        img.update(m)
    for k, it in enumerate(items):
        judge(it, slot_bytes(img, k))


# ---------------------------------------------------------------------------
# keys

def tclasses(kids, fn=E.vclass):
    return ','.join(fn(k.val) for k in kids)


def coerced_classes(n):
    """operand classes as the operator sees them: a character constant used where only an
    integer is allowed counts as that integer (keeps the key of one defect in one piece)"""
    vals = [k.val for k in n.kids]
    strings = [v[0] == 's' for v in vals]
    keep_strings = n.kind == 'bin' and (n.op == '+' or n.op in E.CMP_OPS) and all(strings)
    out = []
    for v in vals:
        if v[0] == 's' and not keep_strings and 1 <= len(v[1]) <= 4:
            v = ('i', E.str2int(v[1]))
        out.append(E.vclass(v))
    return ','.join(out)


def arg_class(v):
    """class of an actual argument of a user-defined function: type, and for strings whether
    characters are present that need an escape when the value is turned back into text"""
    if v[0] != 's':
        return v[0]
    c = 's'
    if any(b < 32 or b == 127 for b in v[1]):
        c += '-ctrl'
    if any(b > 127 for b in v[1]):
        c += '-high'
    if any(b in b'"\'\\' for b in v[1]):
        c += '-quote'
    return c


def arg_classes(kids):
    """the kinds of actual arguments present (a set, and only the strings that need escapes if there are any: keeps the number of keys small)"""
    cls = set(arg_class(k.val) for k in kids)
    special = set(c.replace('-quote', '') for c in cls if '-ctrl' in c or '-high' in c)
    if special and 'f' in cls:
        special.add('f')          # a float argument is text of 17 digits: never left out of the key
    return '+'.join(sorted(special or cls))


def pos_class(pos, n):
    if pos < 0:
        return 'neg-big' if pos < -(1 << 31) else 'neg'
    if pos >= 1 << 31:
        return 'huge'
    if pos < n:
        return 'inside'
    return 'at-end' if pos == n else 'past-end'


def crash_class(san):
    """coarse, stable class of a sanitiser/crash key (the fine text contains addresses)"""
    kind = (san or 'crash:?').split(':')[1]
    if kind in ('SEGV', 'BUS', 'unknown-crash') or 'overflow' in kind or 'use-after' in kind or kind.startswith('ubsan-pointer') \
            or kind.startswith('ubsan-index') or kind.startswith('signal-11'):
        return 'memory'
    if kind in ('FPE', 'signal-8') or kind.startswith('ubsan-division'):
        return 'FPE'
    return '-'.join(kind.split('-')[:3])


def node_key(n, status, detail=None):
    """stable name of the kind of disagreement at node n"""
    what = {'value': 'value', 'type': 'type', 'rejected': 'rejected', 'crash': 'crash'}[status]
    if what == 'crash':
        return 'crash:%s:%s' % (n.op if n.kind in ('bin', 'un', 'call') else ('user-function' if n.kind == 'ucall' else n.kind), crash_class(detail))
    if n.kind == 'lit':
        t = n.val[0]
        if t == 'i':
            c = n.text.lstrip('(-')[:1]
            kind = {'$': 'hex', '%': 'bin', '@': 'oct'}.get(c, 'dec')
            if n.text.startswith('(-'):
                kind = 'negative-' + kind
        elif t == 'f':
            kind = 'float'
        else:
            kind = 'string' + ('-high-char' if any(c > 127 for c in n.val[1]) else '')
        return '%s:constant:%s' % (what, kind)
    if n.kind == 'sym':
        return '%s:symbol:%s' % (what, n.val[0])
    if n.kind == 'tri':
        return '%s:string-order:%s' % (what, '/'.join(n.op))
    if n.kind == 'ucall':
        return '%s:user-function:%s' % (what, arg_classes(n.kids))
    if n.kind in ('un', 'bin'):
        return '%s:%s:%s' % (what, n.op, coerced_classes(n) if what == 'value' else tclasses(n.kids, E.vtype))
    # call
    if what != 'value':
        return '%s:%s:%s' % (what, n.op, tclasses(n.kids, E.vtype))
    if n.op == 'SUBSTR':
        s, p, c = [k.val for k in n.kids]
        return 'value:SUBSTR:start-%s,count-%s' % (pos_class(p[1], len(s[1])), 'zero' if c[1] == 0 else ('huge' if c[1] >= 1 << 31 else 'pos'))
    if n.op == 'CHARFROMSTR':
        s, p = [k.val for k in n.kids]
        cls = pos_class(p[1], len(s[1]))
        if cls == 'inside' and s[1][p[1]] > 127:
            cls = 'inside-high-char'
        return 'value:CHARFROMSTR:pos-%s' % cls
    return 'value:%s:%s' % (n.op, tclasses(n.kids))


def describe(it):
    exp = it.val[1]
    got = it.got[1] if it.got else None
    if it.status == 'rejected':
        return '`%s` is rejected (%s); the manual defines the value %r' % (it.text, it.detail, exp)
    if it.status == 'crash':
        return '`%s` kills asl (%s); the manual defines the value %r' % (it.text, it.detail, exp)
    if it.status == 'type':
        return '`%s`: %s; expected %r' % (it.text, it.detail, exp)
    return '`%s` = %r, the manual defines %r' % (it.text, got, exp)


# ---------------------------------------------------------------------------
# localisation of a failing tree

def localise(ctx, failing, prologue):
    """failing: items (with node) whose observation disagreed.  Re-assembles every
    sub-expression; reports the innermost disagreeing nodes."""
    out = ctx.out
    nodes = {}
    for it in failing:
        for s in it.node.subtrees():
            nodes.setdefault(E.render(s, 'full'), s)
    texts = sorted(nodes, key=len)[:900]
    sub_items = {t: Item(t, nodes[t].val, nodes[t].approx, nodes[t], 'full') for t in texts}
    lst = list(sub_items.values())
    observe(ctx, lst, prologue, 'loc')
    out.obs['localisation_subexpressions'] += len(lst)

    def st(n):
        it = sub_items.get(E.render(n, 'full'))
        return it.status if it else 'unobserved'

    reported = 0
    for it in failing:
        minimal = []
        for s in it.node.subtrees():
            if st(s) in ('value', 'type', 'rejected', 'crash') and all(st(k) == 'ok' for k in s.kids):
                minimal.append(s)
        if minimal:
            for s in minimal:
                w = sub_items[E.render(s, 'full')]
                out.violate(node_key(s, w.status, w.detail), describe(w) + ('   [found inside `%s`]' % it.text if w.text != it.text else ''))
                reported += 1
            continue
        if st(it.node) == 'ok' and it.form != 'full':
            # the fully bracketed rendering agrees, the minimally bracketed one does not: grouping
            key, msg = localise_grouping(ctx, it, prologue)
            out.violate(key, msg)
            reported += 1
            continue
        if any(st(s) == 'unobserved' for s in it.node.subtrees()):
            out.obs['not_localised_because_unobserved'] += 1
            continue
        out.violate('unlocalised:%s' % it.status, describe(it) + ' — but every sub-expression assembled on its own agrees with the model')
    return reported


def localise_grouping(ctx, it, prologue):
    form = it.form
    cands = [s for s in it.node.subtrees() if s.kind in ('bin', 'un', 'tri', 'call')]
    items = [Item(E.render(s, form), s.val, s.approx, s, form) for s in cands]
    observe(ctx, items, prologue, 'grp')
    bad = {id(x.node): x for x in items if x.status not in ('ok', 'unobserved')}
    for x in sorted(bad.values(), key=lambda x: x.node.size):
        if all(id(k) not in bad for s in x.node.kids for k in s.subtrees()):
            n = x.node
            ops = [(k.op if k.kind in ('bin', 'un') else '_') for k in n.kids]
            return ('grouping:%s:%s' % (n.op, ','.join(str(o) for o in ops)),
                    'with only the brackets the rank table requires, %s   (fully bracketed: `%s` agrees)' % (describe(x), E.render(n, 'full')))
    return 'grouping:unlocalised', describe(it)


# ---------------------------------------------------------------------------
# case kinds

def sig_of(text):
    return hashlib.sha1(text.encode('latin-1')).hexdigest()[:12]


def finish_items(ctx, items, prologue, localisable=True):
    out = ctx.out
    bad = [it for it in items if it.status not in ('ok', 'unobserved')]
    for it in items:
        if it.status == 'ok':
            out.obs['expressions_agreeing'] += 1
        elif it.status == 'unobserved':
            out.obs['expressions_unobserved'] += 1
    out.obs['expressions_disagreeing'] += len(bad)
    if not bad:
        return
    if localisable:
        # bounded: the first 40 failing lines of a file are localised, the rest only counted
        localise(ctx, bad[:40], prologue)
    else:
        for it in bad:
            out.violate(it.tag, describe(it))


def record_reach(out, node):
    for s in node.subtrees():
        if s.kind in ('bin', 'un'):
            out.sets['operators'].add(s.op)
            out.sets['operand_classes'].add('%s:%s' % (s.op, tclasses(s.kids)))
        elif s.kind == 'call':
            out.sets['functions'].add(s.op)
        elif s.kind == 'ucall':
            out.sets['user_function_argument_types'].add(tclasses(s.kids, E.vtype))
        elif s.kind == 'tri':
            out.sets['operators'].add('/'.join(s.op))
        elif s.kind == 'lit':
            out.sets['constant_kinds'].add(node_key(s, 'value').split(':', 2)[2])
    out.obs['depth_%d' % node.depth] += 1


def case_tree(ctx, n_trees):
    out = ctx.out
    g = G.Gen(ctx.rng)
    prologue = HEADER + g.make_symbols()
    items = []
    for _ in range(n_trees):
        node = g.expression(6)
        record_reach(out, node)
        full = E.render(node, 'full')
        alt_form = ctx.rng.choice(['min', 'min', 'sp'])
        alt = E.render(node, alt_form)
        items.append(Item(full, node.val, node.approx, node, 'full'))
        if alt != full:
            items.append(Item(alt, node.val, node.approx, node, alt_form))
            out.obs['renderings_minimal_brackets'] += 1
        if node.kind not in ('lit', 'sym'):
            out.sigs.add(sig_of(full))
    out.obs['expressions'] += len(items)
    observe(ctx, items, prologue, 'tree')
    finish_items(ctx, items, prologue)
    out.sample = {'kind': 'tree', 'expressions': len(items), 'first': [it.text for it in items[:3]]}


def case_func(ctx, n):
    out = ctx.out
    g = G.Gen(ctx.rng)
    prologue = HEADER + g.make_symbols()
    nodes = G.function_points(g, n)
    items = []
    for node in nodes:
        record_reach(out, node)
        t = E.render(node, 'full')
        items.append(Item(t, node.val, node.approx, node, 'full'))
        out.sigs.add(sig_of(t))
    out.obs['expressions'] += len(items)
    out.obs['function_points'] += len(items)
    observe(ctx, items, prologue, 'func')
    finish_items(ctx, items, prologue)
    out.sample = {'kind': 'func', 'expressions': len(items), 'first': [it.text for it in items[:3]]}


def case_ufunc(ctx, n):
    """values that travel through user-defined FUNCTIONs: "all parameters are calculated once and
    are then inserted into the function's formula".  Each call is laid down next to the same
    formula written inline (every parameter replaced by the bracketed argument); both must equal
    the model bit for bit (sign of zero included; libm results within the tolerance), and they
    must equal each other bit for bit whatever libm does."""
    out = ctx.out
    g = G.Gen(ctx.rng)
    syms = g.make_symbols()
    funcs, calls = G.ufunc_suite(g, 10, n)
    prologue = HEADER + syms + [f.definition() for f in funcs]
    for f in funcs:
        out.sets['user_function_shapes'].add('identity' if f.ptypes is None else ('%d-parameter%s' % (len(f.ptypes), ' linear' if f.linear else '')))
    items = []
    pairs = []
    for node, inline in calls:
        record_reach(out, node)
        t = E.render(node, 'full')
        a = Item(t, node.val, node.approx, node, 'full', strict=True)
        b = Item(E.render(inline, 'full'), node.val, node.approx, inline, 'full', strict=True)
        pairs.append((a, b))
        items += [a, b]
        out.sigs.add(sig_of(t))
    out.obs['expressions'] += len(items)
    out.obs['user_function_calls'] += len(pairs)
    out.sample = {'kind': 'ufunc', 'functions': [f.definition() for f in funcs[:4]], 'first': [a.text for a, b in pairs[:3]]}
    observe(ctx, items, prologue, 'ufn')
    for a, b in pairs:
        if a.raw is not None and b.raw is not None:
            if a.raw == b.raw:
                out.obs['user_function_calls_identical_to_inline'] += 1
            else:
                cls = arg_classes(a.node.kids) if a.node.kind == 'ucall' else 'inside-formula'
                out.violate('user-function:differs-from-inline:%s' % cls,
                            '`%s` lays down %s, the same formula written inline `%s` lays down %s (manual: parameters are calculated once and inserted into the formula)'
                            % (a.text, a.raw.hex(), b.text, b.raw.hex()))
    # a disagreement with the model that the inline formula shows as well lies in the formula's
    # operators (localised there); the call is localised only when the inline formula agrees
    finish_items(ctx, [b for a, b in pairs] + [a for a, b in pairs if b.status == 'ok'], prologue)


def case_lex(ctx):
    out = ctx.out
    g = G.Gen(ctx.rng)
    prologue = HEADER + g.make_symbols()
    items = []
    for node in G.lex_probes(g, 10):
        t = E.render(node, 'min')
        items.append(Item(t, node.val, node.approx, node, 'min', tag='rejected:float-constant:exponent-sign-inside-formula'))
        out.sigs.add(sig_of(t))
    out.obs['expressions'] += len(items)
    out.obs['lexical_probes'] += len(items)
    observe(ctx, items, prologue, 'lex')
    for it in items:
        if it.status in ('value', 'type'):
            it.tag = 'value:float-constant:exponent-sign-inside-formula'
    finish_items(ctx, items, prologue, localisable=False)
    out.sample = {'kind': 'lex', 'first': [it.text for it in items[:3]]}


def case_error(ctx, n):
    """every line must draw an error of its own; nothing may be laid down"""
    out = ctx.out
    g = G.Gen(ctx.rng, high_chars=False)
    lines = list(HEADER) + g.make_symbols()
    entries = {}
    for i in range(n):
        text, tag, kind = G.error_expression(g)
        lines.append('e%d\tequ\t%s' % (i, text))
        entries[len(lines)] = (text, tag, kind)
        out.sigs.add(sig_of(text))
        out.sets['error_classes'].add(tag)
    out.obs['expressions'] += n
    out.obs['expected_error_expressions'] += n
    out.sample = {'kind': 'error', 'first': [entries[k][0] for k in sorted(entries)[:3]]}
    removed = set()
    for attempt in range(60):
        text = '\n'.join(('' if i in removed else l) for i, l in enumerate(lines, 1)) + '\n'
        a = run_asl(ctx, 'err.asm', text)
        if a.run.rc == 3 and not a.run.san and a.run.sig is None:
            # "fatal error, assembly terminated": the line named by the last message stopped the
            # assembly; report it, take it out and look at the remaining lines
            ms = [m for m in ERR_RE.finditer(a.run.err.decode('latin-1') + a.run.out.decode('latin-1')) if m.group(3) != 'warning']
            if ms and int(ms[-1].group(2)) in entries and int(ms[-1].group(2)) not in removed:
                ln = int(ms[-1].group(2))
                etext, tag, kind = entries[ln]
                out.violate('fatal:error-%s:%s' % (ms[-1].group(4), kind),
                            '`%s` (%s) must be reported as an error; asl answers "%s" and terminates the whole assembly with status 3'
                            % (etext, tag, ms[-1].group(5)))
                removed.add(ln)
                continue
        break
    for ln in removed:
        del entries[ln]
    if died(a.run):
        culprits = isolate_crash_equ(ctx, [('' if i in removed else l) for i, l in enumerate(lines, 1)], sorted(entries))
        for ln in culprits:
            text, tag, kind = entries[ln]
            out.violate('crash:%s:%s' % (tag, crash_class(a.run.san)), '`%s` (an error according to the manual: %s) kills asl (%s)'
                        % (text, tag, a.run.san or a.run.sig or a.run.rc))
        if not culprits:
            out.violate('crash:error-file:%s' % crash_class(a.run.san), 'asl died on a file of expected-error expressions and no single line reproduces it: %s'
                        % a.run.err.decode('latin-1')[-300:])
        return
    got = {}
    for m in ERR_RE.finditer(a.run.err.decode('latin-1') + a.run.out.decode('latin-1')):
        if m.group(3) == 'warning':
            continue
        got.setdefault(int(m.group(2)), []).append(m.group(4))
        if m.group(4):
            out.sets['error_numbers_seen'].add(m.group(4))
    stray = [ln for ln in got if ln not in entries]
    if stray:
        out.inconc('harness: error on a line that is not under test (%s)' % stray[:3])
        return
    for ln, (text, tag, kind) in entries.items():
        if ln in got:
            out.obs['errors_reported_as_required'] += 1
        else:
            out.violate('accepted:%s' % tag, '`%s` must be an error according to the manual (%s) but asl reports nothing on its line' % (text, tag))
    if a.p is not None:
        out.violate('code-file-despite-errors', 'asl reported errors and still wrote a code file')


def isolate_crash_equ(ctx, lines, test_lines, budget=40):
    """which of the lines under test (1-based numbers) make asl die: bisection over the
    lines under test, all other lines (header, symbols) are always kept"""
    found = []
    left = [budget]
    under_test = set(test_lines)

    def dies(sel):
        if left[0] <= 0:
            return False
        left[0] -= 1
        keep = set(sel)
        text = '\n'.join(l for i, l in enumerate(lines, 1) if i not in under_test or i in keep) + '\n'
        ctx.write('errx.asm', text)
        r = ctx.run('asl', ['errx.asm', '-o', 'errx.p', '-q'], env=FAST_ENV, timeout=120)
        return died(r) and not r.timed_out

    def rec(sel, known):
        if not sel or len(found) >= 4:
            return
        if not known and not dies(sel):
            return
        if len(sel) == 1:
            found.append(sel[0])
            return
        h = len(sel) // 2
        if dies(sel[:h]):
            rec(sel[:h], True)
            rec(sel[h:], False)
        else:
            rec(sel[h:], True)

    rec(sorted(under_test), True)
    return found


def case_notation(ctx, n):
    out = ctx.out
    rng = ctx.rng
    head, entries, desc = G.notation_case(rng, n)
    lines = list(head)
    lmap = {}
    for sym, tok, exp, label in entries:
        lines.append('%s\tequ\t%s' % (sym, tok))
        lmap[len(lines)] = (sym, tok, exp, label)
    # observation block: back to a known syntax; the argument of RADIX is "always decimal"
    lines += ['\tradix\t10', '\trelaxed\toff', '\tcpu\t68000', '\tpadding\toff']
    first_obs = len(lines)
    for i, (sym, tok, exp, label) in enumerate(entries):
        lines.append('\torg\t%d' % (BASE + SLOT * i))
        lines.append('\tdc.q\t%s' % sym)
    cfg = '%s/%s/%s/r%d' % (desc['cpu'], 'relaxed' if desc['relaxed'] else 'strict', ''.join(desc['intsyntax']) or '-', desc['radix'])
    out.sets['notation_targets'].add(desc['cpu'])
    out.sets['radix'].add('%02d' % desc['radix'])
    out.sets['relaxed'].add(str(desc['relaxed']))
    for m in desc['intsyntax']:
        out.sets['intsyntax_args'].add(m)
    out.obs['expressions'] += len(entries)
    out.obs['notation_constants'] += len(entries)
    out.sample = {'kind': 'notation', 'config': desc, 'first': [e[1] for e in entries[:5]]}
    a = run_asl(ctx, 'nota.asm', '\n'.join(lines) + '\n')
    ctxt = 'cpu %s, %s%sradix %d' % (desc['cpu'], 'relaxed on, ' if desc['relaxed'] else '',
                                     ('intsyntax ' + ' '.join(desc['intsyntax']) + ', ') if desc['intsyntax'] else '', desc['radix'])
    if a.run.san or a.run.sig is not None or a.run.rc not in (0, 2):
        out.violate(a.run.san or 'asl-exit-status-%s' % a.run.rc, 'asl died on integer constants under %s: %s' % (ctxt, a.run.err.decode('latin-1')[-300:]))
        return
    rejected = set()
    for m in ERR_RE.finditer(a.run.err.decode('latin-1') + a.run.out.decode('latin-1')):
        if m.group(3) == 'warning':
            continue
        ln = int(m.group(2))
        if ln in lmap:
            sym, tok, exp, label = lmap[ln]
            rejected.add(sym)
            out.violate('rejected:constant:%s' % label, 'under %s the constant `%s` (notation %s, value %d) is rejected: %s' % (ctxt, tok, label, exp, m.group(5)))
        elif ln <= first_obs:
            out.inconc('harness: directive rejected under %s: line %d %s' % (ctxt, ln, m.group(5)))
            return
    if rejected:
        # the dependants fail as well; assemble again without the rejected definitions
        keep = [l for l in lines if not any(re.match(r'%s\t' % s, l) or l.endswith('\t' + s) for s in rejected)]
        # drop orphaned org lines is unnecessary: an ORG without data lays down nothing
        a = run_asl(ctx, 'notb.asm', '\n'.join(keep) + '\n')
    if a.p is None:
        if not rejected:
            out.violate('no-code-file-without-error', 'no code file under %s: %s' % (ctxt, a.run.err.decode('latin-1')[-300:]))
        else:
            out.inconc('harness: second assembly failed under %s' % ctxt)
        return
    recs = pfile.parse(a.p)
    img = {}
    for m in pfile.image(recs).values():
        img.update(m)
    for i, (sym, tok, exp, label) in enumerate(entries):
        if sym in rejected:
            continue
        data = slot_bytes(img, i)
        if len(data) != 8:
            out.violate('type:constant:%s' % label, 'under %s `%s` did not lay down one quadword (%s)' % (ctxt, tok, data.hex()))
            continue
        got = struct.unpack('>q', data)[0]
        out.sets['notations'].add(label)
        if got == exp:
            out.obs['expressions_agreeing'] += 1
            if label != 'radix' or desc['radix'] != 10:
                out.sigs.add('%s|%s|%s' % (cfg, label, tok))
        else:
            out.obs['expressions_disagreeing'] += 1
            out.violate('value:constant:%s' % label, 'under %s the constant `%s` (notation %s) evaluates to %d, the manual defines %d' % (ctxt, tok, label, got, exp))


def run_case(case, ctx):
    kind = case['kind']
    ctx.out.sets['case_kinds'].add(kind)
    try:
        if kind == 'tree':
            case_tree(ctx, TREES_PER_CASE)
        elif kind == 'func':
            case_func(ctx, 400)
        elif kind == 'notation':
            case_notation(ctx, 120)
        elif kind == 'error':
            case_error(ctx, 150)
        elif kind == 'ufunc':
            case_ufunc(ctx, 240)
        else:
            case_lex(ctx)
    except Abort:
        pass
    ctx.out.nontrivial = False
