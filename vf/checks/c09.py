"""C09 — data-definition statements lay down exactly the documented bytes.

One case = one generated program for one target.  The program mixes statements
the manual obliges the assembler to accept (with the exact bytes / reservation
they must produce, vf/model/datadef.py) and statements it must reject (values
that do not fit the field, constants mixed with '?').  Two executions per case:

  V: directives + acceptable statements -> must assemble; every statement's
     emission events (hook H3: line -> address, bytes) must equal the model's
     bytes at the model's address, reservations must emit nothing and advance
     by the documented amount; the code file (independent reader) must hold
     exactly the model's image.
  X: directives + unacceptable statements -> every one of them must draw an
     error (hook H4) on its own line.
"""
from .. import asl, pfile
from ..model import datadef

ID = 'C09'
LEVEL = 'exploration'
RULE = ('case = generated program (quick 450 x 40 / thorough 5100 x 60 data statements) for one of 15 targets, plus directed big-statement programs per statement kind and multi-target programs (CPU statements inside one source: all ordered pairs and A>B>A of 6502/6800/6809, random sequences of 10 byte-granular targets); a statement is drawn from the target\'s '
        'documented pseudo-ops with arguments from boundary pools (signed/unsigned field limits +-1, beyond 32 bit, float subnormal/halfway/'
        'carry/underflow/max, strings with escapes through CHARSET, [n] repeats, nested DUP, ?) under random PADDING/BIGENDIAN/PACKING/CHARSET '
        'settings; distinct = distinct (target, statement kind, argument-class set, settings, verdict class); every counted statement was '
        'compared byte-for-byte (or its rejection observed), so all are non-trivial')
ASSUMPTIONS = [
    'reference encoders follow IEEE-754 binary16/32/64 (round to nearest even) and the x87/MC68881 extended format (normalised, 96-bit memory form for DC.X: 16 zero bits after the exponent word)',
    'a floating-point literal denotes the IEEE double nearest to it (the C version evaluates in 64-bit floats) which is then converted to the field format',
    'range rule for integer fields: accepted iff -2^(n-1) <= v <= 2^n-1 (the manual states it for DC on the 56000, DATA on AVR/PIC and by example for DD)',
    'byte order inside one address unit of a word-granular target in the code file: most significant byte first for DSP56000, least significant first for AVR, TMS320C2x/C3x, PIC (per-target constant taken from a probe; shared with C04)',
    'the value of pad bytes, of the unused half of a partly filled word and of unused nibbles is left open by the manual and is not compared',
    'PADDING: a pad byte goes in front of a data object of 16 bits or more that would start at an odd address (section PADDING); nothing is inserted after an odd number of bytes',
    'counts of reservation statements (DS, DFS/RMB, BSS, RES, Intel DS) are in address units of the current segment, DS.<size> n reserves n elements of that size',
    'hooks H3/H4 report emissions and diagnostics per source line; the code file is cross-checked against them through the independent reader',
]
MANIFEST = dict(
    category='exploration', design_ref='DESIGN.md §4 C09',
    technique='reference-model monitor: Python encoders (two\'s complement, exact-fraction IEEE-754 half/single/double/extended, CHARSET, DUP/[n], PADDING/PACKING/BIGENDIAN) '
              'judge the per-line emission events (hook H3), the diagnostics (hook H4) and the code file read by an independent parser',
    text='Held on the executions of this run: generated DC/DS, DN/DB/DW/DD/DQ/DT/DS (+DUP, ?), BYT/FCB/BYTE, ADR/FDB, FCC, DFS/RMB, BYTE/WORD/LONG/BSS, DATA/STRING/RSTRING/'
         'FLOAT/DOUBLE/RES/ZERO statements on 68000, 6809, 6800, 6502, Z80, 8080, 8086, 8051, MSP430, TMS9900, ATmega8 (code and data segment), TMS320C25, TMS320C30, '
         'DSP56000 and PIC16C84 laid down exactly the model\'s bytes at the model\'s addresses, reservations emitted nothing and advanced by the documented amount, '
         'and every argument outside -2^(n-1)..2^n-1 (including values whose low 32 bits alone would fit) and every mix of constants with ? was rejected with an error.',
    note='Not covered because the manual is silent: encoding of 0.0 in the 80/96-bit formats (the golden images pin exponent $3C00), floats strictly between max finite and the IEEE '
         'overflow threshold, float literals above the double range (1e309), the non-IEEE float statements (DC.P, EFLOAT/BFLOAT/TFLOAT, C3x SINGLE/EXTENDED, TMS99xxx SINGLE/DOUBLE: layout/rounding not in the manual), integer arguments of DQ/DT and of float DC sizes, strings in WORD/LONG/ADR/DW.., BYTE on TMS320C2x, DSP56000 strings and '
         'multi-argument DC, decimal DC.P, non-zero word reservations at odd addresses under PADDING, the alignment form DS.x 0 for sizes other than W, default state of PADDING outside the 680x0.')
REGISTERED = True

CPUS = sorted(datadef.TARGETS)
ERR_RANGE = {'1315', '1320'}          # doc/error-messages.md: range underflow / range overflow


def plan(tier, seed):
    if tier == 'quick':
        n, k = 450, 40
    else:
        n, k = 5100, 60
    cases = [{'cpu': CPUS[i % len(CPUS)], 'n': k} for i in range(n)]
    # directed cases: every statement kind of every target opens a program with statements near the documented
    # limits (20 arguments, 1 KiB of code per line) while the assembler's code buffer is still at its initial size
    reps = 1 if tier == 'quick' else 12
    for cpu in CPUS:
        for fam in datadef.TARGETS[cpu].fam:
            for kind in sorted(datadef.Gen.DIRECTED.get(fam, {})):
                for r in range(reps):
                    cases.append({'cpu': cpu, 'n': 10, 'big': kind, 'fam': fam})
    # multi-target programs: CPU statements in the middle of one source (state kept between targets inside one
    # assembler run).  All ordered pairs of the 65xx/68xx targets (both byte orders, both orders of appearance,
    # also A -> B -> A), plus random pairs/triples of the byte-granular targets.
    m8 = ['6502', '6800', '6809']
    reps = 2 if tier == 'quick' else 25
    for a in m8:
        for b in m8:
            if a != b:
                for r in range(reps):
                    cases.append({'cpu': a, 'then': [b] if r % 2 == 0 else [b, a], 'n': 12})
    for i in range(30 if tier == 'quick' else 400):
        cases.append({'cpu': None, 'then': 'random', 'n': 12})
    # float range limits: every float-typed statement kind of every target with the values at and just beyond
    # the finite range of its format (max finite, its predecessor; overflow threshold, max*(1+2^-p), 2*max,
    # 1e39, 1e300, DBL_MAX; both signs), one value per statement
    for cpu in CPUS:
        t = datadef.TARGETS[cpu]
        if any(f in datadef.Gen.FLOAT_KINDS for f in t.fam):
            for r in range(1 if tier == 'quick' else 4):
                cases.append({'cpu': cpu, 'limits': True, 'be': False})
                if t.bigendian:
                    cases.append({'cpu': cpu, 'limits': True, 'be': True})
    return cases


SWITCHABLE = ['68000', '6809', '6800', '6502', 'z80', '8080', '8086', '8051', 'msp430', 'tms9900']


def line_events(trace):
    """final-pass E and D events per source line of the main file"""
    last = 1
    for e in trace:
        if 'pass' in e:
            try:
                last = max(last, int(e['pass']))
            except ValueError:
                pass
    emis = {}
    diag = {}
    for e in trace:
        if e['k'] == 'E' and int(e['pass']) == last:
            emis.setdefault(int(e['line']), []).append((int(e['addr'], 16), int(e['gran']), int(e['seg']), bytes.fromhex(e['hex'])))
        elif e['k'] == 'D' and int(e['pass']) == last:
            pos = e.get('pos', '')
            # pos is file(line); generated programs have no macros or includes
            try:
                ln = int(pos[pos.rindex('(') + 1:pos.rindex(')')])
            except ValueError:
                ln = -1
            diag.setdefault(ln, []).append((e['class'], e['num']))
    return emis, diag


def merge(chunks):
    """chunks of one line -> (start unit address, bytes) or None if they are not contiguous"""
    if not chunks:
        return None
    start, gran, seg, data = chunks[0]
    buf = bytearray(data)
    for a, g, s, d in chunks[1:]:
        if g != gran or s != seg or a * g != start * gran + len(buf):
            return False
        buf += d
    return start, gran, bytes(buf)


def render(slots):
    return ''.join('..' if b is None else '%02x' % b for b in slots)


def span_class(it, idx):
    """argument class owning slot idx (idx counts from the first data slot)"""
    for a, b, c in it.spans:
        if a <= idx < b:
            return c.replace('+rep', '').replace('+dup', '')
    return 'other'


def run_case(case, ctx):
    out = ctx.out
    rng = ctx.rng
    then = case.get('then') or []
    cpu = case['cpu']
    if then == 'random':
        cpu = rng.choice(SWITCHABLE)
        then = [rng.choice(SWITCHABLE) for _ in range(rng.choice([1, 2]))]
    tgt = datadef.TARGETS[cpu]
    gen = datadef.Gen(rng, tgt)
    if case.get('limits'):
        items = gen.limits_program(case.get('be', False))
    else:
        items = gen.program(case['n'], big=case.get('big'), switch_to=then)
    progname = '>'.join([cpu] + list(then))
    good = [it for it in items if it.expect is None or it.expect == 'ok']
    bad = [it for it in items if it.expect is None or (it.expect or '').startswith('err')]
    out.sample = {'cpu': progname, 'statements': [it.text.replace('\t', ' ') for it in items if it.expect][:10]}
    for c in [cpu] + list(then):
        out.sets['targets'].add(c)
    if then:
        out.sets['target_sequences'].add(progname)
        out.obs['multi_target_programs'] += 1

    # ------------------------------------------------------------------ V: acceptable statements
    src = ''.join('\t%s\n' % it.text for it in good)
    ctx.write('v.asm', src)
    a = asl.assemble(ctx, 'v.asm', [], out='v.p', trace=True)
    if a.run.timed_out:
        out.inconc('timeout')
        return
    if a.run.san:
        out.violate(a.run.san, '%s: %s' % (tgt.cpu, a.run.err.decode('latin-1')[-600:]))
        return
    emis, diag = line_events(a.trace or [])
    desync = False
    image = {}          # seg -> {byte address: value|None}
    prev = 'start'      # statement kind before the current one (an address error is the previous statement's)
    pending = False     # a reservation lies between the last compared emission and the current statement
    for ln, it in enumerate(good, 1):
        if it.expect is None:
            errs = [d for d in diag.get(ln, []) if d[0] != 'W']
            if errs:
                # a directive of the generator was refused: the harness, not the assembler, is at fault
                out.inconc('harness: directive refused: %s %s' % (it.text.replace('\t', ' '), errs))
                return
            continue
        tag = '%s.%s' % (it.fam, it.kind)
        out.obs['statements_accept_expected'] += 1
        out.sets['kinds'].add('%s:%s' % (it.cpu, it.kind))
        for c in it.classes():
            out.sets['argument_classes'].add(c.replace('+dup+dup', '+dup'))
        errs = [d for d in diag.get(ln, []) if d[0] != 'W']
        for d in diag.get(ln, []):
            if d[0] == 'W':
                out.sets['warnings_seen'].add(d[1])
        where = '%s line %d `%s` [%s]' % (progname if then else it.cpu, ln, it.text.replace('\t', ' '), it.flags)
        if errs:
            maxcls = [c for c in it.classes() if c.replace('+rep', '').replace('+dup', '').endswith('-max')]
            out.violate('%s:valid-statement-rejected:E%s%s' % (tag, errs[0][1], ':max-finite-float' if maxcls else ''),
                        '%s: rejected with %s although every argument is within the documented range (argument classes %s)'
                        % (where, errs, '+'.join(it.classes())))
            desync = True
        if desync:
            # after a layout failure the addresses (and with them the padding) of the rest of this
            # program are no longer comparable: one finding per program
            break
        got = merge(emis.get(ln, []))
        if got is False:
            out.violate('%s:emission-not-contiguous' % tag, '%s: chunks %s' % (where, emis.get(ln)))
            break
        exp = [None] * it.pad + list(it.slots)
        segimg = image.setdefault(it.seg, {})
        if not exp:
            # reservation / alignment: nothing may be emitted; the advance shows at the next emission
            out.obs['reservations_checked'] += 1
            if got:
                out.violate('%s:reservation-emits-bytes' % tag, '%s: emitted %s at %x, expected no bytes and an advance of %d units'
                            % (where, got[2].hex(), got[0], it.reserve))
                break
            out.sigs.add('%s|%s|%s|%s|reserve' % (it.cpu + ('@2' if then and it.cpu != cpu else ''), it.kind, ','.join(it.classes()), it.flags))
            prev = tag          # the generator never puts two reservations in a row
            pending = True
            continue
        if not got:
            out.violate('%s:nothing-emitted' % tag, '%s: expected %s at %x, nothing was emitted' % (where, render(exp), it.addr))
            break
        start, gran, data = got
        if gran != it.gran:
            out.violate('%s:granularity' % tag, '%s: emitted with granularity %d, segment has %d' % (where, gran, it.gran))
            break
        if start != it.addr:
            # everything before was compared and had the right length: the statement(s) in between
            # (reservations) advanced the address by the wrong amount, or padding went wrong here
            if it.pad and start == it.addr + 1 and len(data) == len(exp) - 1:
                key = '%s:padding-missing' % tag
            elif pending:
                key = '%s:wrong-advance' % prev
            else:
                key = '%s:address' % tag
            out.violate(key, '%s: expected at unit address %x, emitted at %x; preceding statement: %s'
                        % (where, it.addr, start, prev))
            break
        if len(data) != len(exp):
            if not it.pad and len(data) == len(exp) + 1 and (it.addr & 1) and it.gran == 1:
                key = 'padding-unexpected'
            else:
                key = 'length'
            out.violate('%s:%s' % (tag, key), '%s: expected %d bytes %s at %x, got %d bytes %s (argument classes %s)'
                        % (where, len(exp), render(exp), it.addr, len(data), data.hex(), '+'.join(it.classes())))
            break
        for i, b in enumerate(exp):
            segimg[it.addr * it.gran + i] = b
        bad_idx = [i for i, b in enumerate(exp) if b is not None and data[i] != b]
        if bad_idx:
            i = bad_idx[0]
            cls = span_class(it, i - it.pad)
            out.violate('%s:bytes-differ:%s' % (tag, cls), '%s: expected %s, got %s (first difference at byte %d, argument class %s)'
                        % (where, render(exp), data.hex(), i, cls))
        out.obs['statements_compared'] += 1
        out.obs['bytes_compared'] += sum(1 for b in exp if b is not None)
        out.sigs.add('%s|%s|%s|%s|ok' % (it.cpu + ('@2' if then and it.cpu != cpu else ''), it.kind, ','.join(it.classes()), it.flags))
        prev = tag
        pending = False
    else:
        desync = False
    desync = desync or bool(out.violations)
    any_rejected = any(k[0] != 'W' for v in diag.values() for k in v)
    if not any_rejected:
        if a.rc != 0 or a.p is None:
            out.violate('no-code-file-for-clean-program', '%s: rc=%s without any error event: %s' % (tgt.cpu, a.rc, a.run.text()[-300:]))
        else:
            check_image(out, tgt, a.p, image, desync)
    out.nontrivial = True

    # ------------------------------------------------------------------ X: statements that must be rejected
    if not any(it.expect for it in bad):
        return
    src = ''.join('\t%s\n' % it.text for it in bad)
    ctx.write('x.asm', src)
    b = asl.assemble(ctx, 'x.asm', [], out='x.p', trace=True)
    if b.run.timed_out:
        out.inconc('timeout')
        return
    if b.run.san:
        out.violate(b.run.san, '%s: %s' % (tgt.cpu, b.run.err.decode('latin-1')[-600:]))
        return
    emis, diag = line_events(b.trace or [])
    for ln, it in enumerate(bad, 1):
        if it.expect is None:
            continue
        tag = '%s.%s' % (it.fam, it.kind)
        where = '%s line %d `%s` [%s]' % (progname if then else it.cpu, ln, it.text.replace('\t', ' '), it.flags)
        errs = [d for d in diag.get(ln, []) if d[0] != 'W']
        out.obs['statements_reject_expected'] += 1
        out.sets['kinds'].add('%s:%s' % (it.cpu, it.kind))
        for d in errs:
            out.sets['error_numbers_seen'].add(d[1])
        out.sigs.add('%s|%s|%s|%s|reject' % (it.cpu, it.kind, it.errcls, it.flags))
        out.sets['argument_classes'].add('reject:' + it.errcls)
        if errs:
            out.obs['rejections_observed'] += 1
            if it.expect == 'err' and it.errcls != 'mixed-constant-and-placeholder' and not any(d[1] in ERR_RANGE for d in errs):
                # rejected, but not for the reason planted: most likely a generator slip, never an alarm
                out.inconc('harness: planted range fault drew %s: %s' % (errs, where))
            continue
        got = merge(emis.get(ln, []))
        if it.expect == 'err|any':
            out.obs['float_overflow_not_rejected'] += 1
            continue
        if it.expect == 'err|alt':
            data = got[2] if got else b''
            alt = bytes(it.slots)
            if got and len(data) - len(alt) in (0, 1) and data[len(data) - len(alt):] == alt:
                out.obs['float_overflow_to_infinity'] += 1
                continue
            out.violate('%s:float-overflow-neither-rejected-nor-infinity' % tag,
                        '%s: no error and bytes %s; expected an error or the infinity image %s' % (where, data.hex(), alt.hex()))
            continue
        data = got[2].hex() if got else ''
        if it.errcls == 'mixed-constant-and-placeholder':
            out.violate('%s:mixed-constant-and-placeholder-accepted' % tag, '%s: no error, emitted %s' % (where, data))
        else:
            out.violate('%s:out-of-range-accepted:%s' % (tag, it.errcls), '%s: no error, emitted %s (a value that does not fit the field was %s instead of being rejected)'
                        % (where, data, 'stored as infinity' if it.errcls.endswith('-overflow') else 'truncated'))


def check_image(out, tgt, buf, image, desync):
    """the code file must hold exactly the model's bytes: nothing at reserved addresses, nothing missing"""
    try:
        recs = pfile.parse(buf, strict=True)
    except pfile.FormatError as e:
        out.violate('malformed-code-file', '%s: %s' % (tgt.cpu, e))
        return
    if desync:
        return
    segno = {'code': 1, 'data': 2}
    img = pfile.image(recs)
    got = {}
    for (cpu, seg), m in img.items():
        got.setdefault(seg, {}).update(m)
    for seg, exp in image.items():
        g = got.get(segno[seg], {})
        extra = sorted(set(g) - set(exp))
        missing = sorted(set(exp) - set(g))
        if extra:
            out.violate('code-file:bytes-at-reserved-or-foreign-addresses', '%s segment %s: %d bytes in the code file at addresses the program never wrote, first %x'
                        % (tgt.cpu, seg, len(extra), extra[0]))
        if missing:
            out.violate('code-file:bytes-missing', '%s segment %s: %d bytes of the program are not in the code file, first %x' % (tgt.cpu, seg, len(missing), missing[0]))
        diff = [x for x in exp if exp[x] is not None and x in g and g[x] != exp[x]]
        if diff:
            x = min(diff)
            out.violate('code-file:byte-differs', '%s segment %s: address %x holds %02x, program says %02x' % (tgt.cpu, seg, x, g[x], exp[x]))
        out.obs['image_bytes_checked'] += len(exp)
    for seg in got:
        if seg not in [segno[s] for s in image] and got[seg]:
            out.violate('code-file:bytes-at-reserved-or-foreign-addresses', '%s: code file has data in segment %d which the program never wrote' % (tgt.cpu, seg))
    out.obs['images_checked'] += 1
