"""C10 — address bookkeeping: ORG, RORG, ALIGN, reservations, segments, PHASE/DEPHASE, SAVE/RESTORE, CPU, STRUCT/UNION.

Reference-model monitor: a small state machine (per-segment load counter,
per-segment phase offset and phase stack, SAVE stack of (cpu, segment),
structure offset counter) predicts for every statement of a generated program
 - where each data statement is emitted (hook H3: load address and phase),
 - the value of every label and of the PC symbol (hook H1 final symbol dump),
 - structure field offsets and length symbols,
and every prediction is compared with what the real assembler did.
"""
from .. import asl

ID = 'C10'
LEVEL = 'exploration'
RULE = ('random statement sequences (<=60) over ORG/RORG/ALIGN/reservation/data/SEGMENT/PHASE/DEPHASE (nested)/SAVE/RESTORE/CPU/STRUCT/UNION on '
        '8051 (4 segments), Z80/8080, 6502, TMS320C25 and PIC16C84 (word-granular code); distinct = distinct (target, multiset class of statement kinds, '
        'max phase depth, segments used); non-trivial = at least one PHASE, SEGMENT or STRUCT statement')
ASSUMPTIONS = ['cases the manual leaves open are not generated: ORG/RORG/ALIGN/CPU while a PHASE is active, ALIGN with fill outside CODE, RESTORE on an empty stack, '
               'CPU switch outside the CODE segment; DEPHASE on an empty stack is taken to leave offset 0',
               'hook H3 reports load address and phase offset separately; label value = load address + phase offset']
MANIFEST = dict(
    category='exploration', design_ref='DESIGN.md §4 C10',
    technique='reference-model runtime monitor (address-counter state machine) over hook traces: emission addresses/phase per statement and final symbol values',
    text='Held on the executions of this run: for generated statement sequences the load address and phase offset of every emitted statement, every label and PC-symbol '
         'value, the segment/CPU reinstated by RESTORE and all structure/union field offsets and length symbols equalled the state machine written from the manual.',
    note='Trusts the 120-line model in this module; symbol-to-segment typing is not checked (TI-style targets enter labels untyped).')

# target: (pc symbol or None, data op, values per data stmt -> units, reserve op, {segment: (lo, hi)}, family members for CPU switches)
TARGETS = {
    '8051': ('$', 'db', 'ds', {'code': (0x100, 0xe000), 'data': (0x20, 0x7f), 'idata': (0x80, 0xff), 'xdata': (0x1000, 0xe000)}),
    'z80': ('$', 'db', 'ds', {'code': (0x100, 0xe000)}),
    '8080': ('$', 'db', 'ds', {'code': (0x100, 0xe000)}),
    '6502': ('*', 'byt', 'dfs', {'code': (0x200, 0xe000)}),
    '320c25': ('$', 'word', 'bss', {'code': (0x100, 0xe000), 'data': (0x100, 0xe000)}),
    '16c84': (None, 'data', 'res', {'code': (0x10, 0x3f0), 'data': (0x0c, 0x4f)}),
}
SWITCH = {'8051': ['z80', '8080'], 'z80': ['8051', '8080'], '8080': ['z80', '8051']}
HDR = {'8051': 0x31, 'z80': 0x51, '8080': 0x41, '6502': 0x11, '320c25': 0x75, '16c84': 0x70}


def plan(tier, seed):
    n = 1500 if tier == 'quick' else 40000
    return [{'i': i} for i in range(n)] + [{'pad': i} for i in range(150 if tier == 'quick' else 4000)]


def gen_padded_struct(rng):
    """68000 (word alignment of ds.w / ds.l, manual: 'the rules for rounding up lengths to assure certain alignments also apply here'):
    structure with byte, word and long fields, its field symbols, length, and an instance"""
    lines = ['\tcpu\t68000', '\torg\t$%x' % rng.choice([0x1000, 0x2000, 0x4002])]
    exp = {}
    fields = []
    lab = [0]

    def nl(p):
        lab[0] += 1
        return '%s%d' % (p, lab[0])

    def level(name, depth, prefix, base):
        lines.append('%s\tstruct' % (name or ''))
        offs = 0
        for _ in range(rng.randrange(1, 6)):
            r = rng.random()
            if depth < 2 and r < 0.2:
                # a sub-structure starts where its first field will lie only if that is aligned: keep it on an even offset
                if (base + offs) & 1:
                    f = nl('f')
                    lines.append('%s\tds.b\t1' % f)
                    fields.append((prefix + f.upper(), base + offs))
                    offs += 1
                sub = nl('s') if rng.random() < 0.5 else None
                if sub:
                    fields.append((prefix + sub.upper(), base + offs))
                n = level(sub, depth + 1, prefix + (sub.upper() + '_' if sub else ''), base + offs)
                if sub:
                    fields.append((prefix + sub.upper() + '_LEN', None, n))
                offs += n
                continue
            f = nl('f')
            size, op = rng.choice([(1, 'ds.b'), (1, 'ds.b'), (2, 'ds.w'), (4, 'ds.l')])
            cnt = rng.randrange(1, 4)
            if size > 1 and (base + offs) & 1:
                offs += 1            # padding in front of the word-sized reservation; the label moves with it
            lines.append('%s\t%s\t%d' % (f, op, cnt))
            fields.append((prefix + f.upper(), base + offs))
            offs += size * cnt
        lines.append('%s\tendstruct' % (name or ''))
        return offs

    sname = nl('st')
    total = level(sname, 0, '', 0)
    for fld in fields:
        exp['%s_%s' % (sname.upper(), fld[0])] = fld[2] if fld[1] is None else fld[1]
    exp['%s_LEN' % sname.upper()] = total
    iname = nl('i')
    lines.append('%s\t%s' % (iname, sname))
    base = int(lines[1].split('$')[1], 16)
    exp[iname.upper()] = base
    for fld in fields:
        if fld[1] is not None:
            exp['%s_%s' % (iname.upper(), fld[0])] = base + fld[1]
    after = nl('z')
    lines.append('%s:\tdc.b\t1' % after)
    exp[after.upper()] = base + total
    # labels in front of statements that get alignment padding, outside and inside a PHASE region: a label reads load address + offset
    pc = base + total + 1
    off = 0
    if rng.random() < 0.6:
        tgt = rng.choice([0x20000, 0x8000, 0x123456])
        lines.append('\tphase\t$%x' % tgt)
        off = tgt - pc
    for _ in range(rng.randrange(2, 7)):
        pl = nl('p')
        r = rng.random()
        if r < 0.4:
            n = rng.choice([1, 1, 3, 2])
            lines.append('%s:\tdc.b\t%s' % (pl, ','.join('1' for _ in range(n))))
            exp[pl.upper()] = pc + off
            pc += n
        elif r < 0.8:
            pc += (pc + off) & 1         # alignment looks at the address the code will run at
            if rng.random() < 0.5:
                lines.append('%s:' % pl)
                lines.append('\tdc.w\t2')
            else:
                lines.append('%s:\tdc.w\t2' % pl)
            exp[pl.upper()] = pc + off
            pc += 2
        else:
            pc += (pc + off) & 1         # alignment looks at the address the code will run at
            lines.append('%s:\tds.l\t1' % pl)
            exp[pl.upper()] = pc + off
            pc += 4
    if off:
        lines.append('\tdephase')
    last = nl('q')
    lines.append('%s:\tdc.b\t9' % last)
    exp[last.upper()] = pc
    return '\n'.join(lines) + '\n', exp


def run_padded(case, ctx):
    out = ctx.out
    text, exp = gen_padded_struct(ctx.rng)
    ctx.write('g.asm', text)
    a = asl.assemble(ctx, 'g.asm', [], trace=True, timeout=60)
    tag = 'padded structure #%d (68000)' % ctx.idx
    out.sample = {'padded': ctx.idx, 'source': text.split('\n')[:30]}
    if a.run.timed_out:
        out.inconc('timeout')
        return
    if a.run.san:
        out.violate(a.run.san, '%s: %s' % (tag, a.run.err.decode('latin-1')[-500:]))
        return
    if a.rc == 97 or a.rc == 96:
        out.violate('pass-livelock:padded-structure', '%s: assembly does not come to an end (status %s)' % (tag, a.rc))
        return
    if a.rc != 0:
        out.violate('valid-program-rejected:padded-structure', '%s: rc=%s %s' % (tag, a.rc, a.run.text()[-400:].replace('\n', ' | ')))
        return
    syms = {}
    for e in a.trace:
        if e['k'] == 'S' and e['sect'] == -1 and e['typ'] == 'I':
            syms[e['name']] = int(e['val'], 16)
    for name, want in exp.items():
        if name not in syms:
            out.violate('symbol-missing:padded-structure', '%s: %s not in the final symbol table' % (tag, name))
        elif syms[name] != want:
            out.violate('symbol-value-wrong:padded-struct-field', '%s: %s = %#x, model says %#x | %s' % (tag, name, syms[name], want, text.replace('\n', ' / ')[:400]))
        else:
            out.obs['symbols_checked'] += 1
    out.sets['statement_kinds'].add('padded-struct')
    out.sets['targets'].add('68000')
    out.nontrivial = True
    out.sig = ('pad', len(exp), text.count('ds.w') + text.count('ds.l'), text.count('struct'))


class Model:
    def __init__(self, cpu):
        self.cpu = cpu
        self.seg = 'code'
        self.pc = {}
        self.off = {}
        self.stack = {}
        self.save = []

    def cur_off(self):
        return self.off.get(self.seg, 0)


def gen(rng):
    cpu = rng.choice(sorted(TARGETS))
    m = Model(cpu)
    lines = []
    exp_emit = {}      # line -> (addr, phase, units, hdr)
    exp_sym = {}       # NAME -> value
    exp_seg = {}       # NAME -> segment name (labels only)
    kinds = []
    lab = [0]
    maxdepth = [0]
    segs_used = set(['code'])

    def T():
        return TARGETS[m.cpu]

    def add(text):
        lines.append(text)
        return len(lines)

    def newlab(prefix='l'):
        lab[0] += 1
        return '%s%d' % (prefix, lab[0])

    def room(n):
        lo, hi = T()[3][m.seg]
        return m.pc[m.seg] + n <= hi

    lo, hi = T()[3]['code']
    m.pc['code'] = rng.randrange(lo, min(hi, lo + 0x400))
    if rng.random() < 0.15:
        # the CODE counter positioned before the first CPU statement (which selects CODE and keeps its counter)
        add('\torg\t%d' % m.pc['code'])
        if rng.random() < 0.4 and m.pc['code'] + 16 < hi:
            d = rng.randrange(1, 16)
            add('\trorg\t%d' % d)
            m.pc['code'] += d
        add('\tcpu\t%s' % cpu)
        kinds.append('org-before-cpu')
    else:
        add('\tcpu\t%s' % cpu)
        add('\torg\t%d' % m.pc['code'])
    nstat = rng.randrange(6, 60)
    for _ in range(nstat):
        pcsym, dop, rop, segtab = T()
        phased = bool(m.stack.get(m.seg))
        any_phase = any(m.stack.values())
        k = rng.randrange(16)
        if k <= 2:
            # label + data
            if m.seg != 'code':
                continue
            n = rng.randrange(1, 6)
            if not room(n + 40):
                continue
            name = newlab()
            ln = add('%s:\t%s\t%s' % (name, dop, ','.join(str(rng.randrange(200)) for _ in range(n))))
            exp_sym[name.upper()] = m.pc[m.seg] + m.cur_off()
            exp_seg[name.upper()] = m.seg
            exp_emit[ln] = (m.pc[m.seg], m.cur_off(), n, HDR[m.cpu])
            m.pc[m.seg] += n
            kinds.append('data')
        elif k <= 4:
            n = rng.randrange(1, 4) if m.seg in ('data', 'idata') and m.cpu in ('8051', '16c84') else rng.randrange(1, 40)
            if not room(n + 4):
                continue
            name = newlab()
            add('%s:\t%s\t%d' % (name, rop, n))
            exp_sym[name.upper()] = m.pc[m.seg] + m.cur_off()
            exp_seg[name.upper()] = m.seg
            m.pc[m.seg] += n
            kinds.append('res')
        elif k == 5 and pcsym:
            name = newlab('p')
            add('%s\tequ\t%s' % (name, pcsym))
            exp_sym[name.upper()] = m.pc[m.seg] + m.cur_off()
            kinds.append('pcsym')
        elif k == 6 and not phased:
            lo, hi = segtab[m.seg]
            a = rng.randrange(lo, max(lo + 1, hi - 0x600)) if hi - lo > 0x800 else rng.randrange(lo, max(lo + 1, hi - 8))
            add('\torg\t%d' % a)
            m.pc[m.seg] = a
            kinds.append('org')
        elif k == 7 and not phased:
            d = rng.randrange(1, 30) if not (m.seg in ('data', 'idata') and m.cpu in ('8051', '16c84')) else rng.randrange(1, 3)
            if not room(d + 4):
                continue
            add('\trorg\t%d' % d)
            m.pc[m.seg] += d
            kinds.append('rorg')
        elif k == 8 and (not phased or (m.seg == 'code' and m.cpu not in ('16c84',))):
            n = rng.choice([1, 2, 4, 8, 16, 64]) if not (m.seg in ('data', 'idata')) else rng.choice([1, 2, 4])
            # the program counter that is aligned is the one labels and the PC symbol read: load address + phase offset
            off_ = m.cur_off()
            new = (m.pc[m.seg] + off_ + n - 1) // n * n - off_
            lo, hi = segtab[m.seg]
            if new + 4 > hi:
                continue
            if m.seg == 'code' and rng.random() < 0.4 and m.cpu not in ('320c25', '16c84'):
                fill = rng.randrange(256)
                ln = add('\talign\t%d,%d' % (n, fill))
                if new > m.pc[m.seg]:
                    exp_emit[ln] = (m.pc[m.seg], off_, new - m.pc[m.seg], HDR[m.cpu])
                kinds.append('alignfill')
            else:
                add('\talign\t%d' % n)
                kinds.append('align')
            m.pc[m.seg] = new
        elif k == 9 and len(segtab) > 1 and not (m.cpu == '16c84' and phased):
            s = rng.choice(sorted(segtab))
            add('\tsegment\t%s' % s)
            m.seg = s
            segs_used.add(s)
            if s not in m.pc:
                lo, hi = segtab[s]
                m.pc[s] = rng.randrange(lo, max(lo + 1, min(hi - 8, lo + 0x300)))
                add('\torg\t%d' % m.pc[s])
            kinds.append('segment')
        elif k == 10 and m.cpu != '16c84' and not (m.seg in ('data', 'idata') and m.cpu == '8051'):
            a = rng.randrange(0x100, 0x7000)
            if rng.random() < 0.25:
                # PHASE to the address already in force: the offset stays, but the statement still needs its own DEPHASE
                a = m.pc[m.seg] + m.cur_off()
                add('\tphase\t%s' % (pcsym if (pcsym and rng.random() < 0.5) else str(a)))
            else:
                add('\tphase\t%d' % a)
            m.stack.setdefault(m.seg, []).append(m.off.get(m.seg, 0))
            m.off[m.seg] = a - m.pc[m.seg]
            maxdepth[0] = max(maxdepth[0], len(m.stack[m.seg]))
            kinds.append('phase')
        elif k == 11 and (phased or rng.random() < 0.1) and m.cpu != '16c84':
            add('\tdephase')
            st = m.stack.get(m.seg)
            m.off[m.seg] = st.pop() if st else 0
            kinds.append('dephase')
        elif k == 12 and len(m.save) < 3:
            add('\tsave')
            m.save.append((m.cpu, m.seg))
            kinds.append('save')
        elif k == 13 and m.save and not any_phase:
            add('\trestore')
            oldcpu = m.cpu
            m.cpu, m.seg = m.save.pop()
            if m.cpu != oldcpu or m.seg not in m.pc:
                # counters of segments the other family does not have: set explicitly (manual silent about their survival)
                lo, hi = TARGETS[m.cpu][3][m.seg]
                m.pc[m.seg] = rng.randrange(lo, max(lo + 1, min(hi - 8, lo + 0x300)))
                add('\torg\t%d' % m.pc[m.seg])
            kinds.append('restore')
        elif k == 14 and not any_phase and m.seg != 'code' and 'code' in m.pc and m.cpu != '16c84' and rng.random() < 0.5:
            # a CPU statement naming the processor that is selected already: still "switches back to the CODE segment"
            add('\tcpu\t%s' % m.cpu)
            m.seg = 'code'
            kinds.append('cpu-same')
        elif k == 14 and m.cpu in SWITCH and not any_phase and (m.seg == 'code' or m.save):
            # the other family shares only the CODE segment; the CPU statement itself selects CODE
            new = rng.choice(SWITCH[m.cpu])
            pc = m.pc.get('code', 0x100)
            add('\tcpu\t%s' % new)
            m.cpu = new
            m.seg = 'code'
            m.pc = {'code': pc}
            m.off = {}
            m.stack = {}
            add('\torg\t%d' % pc)
            kinds.append('cpu')
        elif k == 15 and not phased and m.cpu != '16c84':
            # (nested) structure/union definition: named levels prefix their name, unnamed levels do not (manual: Nameless Structures);
            # fields[] collects (name relative to the outermost structure, offset in it) for the instantiation below
            fields = []

            def level(name, union, depth, prefix, base):
                add('%s\t%s' % (name or '', 'union' if union else 'struct'))
                offs = 0
                mx = 0
                for _ in range(rng.randrange(1, 5)):
                    here = base + (0 if union else offs)
                    r = rng.random()
                    if depth < 3 and r < 0.35 and m.cpu != '320c25':     # (320c25: open finding on field names, flat structures only)
                        sub_union = rng.random() < 0.4
                        if rng.random() < 0.5:
                            sub = newlab('s')
                            fields.append((prefix + sub.upper(), here))
                            n = level(sub, sub_union, depth + 1, prefix + sub.upper() + '_', here)
                            fields.append((prefix + sub.upper() + '_LEN', None, n))
                        else:
                            n = level(None, sub_union, depth + 1, prefix, here)
                        kinds.append('nested-' + ('union' if sub_union else 'struct'))
                    else:
                        f = newlab('f')
                        n = rng.randrange(1, 9)
                        add('%s\t%s\t%d' % (f, rop, n))
                        fields.append((prefix + f.upper(), here))
                    offs += n
                    mx = max(mx, n)
                add('%s\t%s' % (name or '', 'endunion' if union else 'endstruct'))
                return mx if union else offs

            union = rng.random() < 0.4
            sname = newlab('st')
            total = level(sname, union, 1, '', 0)
            for fld in fields:
                if fld[1] is None:
                    exp_sym['%s_%s' % (sname.upper(), fld[0])] = fld[2]
                else:
                    exp_sym['%s_%s' % (sname.upper(), fld[0])] = fld[1]
            exp_sym['%s_LEN' % sname.upper()] = total
            kinds.append('union' if union else 'struct')
            if m.cpu not in ('320c25',) and room(total + 40) and rng.random() < 0.6 and not (m.seg in ('data', 'idata') and m.cpu == '8051'):
                # instantiation: reserves the structure's size and defines every element at its address
                iname = newlab('i')
                add('%s\t%s' % (iname, sname))
                here = m.pc[m.seg] + m.cur_off()
                exp_sym[iname.upper()] = here
                for fld in fields:
                    if fld[1] is not None:
                        exp_sym['%s_%s' % (iname.upper(), fld[0])] = here + fld[1]
                m.pc[m.seg] += total
                kinds.append('instance')
    while m.save:
        add('\trestore')
        m.cpu, m.seg = m.save.pop()
        if m.seg not in m.pc:
            lo, hi = TARGETS[m.cpu][3][m.seg]
            m.pc[m.seg] = lo
            add('\torg\t%d' % lo)
        name = newlab('z')
        add('%s:' % name)
        exp_sym[name.upper()] = m.pc[m.seg] + m.cur_off()
        exp_seg[name.upper()] = m.seg
    return cpu, '\n'.join(lines) + '\n', exp_emit, exp_sym, kinds, maxdepth[0], segs_used, exp_seg


def run_case(case, ctx):
    if 'pad' in case:
        return run_padded(case, ctx)
    out = ctx.out
    cpu, text, exp_emit, exp_sym, kinds, depth, segs, exp_seg = gen(ctx.rng)
    ctx.write('g.asm', text)
    a = asl.assemble(ctx, 'g.asm', [], trace=True, timeout=60)
    tag = 'generated #%d (%s)' % (ctx.idx, cpu)
    out.sample = {'generated': ctx.idx, 'cpu': cpu, 'kinds': kinds[:30], 'source_head': text.split('\n')[:16]}
    if a.run.timed_out:
        out.inconc('timeout')
        return
    if a.run.san:
        out.violate(a.run.san, '%s: %s' % (tag, a.run.err.decode('latin-1')[-500:]))
        return
    if a.rc != 0:
        msg = a.run.text()
        which = 'valid-program-rejected'
        out.violate(which, '%s: rc=%s %s' % (tag, a.rc, msg[-400:].replace('\n', ' | ')))
        return
    last = max([int(e['pass']) for e in a.trace if e['k'] == 'P'] or [1])
    got = {}
    for e in a.trace:
        if e['k'] == 'E' and int(e['pass']) == last:
            got.setdefault(int(e['line']), []).append(e)
    lines = text.split('\n')
    for ln, (addr, phase, units, hdr) in exp_emit.items():
        es = got.get(ln)
        if not es:
            out.violate('statement-emits-nothing', '%s: line %d %r' % (tag, ln, lines[ln - 1]))
            continue
        e = es[0]
        gaddr, gphase = int(e['addr'], 16), int(e['phase'], 16)
        gphase = gphase - (1 << 64) if gphase >= (1 << 63) else gphase
        gunits = sum(int(x['len']) for x in es) // int(e['gran'])
        stmt = lines[ln - 1].split('\t')[1] if '\t' in lines[ln - 1] else '?'
        if gaddr != addr:
            out.violate('load-address-wrong:after-%s' % prev_kind(lines, ln), '%s: line %d %r emitted at %#x, model says %#x' % (tag, ln, lines[ln - 1], gaddr, addr))
        elif gphase != phase:
            out.violate('phase-offset-wrong:after-%s' % prev_kind(lines, ln), '%s: line %d %r phase offset %#x, model says %#x' % (tag, ln, lines[ln - 1], gphase, phase))
        elif gunits != units:
            out.violate('emitted-length-wrong:%s' % stmt, '%s: line %d %r emitted %d units, model says %d' % (tag, ln, lines[ln - 1], gunits, units))
        elif int(e['hdr'], 16) != hdr:
            out.violate('cpu-wrong-after-restore-or-switch', '%s: line %d emitted for family %s, model says %02x' % (tag, ln, e['hdr'], hdr))
        else:
            out.obs['emissions_checked'] += 1
    # no unexpected emissions (e.g. code inside a structure body)
    for ln in got:
        if ln not in exp_emit:
            out.violate('unexpected-emission', '%s: line %d %r emitted code' % (tag, ln, lines[ln - 1] if ln <= len(lines) else '?'))
    syms = {}
    masks = {}
    for e in a.trace:
        if e['k'] == 'S' and e['sect'] == -1 and e['typ'] == 'I':
            v = int(e['val'], 16)
            syms[e['name']] = v - (1 << 64) if v >= (1 << 63) else v
            masks[e['name']] = e['mask']
    segnum = {'code': 1, 'data': 2, 'idata': 3, 'xdata': 4}
    if cpu in ('8051', 'z80', '8080', '6502'):
        for name, sg in exp_seg.items():
            if name in masks and masks[name] != (1 << segnum[sg]):
                out.violate('label-in-wrong-segment', '%s: label %s is typed for segment mask %#x, the model says %s' % (tag, name, masks[name], sg))
                break
            out.obs['label_segments_checked'] += 1
    for name, want in exp_sym.items():
        if name not in syms:
            plain = name.split('_', 1)[1] if '_' in name else None
            if plain and plain != 'LEN' and syms.get(plain) == want:
                out.violate('struct-field-entered-without-structure-name:%s' % cpu,
                            '%s: field %s is defined as plain %s = %#x (the manual prepends the structure name)' % (tag, name, plain, want))
            else:
                out.violate('symbol-missing', '%s: %s not in the final symbol table' % (tag, name))
            continue
        if syms[name] != want:
            cls = 'struct-field' if '_' in name else ('pc-symbol' if name.startswith('P') else 'label')
            out.violate('symbol-value-wrong:%s' % cls, '%s: %s = %#x, model says %#x' % (tag, name, syms[name], want))
        else:
            out.obs['symbols_checked'] += 1
    for k in set(kinds):
        out.sets['statement_kinds'].add(k)
    out.sets['targets'].add(cpu)
    out.nontrivial = any(k in kinds for k in ('phase', 'segment', 'struct', 'union', 'restore'))
    out.sig = (cpu, tuple(sorted(set(kinds))), depth, tuple(sorted(segs)), min(len(kinds) // 10, 5))


def prev_kind(lines, ln):
    """the statement kind in front of line ln (for a stable violation key)"""
    for i in range(ln - 2, -1, -1):
        parts = lines[i].split('\t')
        if len(parts) > 1 and parts[1]:
            return parts[1].lower()
    return 'start'
