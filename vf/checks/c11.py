"""C11 — macro, repetition and inclusion constructs are transparent.

Every case is a generated program that uses MACRO (positional, keyword, default,
empty, excess arguments, ALLARGS, ARGCOUNT, ATTRIBUTE, SHIFT, EXITM, nested and
recursive calls, \\name\\ and name_name concatenation), REPT, IRP, IRPN, IRPC, WHILE,
INCLUDE, BINCLUDE, {GLOBALSYMBOLS} and private labels.  The program is carried out by
hand by the reference model vf/model/macroexp.py (a Python implementation of the
textual-substitution rules of doc/pseudo-instructions.md, "Macro Instructions",
INCLUDE, BINCLUDE) which yields a flat program without any of these constructs.
Both programs are assembled by the real asl; the two code files, read by the
independent reader vf/pfile.py, must contain the same data records.

A disagreement is reduced (greedy deletion of lines / operands while the
disagreement persists) and keyed by the constructs that remain in the reduced
witness, so that one defect keeps one key.
"""
import re

from .. import asl, pfile
from ..model import macroexp

ID = 'C11'
LEVEL = 'exploration'
RULE = ('case = one generated program (6502 byt/adr, Z80 db/dw or 68000 dc.w, with or without -U) with up to 3 levels of '
        'construct nesting, macros with 0..20 parameters, repetition counts -3..40, IRPN groups 1..4 with ragged tails, '
        'include files (also in sub-directories) and binary includes, assembled once with the constructs and once as the hand '
        'expansion produced by the reference model; non-trivial = the model carried out at least one construct and the expansion '
        'holds data; distinct = distinct (target, case mode, sorted set of construct/argument kinds the model executed, '
        'number of constructs executed (capped at 12), size class of the code)')
ASSUMPTIONS = [
    'the hand expansion is produced by vf/model/macroexp.py, written from the manual: simultaneous whole-name substitution '
    '(names delimited by non-alphanumerics, \\name\\ form), outer construct substitutes first, macro bodies read line by line',
    'generated programs stay inside what the manual defines: no ARGCOUNT with fewer arguments than parameters or after SHIFT '
    '(manual and t_macargs.ori disagree), no ALLARGS together with keyword arguments, no use of a parameter that SHIFT has left '
    'without an argument, no reference from a nested construct to a private label of the enclosing one, {GLOBALSYMBOLS} only where '
    'every enclosing level is global too, EXITM only in MACRO/REPT/IRP/WHILE, arguments pasted into string context are '
    'case-invariant (AS upper-cases arguments outside quotes when it is not case-sensitive), parameter names inside string '
    'constants are written in upper case when AS is not case-sensitive, no expanded line longer than 250 characters',
    'two code files are equal when their sequences of data records (family, segment, granularity, address, bytes) and entry '
    'records are equal after merging adjacent records; the creator string is ignored',
    'a construct program that reads more than 40x the lines of its hand expansion (hook H5 line budget) is reported as not ending',
]
MANIFEST = dict(
    category='exploration', design_ref='DESIGN.md §4 C11',
    technique='metamorphic runtime check: construct program vs. its hand expansion by an independent reference model of the manual\'s '
              'textual-substitution rules; both assembled by the real asl, code files compared record by record with an independent reader; '
              'disagreements are delta-reduced and keyed by the constructs left in the witness',
    text='Held on the executions of this run: generated programs on 6502, Z80 and 68000 (case-sensitive and not) using MACRO with 0..20 '
         'parameters (positional, keyword, default, empty and excess arguments, ALLARGS, ARGCOUNT, ATTRIBUTE, SHIFT, EXITM also from nested IFs, '
         'nested and recursive calls, macros defining macros, a macro overriding an instruction, both concatenation forms, parameter names '
         'that are substrings of other identifiers or differ only in case under -U, arguments that spell other parameters\' names, '
         'parameters inside string constants), REPT -3..40, IRP, IRPN 1..4 with ragged tails, IRPC (also empty), WHILE, constructs inside '
         'taken and untaken IF/ELSE branches, INCLUDE (nested, from sub-directories, defining macros), BINCLUDE with offset/length '
         '(also of nothing), {GLOBALSYMBOLS}, private labels with global namesakes, control characters in string constants, up to 3 '
         'nesting levels, assembled to the same data records as their hand expansion.',
    note='Trusts vf/model/macroexp.py and vf/pfile.py.  Cases the manual leaves open are not generated (see ASSUMPTIONS). '
         'Only error-free programs: a hand expansion that asl rejects makes the case inconclusive, not a verdict.')
REGISTERED = True

# ---------------------------------------------------------------------------
# targets

TARGETS = {
    # name: (byte statement or None, word statement, has attributes, motorola hex, string operands allowed)
    '6502': ('byt', 'adr', False, True, True),
    'z80': ('db', 'dw', False, False, True),
    '68000': (None, 'dc.w', True, True, False),
}

PNAMES_A = ['p%d' % i for i in range(1, 21)]
PNAMES_B = ['aa', 'ab', 'abc', 'ba', 'bab', 'xx', 'xy', 'xyx', 'nn', 'arg', 'arg1', 'arg2', 'val', 'va', 'vv', 'qq', 'qa',
            'qaq', 'nu', 'num', 'num1', 'ar', 'rg', 'al', 'valu', 'xxy', 'yx', 'ann', 'bb', 'abab']
SYMS = ['s0', 's1', 's2', 's3']


def plan(tier, seed):
    n = 1200 if tier == 'quick' else 24000
    return [{'n': i} for i in range(n)]


# ---------------------------------------------------------------------------
# generator

class Param:
    def __init__(self, name, typ, default=''):
        self.name = name
        self.typ = typ          # num | cnt | sym | str
        self.default = default


class Macro:
    def __init__(self):
        self.name = None
        self.params = []
        self.glob = False
        self.uses_allargs = False
        self.uses_argcount = False
        self.uses_attr = False
        self.variadic = None     # None | 'irp' | 'shiftrec' | 'shift'
        self.nshift = 0
        self.rec = False
        self.once = False        # may be called only once (global labels)
        self.calls = 0
        self.glabels = []
        self.heavy = False
        self.min_calls = 1


class Gen:
    def __init__(self, rng):
        self.rng = rng
        self.cpu = rng.choice(['6502', '6502', 'z80', '68000'])
        self.bop, self.wop, self.has_attr, self.mhex, self.strings = TARGETS[self.cpu]
        self.cs = rng.random() < 0.3
        self.equs = {}            # name -> int (emitted at the top)
        self.macros = []
        self.files = {}
        self.bins = {}
        self.ctr = 0
        self.glabels = []         # global labels defined so far / planned: name
        self.later_refs = []
        self.helper = None
        self.empty_macro = None
        self.overridden = False
        self.pre_refs = []
        self.feat = set()
        self.budget = 400         # rough bound of emitted statements (repetitions multiply)
        for i, s in enumerate(SYMS):
            self.equs[s] = 3 + i
        for a in SYMS:
            for b in SYMS:
                self.equs['%s_%s' % (a, b)] = (len(self.equs) * 7) % 200
                self.equs['%s%s' % (a, b)] = (len(self.equs) * 11) % 200
        for i in range(4):
            self.equs['k%d' % i] = i + 1

    # -- small helpers
    def uid(self):
        self.ctr += 1
        return self.ctr

    def rc(self, word):
        """random case where case does not matter"""
        if self.cs:
            return word
        r = self.rng.random()
        if r < 0.6:
            return word
        if r < 0.8:
            return word.upper()
        return ''.join(ch.upper() if self.rng.random() < 0.5 else ch for ch in word)

    def instr(self, name):
        """how a parameter name is written inside a string constant"""
        return name if self.cs else name.upper()

    def kw(self, word):
        return word.upper() if self.rng.random() < 0.15 else word

    def hexlit(self, v):
        if self.mhex and self.rng.random() < 0.3 and ('%x' % v) not in PNAMES_B:
            # ($ab would contain the parameter name ab: the text after $ is a whole name)
            return '$%x' % v
        return str(v)

    def byte_stmt(self, ops):
        """a data statement of byte-sized values (word statement on 68000, keeps alignment)"""
        return '\t%s\t%s' % (self.bop or self.wop, ','.join(ops))

    def word_stmt(self, ops):
        return '\t%s\t%s' % (self.wop, ','.join(ops))

    def need(self, name, val=None):
        k = name if self.cs else name.lower()
        for e in self.equs:
            if (e if self.cs else e.lower()) == k:
                return
        self.equs[name] = self.rng.randrange(1, 60) if val is None else val

    # -- argument texts
    def num_arg(self):
        r = self.rng.random()
        if r < 0.45:
            return self.hexlit(self.rng.randrange(0, 61))
        if r < 0.6:
            return 'k%d+%d' % (self.rng.randrange(4), self.rng.randrange(0, 30))
        if r < 0.7:
            return '(%d*k%d)' % (self.rng.randrange(1, 6), self.rng.randrange(4))
        if r < 0.8:
            return self.rc(self.rng.choice(SYMS))
        if r < 0.9:
            return "'%s'" % self.rng.choice('abcxyzABCXYZ0189=,;(')
        return '%d+%d' % (self.rng.randrange(0, 30), self.rng.randrange(0, 30))

    def cnt_arg(self, lo=0, hi=5):
        v = self.rng.randrange(lo, hi + 1)
        r = self.rng.random()
        if r < 0.6:
            return str(v), v
        if r < 0.75 and self.mhex:
            return '$%x' % v, v
        if r < 0.9 and 1 <= v <= 4:
            return self.rc('k%d' % (v - 1)), v
        if v >= 1:
            a = self.rng.randrange(0, v + 1)
            return '%d+%d' % (a, v - a), v
        return '0', 0

    def str_arg(self, may_empty=True):
        if may_empty and self.rng.random() < 0.3:
            return ''
        return str(self.rng.randrange(0, 100))

    def arg_for(self, p, others=()):
        if p.typ == 'num':
            if others and self.rng.random() < 0.12:
                # argument that spells another parameter's name (a global symbol of that name exists)
                o = self.rng.choice(others)
                self.need(o)
                self.feat.add('arg-spells-param')
                return self.rc(o)
            return self.num_arg()
        if p.typ == 'cnt':
            return self.cnt_arg()[0]
        if p.typ == 'sym':
            return self.rc(self.rng.choice(SYMS))
        return self.str_arg()

    def default_for(self, typ):
        if typ == 'num':
            return self.hexlit(self.rng.randrange(0, 61))
        if typ == 'cnt':
            return str(self.rng.randrange(0, 4))
        if typ == 'sym':
            return self.rng.choice(SYMS)
        return self.str_arg()

    # -- operands built from parameters
    def decoy(self, pname, visible):
        """identifier that contains a parameter name without being one"""
        vis = set(v if self.cs else v.lower() for v in visible)
        for _ in range(6):
            k = self.rng.randrange(5 if self.cs else 4)
            if k == 4:
                # case-sensitive mode: the same letters in another case are a different name
                d = pname.upper() if pname.upper() != pname else pname.lower()
                if d == pname:
                    continue
                self.feat.add('case-decoy')
            elif k == 0:
                d = 'z' + pname
            elif k == 1:
                d = pname + 'z'
            elif k == 2:
                d = pname + str(self.rng.randrange(0, 10))
            else:
                d = pname + pname
            if (d if self.cs else d.lower()) in vis or d.upper() in ('ALLARGS', 'ARGCOUNT', 'ATTRIBUTE'):
                continue
            self.need(d)
            self.feat.add('decoy')
            return d
        return None

    def operand(self, params, visible):
        """one byte-sized operand"""
        rng = self.rng
        cand = [p for p in params if p.typ in ('num', 'cnt', 'sym')]
        r = rng.random()
        if not cand or r < 0.2:
            return self.hexlit(rng.randrange(0, 256))
        p = rng.choice(cand)
        n = self.rc(p.name)
        if r < 0.55:
            return n
        if r < 0.65:
            return '%s+%d' % (n, rng.randrange(0, 20))
        if r < 0.72:
            return '%d+%s' % (rng.randrange(0, 20), n)
        if r < 0.8:
            d = self.decoy(p.name, visible)
            return d or n
        syms = [q for q in params if q.typ == 'sym']
        if syms and r < 0.9:
            a = rng.choice(syms)
            k = rng.randrange(4)
            self.feat.add('concat')
            if k == 0:
                b = rng.choice(syms)
                return '%s_%s' % (self.rc(a.name), self.rc(b.name))
            if k == 1:
                return '%s_%s' % (self.rc(a.name), rng.choice(SYMS))
            if k == 2:
                return '%s_%s' % (rng.choice(SYMS), self.rc(a.name))
            b = rng.choice(syms)
            # never at the end of a line: a trailing backslash continues the line
            return '\\%s\\\\%s\\+0' % (self.rc(a.name), self.rc(b.name))
        if r < 0.95:
            return '(%s)' % n
        return n

    def data_lines(self, params, visible, nmax=3):
        rng = self.rng
        out = []
        for _ in range(rng.randrange(1, nmax + 1)):
            k = rng.random()
            if k < 0.12 and self.strings:
                sp = [p for p in params if p.typ == 'str']
                if sp:
                    p = rng.choice(sp)
                    self.feat.add('param-in-string')
                    out.append('\t%s\t"<%s>"' % (self.bop, self.instr(p.name)))
                    continue
                lit = rng.choice(['zq', 'Zq9', 'zzz', 'z\tq', 'Z q\t', 'z\xe4\xffq;z'])
                if '\t' in lit:
                    self.feat.add('tab-in-string')      # a body is inserted as it is written, control characters included
                out.append('\t%s\t"%s"' % (self.bop, lit))
                continue
            ops = [self.operand(params, visible) for _ in range(rng.randrange(1, 5))]
            out.append(self.byte_stmt(ops))
            self.budget -= 1
        return out

    def sweep_line(self, params):
        """references every numeric parameter once (reaches the high parameter numbers)"""
        ops = [self.rc(p.name) for p in params if p.typ in ('num', 'cnt', 'sym')]
        out = []
        for i in range(0, len(ops), 8):
            out.append(self.byte_stmt(ops[i:i + 8]))
        return out

    def guarded(self, p, visible):
        """use of a possibly empty parameter"""
        lines = ['\t%s\t"%s"<>""' % (self.kw('if'), self.instr(p.name))]
        lines.append(self.byte_stmt([self.rc(p.name)]))
        if self.rng.random() < 0.4:
            lines.append('\t%s' % self.kw('else'))
            lines.append(self.byte_stmt([self.hexlit(self.rng.randrange(0, 256))]))
        lines.append('\t%s' % self.kw('endif'))
        self.feat.add('empty-guard')
        return lines

    def label_block(self, private_ok, fwd_ok=True):
        """a label definition with references on the same level: returns (lines, name)"""
        name = 'lb%d' % self.uid()
        rng = self.rng
        lines = []
        namesake = False
        fwd = fwd_ok and rng.random() < 0.5
        if private_ok and rng.random() < 0.3:
            # a global label of the same name exists as well: inside the body the name means the private label
            # ("labels defined in macros always are regarded as being local"), outside it means the global one
            namesake = True
        if fwd:
            lines.append(self.word_stmt([self.rc(name)]))
        lines.append('%s:' % name if rng.random() < 0.5 else '%s:%s' % (name, self.byte_stmt([self.hexlit(rng.randrange(256))])))
        if rng.random() < 0.7:
            lines.append(self.word_stmt([self.rc(name), '%s+1' % self.rc(name)] if rng.random() < 0.3 else [self.rc(name)]))
        return lines, name, namesake

    # -- bodies
    def body(self, depth, params, visible, ctx):
        """lines of one construct body.  params: parameters in scope (all enclosing levels),
        visible: all names that must not be reused or hit by decoys, ctx: dict."""
        rng = self.rng
        lines = []
        n = rng.randrange(1, 4)
        ctx = dict(ctx)
        ctx['visible'] = list(visible)
        for _ in range(n):
            if self.budget <= 0:
                break
            r = rng.random()
            if r < 0.45 or depth >= 3:
                lines += self.data_lines(params, visible)
            elif r < 0.55 and ctx.get('labels_ok', True):
                lb, name, namesake = self.label_block(ctx['private'])
                lines += lb
                self.feat.add('private-label' if ctx['private'] else 'global-label-in-body')
                if ctx['private'] and namesake:
                    self.later_refs.append(name)
                    if rng.random() < 0.5:
                        self.pre_refs.append(name)
                    self.feat.add('private-label-with-global-namesake')
                if not ctx['private']:
                    self.glabels.append(name)
            elif r < 0.62:
                sp = [p for p in params if p.typ == 'str']
                if sp:
                    lines += self.guarded(rng.choice(sp), visible)
                else:
                    lines += self.data_lines(params, visible)
            elif r < 0.70:
                lines += self.if_wrapped(depth, params, visible, ctx)
            else:
                lines += self.construct(depth + 1, params, visible, ctx)
        return lines

    def if_wrapped(self, depth, params, visible, ctx):
        """a construct inside IF ... [ELSE ...] ENDIF: the conditional stack of the caller must survive
        the expansion (and an EXITM inside it); a construct in the untaken branch is skipped as a whole"""
        rng = self.rng
        truth = rng.random() < 0.65
        cond = rng.choice(['1', 'k0', '2>1', '"A"="A"', 'k1=2']) if truth else rng.choice(['0', '1>2', '"A"="B"', 'k1=3'])
        dead = dict(ctx)
        dead.update(dead=True, labels_ok=bool(ctx.get('private')), all_global=False)
        live = ctx if truth else dead
        self.feat.add('construct-in-if' if truth else 'construct-in-untaken-if')
        lines = ['\t%s\t%s' % (self.kw('if'), cond)]
        lines += self.construct(depth + 1, params, visible, live)
        if rng.random() < 0.4:
            lines.append('\t%s' % self.kw('else'))
            other = dead if truth else ctx
            if rng.random() < 0.5:
                lines += self.construct(depth + 1, params, visible, other)
                self.feat.add('construct-in-else')
            else:
                lines += self.data_lines(params, visible, 1)
        lines.append('\t%s' % self.kw('endif'))
        return lines

    def sub_ctx(self, ctx, private, mult):
        c = dict(ctx)
        c['private'] = private
        c['macro_level'] = False
        c['mult'] = ctx.get('mult', 1) * max(1, mult)
        # {GLOBALSYMBOLS} only where every enclosing level is global as well (manual silent otherwise);
        # labels in a body whose passes share one symbol space only if it is passed once
        c['dead'] = ctx.get('dead', False) or mult == 0
        c['labels_ok'] = private or (ctx.get('all_global', True) and c['mult'] == 1 and not c['dead'])
        # (inside a repetition that is never passed nothing may define global labels)
        c['all_global'] = ctx.get('all_global', True) and not private and not c['dead']
        c['in_body'] = True
        return c

    def glob_choice(self, ctx, passes):
        """decide whether a repetition gets {GLOBALSYMBOLS}"""
        if ctx.get('all_global', True) and self.rng.random() < 0.2:
            self.feat.add('globalsymbols')
            return True
        return False

    def take_names(self, visible, n, style=None):
        st = style or self.rng.choice('AB')
        vis = set(v.lower() for v in visible)
        pool = [p for p in (PNAMES_A if st == 'A' else PNAMES_B) if p not in vis]
        if st != 'A':
            self.rng.shuffle(pool)
        if len(pool) < n:
            extra = [p for p in (PNAMES_B if st == 'A' else PNAMES_A) if p not in vis]
            self.rng.shuffle(extra)
            pool += extra
        while len(pool) < n:
            pool.append('qv%dq' % self.uid())
        return pool[:n]

    def construct(self, depth, params, visible, ctx):
        rng = self.rng
        kinds = ['rept', 'irp', 'irpn', 'irpc', 'while', 'call', 'call', 'include', 'binclude']
        k = rng.choice(kinds)
        if ctx.get('mult', 1) > 60 and k in ('rept', 'while', 'irp', 'irpn', 'irpc'):
            k = 'call'
        if k == 'call':
            c = self.call_any(ctx)
            if c:
                return c
            k = 'rept'
        if k == 'include' and (depth >= 3 or ctx.get('in_include', 0) >= 2):
            k = 'rept'
        return getattr(self, 'c_' + k)(depth, params, visible, ctx)

    def ctrl(self, glob):
        if glob:
            return '{%s}' % self.rng.choice(['GLOBALSYMBOLS', 'globalsymbols', 'GlobalSymbols'])
        if self.rng.random() < 0.05:
            return '{NOGLOBALSYMBOLS}'
        return None

    def exit_block(self, cond):
        self.feat.add('exitm')
        core = ['\t%s\t%s' % (self.kw('if'), cond), '\t%s' % self.kw('exitm'), '\t%s' % self.kw('endif')]
        if self.rng.random() < 0.25:
            # EXITM from two open IFs: the stack of conditionals is reset to the state before the expansion
            self.feat.add('exitm-nested-if')
            core = ['\t%s\t%d' % (self.kw('if'), self.rng.randrange(1, 4))] + core + ['\t%s' % self.kw('endif')]
        return core

    def c_rept(self, depth, params, visible, ctx):
        rng = self.rng
        cp = [p for p in params if p.typ == 'cnt']
        if cp and rng.random() < 0.5:
            cnt_txt, cnt = self.rc(rng.choice(cp).name), 5
        else:
            r = rng.random()
            if r < 0.05:
                cnt_txt, cnt = rng.choice(['0-1', '0-3', '2-5']), 0      # "equal to or smaller than 0: no expansion at all"
                self.feat.add('rept-negative-count')
            elif r < 0.15:
                cnt_txt, cnt = '0', 0
            elif r < 0.85:
                cnt_txt, cnt = self.cnt_arg(0, 6)
            elif ctx.get('mult', 1) == 1:
                cnt = rng.randrange(7, 41)
                cnt_txt = str(cnt)
            else:
                cnt_txt, cnt = self.cnt_arg(1, 3)
        glob = cnt <= 1 and cnt_txt.isdigit() and self.glob_choice(ctx, cnt)
        c = self.sub_ctx(ctx, not glob, cnt)
        if glob and cnt != 1:
            c['labels_ok'] = False      # never passed: its labels would not exist
        args = [cnt_txt]
        ct = self.ctrl(glob)
        if ct:
            args.insert(rng.randrange(2), ct)
        self.feat.add('rept')
        lines = ['\t%s\t%s' % (self.kw('rept'), ','.join(args))]
        b = self.body(depth, params, visible, c)
        if rng.random() < 0.12 and cnt_txt.isdigit() and cnt >= 2:
            # leave after a given pass: pass counter kept in a SET symbol
            w = 'w%d' % self.uid()
            lines.insert(0, '%s\tset\t0' % w)
            # (the EXITM sits in front of the generated body: it must not separate a label from its references)
            b = (['%s\tset\t%s+1' % (w, self.rc(w))] + self.data_lines(params, visible, 1) +
                 self.exit_block('%s=%d' % (self.rc(w), rng.randrange(1, cnt + 1))) + b)
        lines += b
        lines.append('\t%s' % self.kw(rng.choice(['endm', 'endm', 'endr'])))
        return lines

    def c_while(self, depth, params, visible, ctx):
        rng = self.rng
        w = 'w%d' % self.uid()
        cp = [p for p in params if p.typ == 'cnt']
        if cp and rng.random() < 0.5:
            lim, n = self.rc(rng.choice(cp).name), 5
        else:
            lim, n = self.cnt_arg(0, 5)
        start = rng.choice([0, 0, 1])
        c = self.sub_ctx(ctx, True, n)
        self.feat.add('while')
        lines = ['%s\tset\t%d' % (w, start), '\t%s\t%s<%s' % (self.kw('while'), self.rc(w), lim)]
        if rng.random() < 0.3:
            # "assembled until the expression becomes logically false": any value other than 0 is true, negative ones included
            # (a counter that runs up to zero, or the distance to a limit as the condition)
            m = rng.randrange(1, 5)
            if rng.random() < 0.5:
                lines = ['%s\tset\t0-%d' % (w, m), '\t%s\t%s' % (self.kw('while'), self.rc(w))]
            else:
                lines = ['%s\tset\t%d' % (w, start), '\t%s\t%s-%d' % (self.kw('while'), self.rc(w), start + m)]
            self.feat.add('while-arith')
        b = self.body(depth, params, visible, c)
        b.insert(0, self.byte_stmt([self.rc(w)]))
        if rng.random() < 0.15:
            b += self.exit_block('%s=%d' % (self.rc(w), rng.randrange(0, 4)))
        b.append('%s\tset\t%s+1' % (w, self.rc(w)))
        lines += b
        lines.append('\t%s' % self.kw('endm'))
        return lines

    def c_irp(self, depth, params, visible, ctx):
        rng = self.rng
        name = self.take_names(visible, 1)[0]
        nargs = rng.choice([1, 1, 2, 3, 4, 6, 9])
        if ctx.get('mult', 1) > 8:
            nargs = min(nargs, 2)
        typ = rng.choice(['num', 'num', 'cnt', 'sym'])
        p = Param(name, typ)
        args = [self.arg_for(p) for _ in range(nargs)]
        glob = False
        if typ == 'sym' and ctx.get('all_global', True) and ctx.get('mult', 1) == 1 and rng.random() < 0.5:
            glob = True
        c = self.sub_ctx(ctx, not glob, nargs)
        if glob:
            c['labels_ok'] = False
        self.feat.add('irp')
        hdr = [name] + args
        ct = self.ctrl(glob)
        if ct:
            hdr.insert(rng.choice([0, 1, len(hdr)]), ct)
        lines = ['\t%s\t%s' % (self.kw('irp'), ','.join(hdr))]
        b = self.body(depth, params + [p], visible + [name], c)
        if glob:
            # a global label per pass, named after the argument
            distinct = []
            for a in args:
                if a.lower() not in distinct:
                    distinct.append(a.lower())
            if len(distinct) == len(args):
                pre = 'gq%d' % self.uid()
                b.insert(0, '%s_%s:' % (pre, self.rc(name)))
                for a in args:
                    self.glabels.append('%s_%s' % (pre, a))
                self.feat.add('globalsymbols')
                self.feat.add('label-from-parameter')
        if typ == 'cnt' and rng.random() < 0.3:
            b = self.data_lines(params + [p], visible + [name], 1) + self.exit_block('%s=%d' % (self.rc(name), rng.randrange(0, 5))) + b
        lines += b
        lines.append('\t%s' % self.kw('endm'))
        return lines

    def c_irpn(self, depth, params, visible, ctx):
        rng = self.rng
        g = rng.choice([1, 2, 2, 3, 4])
        names = self.take_names(visible, g)
        maxargs = 19 - g
        ngroups = rng.choice([1, 2, 3, 4])
        if ctx.get('mult', 1) > 8:
            ngroups = 1
        nargs = min(maxargs, g * ngroups)
        if g > 1 and rng.random() < 0.5:
            nargs = max(g, nargs - rng.randrange(1, g))       # ragged tail
        ps = [Param(nm, 'str') for nm in names]
        ps[0].typ = 'num'
        args = []
        for i in range(nargs):
            args.append(self.num_arg() if i % g == 0 else self.str_arg(may_empty=False))
        cnt_txt = str(g) if rng.random() < 0.8 else self.rc('k%d' % (g - 1))
        c = self.sub_ctx(ctx, True, (nargs + g - 1) // g)
        self.feat.add('irpn')
        if nargs % g:
            self.feat.add('irpn-ragged')
        lines = ['\t%s\t%s' % (self.kw('irpn'), ','.join([cnt_txt] + names + args))]
        b = [self.byte_stmt([self.rc(names[0])])]
        for q in ps[1:]:
            b += self.guarded(q, visible + names)
        b += self.body(depth, params + ps[:1], visible + names, c)
        lines += b
        lines.append('\t%s' % self.kw('endm'))
        return lines

    def c_irpc(self, depth, params, visible, ctx):
        rng = self.rng
        name = self.take_names(visible, 1)[0]
        digits = rng.random() < 0.5
        n = rng.choice([0, 1, 2, 3, 5, 8]) if ctx.get('mult', 1) <= 8 else 1
        alphabet = '0123456789' if digits else 'abcxyzABCXYZ0189 '
        while True:
            s = ''.join(rng.choice(alphabet) for _ in range(n))
            # the string must not spell a parameter name: an enclosing expansion would replace it, and the
            # argument would arrive upper-cased when AS is not case-sensitive (string context, see ASSUMPTIONS)
            if not any(w.lower() in PNAMES_B or w.lower() in PNAMES_A for w in re.findall(r'[A-Za-z0-9]+', s)):
                break
        c = self.sub_ctx(ctx, True, n)
        self.feat.add('irpc')
        lines = ['\t%s\t%s,"%s"' % (self.kw('irpc'), name, s)]
        b = []
        if digits:
            b.append(self.byte_stmt([self.rc(name), '%s+1' % self.rc(name), '1+%s' % self.rc(name)][:rng.randrange(1, 4)]))
        else:
            b.append(self.byte_stmt(["'%s'" % self.instr(name)]))
        p = Param(name, 'num')
        b += self.body(depth, params + ([p] if digits else []), visible + [name], c)
        lines += b
        lines.append('\t%s' % self.kw('endm'))
        return lines

    def sub_include(self):
        """an include file in a sub-directory that itself includes files lying next to it
        (only from the top level of the main file: which directory counts inside an expansion
        is not stated by the manual)"""
        rng = self.rng
        d = 'sub%d' % self.uid()
        fname = 'inc%d.inc' % self.uid()
        content = self.data_lines([], [], 2)
        if rng.random() < 0.7:
            inner = 'inc%d.inc' % self.uid()
            self.files['%s/%s' % (d, inner)] = '\n'.join(self.data_lines([], [], 2)) + '\n'
            content.append('\t%s\t%s' % (self.kw('include'), rng.choice(['"%s"' % inner, inner, inner[:-4]])))
        if rng.random() < 0.7:
            b = 'bin%d.bin' % self.uid()
            n = rng.choice([2, 4, 10])
            self.bins['%s/%s' % (d, b)] = bytes(rng.randrange(256) for _ in range(n))
            content.append('\t%s\t"%s"' % (self.kw('binclude'), b))
        content += ['\t%s\t2' % self.kw('rept')] + self.data_lines([], [], 1) + ['\t%s' % self.kw('endm')]
        self.files['%s/%s' % (d, fname)] = '\n'.join(content) + '\n'
        self.feat.add('include-from-subdirectory')
        return ['\t%s\t"%s/%s"' % (self.kw('include'), d, fname)]

    def c_include(self, depth, params, visible, ctx):
        rng = self.rng
        if ctx.get('private') is None and not ctx.get('in_include') and rng.random() < 0.3:
            return self.sub_include()
        fname = 'inc%d' % self.uid()
        c = dict(ctx)
        c['in_include'] = ctx.get('in_include', 0) + 1
        c['macro_level'] = False
        # the text of the file is not part of the enclosing body: it sees no parameters
        content = self.body(depth, [], visible, c)
        if not ctx.get('in_body') and not ctx.get('dead') and rng.random() < 0.4:
            # a macro defined in the include file and used after it
            m = self.def_macro(visible)
            content = m + content
        text = '\n'.join(content) + ('\n' if rng.random() < 0.8 else '')
        self.files[fname + '.inc'] = text
        self.feat.add('include')
        form = rng.randrange(3)
        if form == 0:
            return ['\t%s\t%s' % (self.kw('include'), fname)]
        if form == 1:
            return ['\t%s\t"%s.inc"' % (self.kw('include'), fname)]
        return ['\t%s\t%s.inc' % (self.kw('include'), fname)]

    def c_binclude(self, depth, params, visible, ctx):
        rng = self.rng
        fname = 'bin%d.bin' % self.uid()
        n = rng.choice([1, 2, 7, 16, 17, 100, 255, 256, 257, 300, 513, 1025]) if ctx.get('mult', 1) <= 4 else rng.choice([1, 2, 5])
        if self.bop is None:
            n += n % 2
        data = bytes(rng.randrange(256) for _ in range(n))
        self.feat.add('binclude')
        self.budget -= n // 8
        args = [fname if rng.random() < 0.5 else '"%s"' % fname]
        r = rng.random()
        step = 2 if self.bop is None else 1
        z = rng.random()
        if z < 0.06 or ctx.get('zero'):
            # nothing to include: empty file / offset at the end of the file / length 0
            self.feat.add('binclude-zero-bytes')
            k = rng.randrange(3)
            if k == 0:
                data = b''
            elif k == 1:
                args.append(str(n))
            else:
                args += [str(rng.randrange(0, n // step + 1) * step), '0']
            self.bins[fname] = data
            return ['\t%s\t%s' % (self.kw('binclude'), ','.join(args))]
        self.bins[fname] = data
        if r < 0.35 and n > step:
            off = rng.randrange(0, n // step) * step
            args.append(str(off))
            self.feat.add('binclude-offset')
        elif r < 0.7 and n > step:
            off = rng.randrange(0, n // step) * step
            ln = rng.randrange(1, (n - off) // step + 1) * step
            args += [self.hexlit(off), str(ln)]
            self.feat.add('binclude-offset-length')
        lab = ''
        if rng.random() < 0.15 and ctx.get('labels_ok', True) and ctx.get('private') is not None:
            pass
        return ['%s\t%s\t%s' % (lab, self.kw('binclude'), ','.join(args))]

    # -- SHIFT inside nested repetitions
    def shift_block(self, params, vis, levels, maxshift, plain=False):
        """a repetition (REPT/WHILE/IRP/IRPN/IRPC, `levels` deep) whose innermost body executes SHIFT;
        returns (lines, number of SHIFTs executed).  The lines of the block are read through the macro
        expansion before the block runs, so parameters inside it keep the values from before the block."""
        rng = self.rng
        inner_max = maxshift
        kind = rng.choice(['rept', 'while', 'irp', 'irpn', 'irpc'])
        if levels > 1:
            passes = 2 if maxshift >= 2 else 1
        else:
            passes = rng.randrange(1, min(3, maxshift) + 1)
        if kind == 'irpn' and passes == 1 and rng.random() < 0.5:
            pass
        inner_max = maxshift // passes
        own = self.take_names(vis, 2)
        vis = list(vis) + own
        if levels > 1 and inner_max >= 1:
            inner, n_in = self.shift_block(params, vis, levels - 1, inner_max, plain)
        else:
            inner, n_in = ['\t%s' % self.kw('shift')], 1
        extra = []
        if not plain and params and rng.random() < 0.7:
            ops = [self.rc(rng.choice(params).name)]
            if rng.random() < 0.4:
                ops.append(rng.choice(['ARGCOUNT', 'argcount']))
            extra.append(self.byte_stmt(ops))
            if rng.random() < 0.3:
                extra.append(self.byte_stmt([rng.choice(['ALLARGS', 'allargs'])]))
        body = (extra + inner) if rng.random() < 0.7 else (inner + extra)
        glob = None
        if kind == 'rept':
            hdr = ['\t%s\t%s' % (self.kw('rept'), self.cnt_arg(passes, passes)[0])]
        elif kind == 'while':
            w = 'w%d' % self.uid()
            hdr = ['%s\tset\t0' % w, '\t%s\t%s<%d' % (self.kw('while'), self.rc(w), passes)]
            body = body + ['%s\tset\t%s+1' % (w, self.rc(w))]
        elif kind == 'irp':
            v = own[0]
            hdr = ['\t%s\t%s,%s' % (self.kw('irp'), v, ','.join(self.hexlit(rng.randrange(0, 99)) for _ in range(passes)))]
            if not plain and rng.random() < 0.5:
                body = [self.byte_stmt([self.rc(v)])] + body
        elif kind == 'irpn':
            vs = own
            nargs = 2 * passes - (1 if passes > 1 and rng.random() < 0.5 else 0)
            hdr = ['\t%s\t2,%s,%s' % (self.kw('irpn'), ','.join(vs), ','.join(str(rng.randrange(0, 99)) for _ in range(nargs)))]
            if not plain and rng.random() < 0.5:
                body = [self.byte_stmt([self.rc(vs[0])])] + body
        else:
            v = own[0]
            hdr = ['\t%s\t%s,"%s"' % (self.kw('irpc'), v, ''.join(rng.choice('0123456789') for _ in range(passes)))]
            if not plain and rng.random() < 0.5:
                body = [self.byte_stmt([self.rc(v)])] + body
        return hdr + body + ['\t%s' % self.kw(rng.choice(['endm', 'endm', 'endr']))], passes * n_in

    def after_shift(self, params):
        rng = self.rng
        out = []
        pick = rng.sample(['all', 'cnt', 'par', 'irp'], rng.randrange(2, 5))
        for k in pick:
            if k == 'all':
                out.append(self.byte_stmt([rng.choice(['ALLARGS', 'allargs', 'AllArgs'])]))
            elif k == 'cnt':
                out.append(self.byte_stmt([rng.choice(['ARGCOUNT', 'argcount']), 'ARGCOUNT+1'][:rng.randrange(1, 3)]))
            elif k == 'par':
                out.append(self.byte_stmt([self.rc(p.name) for p in params]))
            else:
                v = self.take_names([p.name for p in params], 1)[0]
                out += ['\t%s\t%s,%s' % (self.kw('irp'), v, rng.choice(['ALLARGS', 'allargs'])), self.byte_stmt([self.rc(v)]),
                        '\t%s' % self.kw('endm')]
        return out

    def helper_macro(self):
        """a macro that lays down one byte per parameter, $ee for an empty one (shows the position of every argument)"""
        if self.helper:
            return []
        self.helper = 'mh%d' % self.uid()
        names = self.take_names([], 7, 'B')
        lines = ['%s\t%s\t%s' % (self.helper, self.kw('macro'), ','.join(names))]
        for nm in names:
            lines += ['\t%s\t"%s"<>""' % (self.kw('if'), self.instr(nm)), self.byte_stmt([self.rc(nm)]), '\t%s' % self.kw('else'),
                      self.byte_stmt(['$ee' if self.mhex else '238']), '\t%s' % self.kw('endif')]
        lines.append('\t%s' % self.kw('endm'))
        return lines

    def empty_construct(self, vis):
        """(lines, definitions needed in front of the macro): a construct that assembles nothing"""
        rng = self.rng
        end = '\t%s' % self.kw(rng.choice(['endm', 'endm', 'endr']))
        k = rng.randrange(8)
        self.feat.add('empty-body')
        if k == 0:
            return ['\t%s\t%s' % (self.kw('rept'), self.cnt_arg(0, 3)[0]), end], []
        if k == 1:
            v = self.take_names(vis, 1)[0]
            return ['\t%s\t%s,%s' % (self.kw('irp'), v, ','.join(self.num_arg() for _ in range(rng.randrange(1, 4)))), end], []
        if k == 2:
            vs = self.take_names(vis, 2)
            return ['\t%s\t2,%s,%s' % (self.kw('irpn'), ','.join(vs), ','.join(str(rng.randrange(99)) for _ in range(rng.randrange(2, 6)))), end], []
        if k == 3:
            v = self.take_names(vis, 1)[0]
            return ['\t%s\t%s,"%s"' % (self.kw('irpc'), v, ''.join(rng.choice('0123456789') for _ in range(rng.randrange(0, 4)))), end], []
        if k == 4:
            return ['\t%s\t%s' % (self.kw('while'), rng.choice(['0', '1>2', 'k0=2'])), end], []
        if k == 5:
            # never passed, body not empty
            return ['\t%s\t%s' % (self.kw('rept'), rng.choice(['0', '0-1'])), self.byte_stmt([self.hexlit(rng.randrange(256))]), end], []
        if k == 6:
            return ['\t%s\t%s' % (self.kw('while'), rng.choice(['0', '2<1'])), self.byte_stmt([self.hexlit(rng.randrange(256))]), end], []
        pl = []
        if not self.empty_macro:
            self.empty_macro = 'me%d' % self.uid()
            pl = ['%s\t%s' % (self.empty_macro, self.kw('macro')), '\t%s' % self.kw('endm')]
        return ['\t%s' % self.empty_macro], pl

    # -- {GLOBALSYMBOLS} on every repetition, labels used outside
    def c_globrep(self):
        rng = self.rng
        kind = rng.choice(['rept', 'while', 'irp', 'irpn', 'irpc'])
        pre = 'gr%d' % self.uid()
        opt = '{%s}' % rng.choice(['GLOBALSYMBOLS', 'globalsymbols', 'GlobalSymbols'])
        end = '\t%s' % self.kw('endm')
        labels = []

        def put(args):
            args = list(args)
            args.insert(rng.randrange(len(args) + 1), opt)
            return ','.join(args)
        data = self.byte_stmt([self.hexlit(rng.randrange(256))])
        if kind == 'rept':
            lines = ['\t%s\t%s' % (self.kw('rept'), put(['1'])), '%s:%s' % (pre, data), end]
            labels = [pre]
        elif kind == 'while':
            w = 'w%d' % self.uid()
            lines = ['%s\tset\t0' % w, '\t%s\t%s' % (self.kw('while'), put(['%s<1' % self.rc(w)])), '%s:%s' % (pre, data),
                     '%s\tset\t%s+1' % (w, self.rc(w)), end]
            labels = [pre]
        elif kind == 'irp':
            v = self.take_names([], 1)[0]
            syms = rng.sample(SYMS, rng.randrange(1, 4))
            lines = ['\t%s\t%s' % (self.kw('irp'), put([v] + syms)), '%s_%s:%s' % (pre, self.rc(v), self.byte_stmt([self.rc(v)])), end]
            labels = ['%s_%s' % (pre, x) for x in syms]
        elif kind == 'irpn':
            vs = self.take_names([], 2)
            syms = rng.sample(SYMS, rng.randrange(1, 4))
            args = []
            for x in syms:
                args += [x, str(rng.randrange(0, 99))]
            if len(syms) > 1 and rng.random() < 0.4:
                args.pop()             # ragged tail
            body = ['%s_%s:%s' % (pre, self.rc(vs[0]), self.byte_stmt([self.rc(vs[0])]))] + self.guarded(Param(vs[1], 'str'), vs)
            lines = ['\t%s\t%s' % (self.kw('irpn'), put(['2'] + vs + args))] + body + [end]
            labels = ['%s_%s' % (pre, x) for x in syms]
        else:
            v = self.take_names([], 1)[0]
            chars = rng.sample('abcxyz0189', rng.randrange(1, 4))
            lines = ['\t%s\t%s' % (self.kw('irpc'), put([v, '"%s"' % ''.join(chars)])),
                     '%s_%s:%s' % (pre, self.rc(v), self.byte_stmt(["'%s'" % self.instr(v)])), end]
            labels = ['%s_%s' % (pre, c) for c in chars]
        self.glabels += labels
        for l in labels:
            if rng.random() < 0.5:
                self.pre_refs.append(l)
        self.feat.update(['globalsymbols', 'globalsymbols-' + kind, 'global-label-used-outside'])
        return lines

    # -- a label on a line of its own in front of a construct whose first statement is padded (manual, PADDING)
    def c_padalign(self):
        rng = self.rng
        g = 'gp%d' % self.uid()
        self.glabels.append(g)
        if rng.random() < 0.5:
            self.pre_refs.append(g)
        lines = ['\tpadding\ton', '\tdc.b\t%s' % ','.join(str(rng.randrange(256)) for _ in range(rng.choice([1, 1, 3, 5])))]
        words = '\tdc.w\t%s' % ','.join(self.hexlit(rng.randrange(65536)) for _ in range(rng.randrange(1, 4)))
        k = rng.randrange(6)
        pre = []
        if k == 0:
            fname = 'inc%d' % self.uid()
            self.files[fname + '.inc'] = words + '\n' + '\n'.join(self.data_lines([], [], 1)) + '\n'
            con = ['\t%s\t%s' % (self.kw('include'), fname)]
        elif k == 1:
            mname = 'mw%d' % self.uid()
            pre = ['%s\t%s' % (mname, self.kw('macro')), words, '\t%s' % self.kw('endm')]
            con = ['\t%s' % mname]
        elif k == 2:
            con = ['\t%s\t%d' % (self.kw('rept'), rng.randrange(1, 4)), words, '\t%s' % self.kw('endm')]
        elif k == 3:
            v = self.take_names([], 1)[0]
            con = ['\t%s\t%s,%d,%d' % (self.kw('irp'), v, rng.randrange(99), rng.randrange(99)), '\tdc.w\t%s' % v, '\t%s' % self.kw('endm')]
        elif k == 4:
            w = 'w%d' % self.uid()
            con = ['%s\tset\t0' % w, '\t%s\t%s<2' % (self.kw('while'), w), words, '%s\tset\t%s+1' % (w, w), '\t%s' % self.kw('endm')]
        else:
            v = self.take_names([], 1)[0]
            con = ['\t%s\t%s,"%d"' % (self.kw('irpc'), v, rng.randrange(10, 99)), '\tdc.w\t%s' % v, '\t%s' % self.kw('endm')]
        if k == 4:
            # the SET line would separate the label from the padded statement
            lines = pre + lines + con[:1] + ['%s:' % g] + con[1:]
        else:
            lines = pre + lines + ['%s:' % g] + con
        lines += [self.word_stmt([self.rc(g)]), '\tpadding\toff']
        self.feat.add('lone-label-in-front-of-padded-construct')
        return lines

    # -- macros
    def def_macro(self, visible, force=None):
        """returns the lines of a macro definition and registers it"""
        rng = self.rng
        m = Macro()
        m.name = 'mc%d' % self.uid()
        r = rng.random()
        if r < 0.05:
            np_ = 0
        elif r < 0.5:
            np_ = rng.randrange(1, 5)
        elif r < 0.6:
            np_ = rng.randrange(5, 8)
        elif r < 0.85:
            np_ = rng.randrange(8, 14)
        else:
            np_ = rng.randrange(14, 21)
        kind = force or rng.choice(['plain'] * 6 + ['irp', 'shiftrec', 'shift', 'rec', 'argcount', 'attr', 'glob', 'override', 'definer',
                                                   'shiftnest', 'shiftnest', 'shiftfwd', 'emptynest', 'emptynest'])
        if kind == 'override' and self.overridden:
            kind = 'plain'
        if kind == 'attr' and not self.has_attr:
            kind = 'plain'
        if kind == 'override':
            # "macros allow to redefine processor instructions"; !name reaches the original meaning
            self.overridden = True
            m.name = 'nop'
            self.feat.add('instruction-overridden')
        if kind in ('shiftrec',):
            np_ = 1
        if kind == 'shift':
            np_ = rng.randrange(1, 5)
        if kind in ('shiftnest', 'shiftfwd'):
            np_ = rng.randrange(1, 4)
        if kind == 'emptynest':
            np_ = rng.randrange(0, 3)
        if kind == 'rec':
            np_ = max(1, min(np_, 4))
        style = rng.choice('AAB')
        names = self.take_names(visible, np_, style)
        np_ = len(names)
        for nm in names:
            typ = rng.choice(['num', 'num', 'num', 'cnt', 'sym', 'str'])
            m.params.append(Param(nm, typ))
        if kind in ('irp', 'shiftrec', 'shift', 'shiftnest', 'emptynest'):
            for p in m.params:
                p.typ = 'num'
        if kind == 'shiftfwd':
            for p in m.params:
                p.typ = 'str'
        if kind == 'rec':
            m.params[0].typ = 'cnt'
        # defaults
        if kind in ('plain', 'attr', 'glob', 'rec', 'override', 'definer'):
            for p in m.params[1 if kind == 'rec' else 0:]:
                if rng.random() < 0.3:
                    p.default = self.default_for(p.typ)
        vis = visible + names
        ctx = {'private': True, 'macro_level': True, 'mult': 1, 'all_global': False, 'labels_ok': True, 'in_body': True}
        hdr = []
        for p in m.params:
            hdr.append(p.name + ('=' + p.default if p.default != '' else ''))
        if kind == 'glob':
            m.glob = True
            m.once = True
            ctx = {'private': False, 'macro_level': True, 'mult': 1, 'all_global': True, 'labels_ok': True, 'in_body': True}
            hdr.insert(rng.randrange(len(hdr) + 1), '{%s}' % rng.choice(['GLOBALSYMBOLS', 'globalsymbols']))
            self.feat.add('globalsymbols')
        elif rng.random() < 0.05:
            hdr.append('{NOGLOBALSYMBOLS}')
        if rng.random() < 0.12:
            # listing options: accepted in the parameter list, no influence on the code
            hdr.insert(rng.randrange(len(hdr) + 1), '{%s}' % rng.choice(
                ['EXPAND', 'NOEXPAND', 'EXPIF', 'NOEXPIF', 'EXPMACRO', 'NOEXPMACRO', 'EXPREST', 'NOEXPREST', 'noexpand']))
            self.feat.add('listing-option')
        pre_lines = []
        body = []
        if rng.random() < 0.5 and np_:
            body += self.sweep_line(m.params)
        if kind == 'irp':
            m.variadic = 'irp'
            m.uses_allargs = True
            v = self.take_names(vis, 1)[0]
            body += ['\t%s\t%s,%s' % (self.kw('irp'), v, rng.choice(['ALLARGS', 'allargs', 'AllArgs'])),
                     self.byte_stmt([self.rc(v)]), '\t%s' % self.kw('endm')]
            self.feat.add('allargs')
        elif kind == 'shiftrec':
            m.variadic = 'shiftrec'
            m.uses_allargs = True
            p = m.params[0]
            body = ['\t%s\t"%s"<>""' % (self.kw('if'), self.instr(p.name)), self.byte_stmt([self.rc(p.name)]),
                    '\t%s' % self.kw('shift'), '\t%s\t%s' % (m.name, rng.choice(['ALLARGS', 'allargs'])), '\t%s' % self.kw('endif')]
            self.feat.update(['allargs', 'shift', 'recursion'])
        elif kind == 'shift':
            m.variadic = 'shift'
            m.nshift = rng.randrange(1, 4)
            for _ in range(m.nshift):
                body.append(self.byte_stmt([self.rc(rng.choice(m.params).name)]))
                body.append('\t%s' % self.kw('shift'))
            body.append(self.byte_stmt([self.rc(p.name) for p in m.params]))
            if rng.random() < 0.4:
                m.uses_allargs = True
                body.append(self.byte_stmt([rng.choice(['ALLARGS', 'allargs'])]))
                self.feat.add('allargs')
            self.feat.add('shift')
        elif kind == 'shiftnest':
            # SHIFT executed from inside repetitions nested in the macro body, then ALLARGS / ARGCOUNT / the
            # named parameters at macro level and inside the next block
            m.variadic = 'shift'
            m.uses_allargs = True
            m.nshift = 0
            for _ in range(rng.randrange(1, 3)):
                if m.nshift >= 6:
                    break
                blk, n = self.shift_block(m.params, vis, rng.choice([1, 1, 2]), 6 - m.nshift)
                body += blk
                m.nshift += n
                body += self.after_shift(m.params)
            self.feat.update(['shift', 'shift-in-nested-block', 'allargs', 'argcount'])
        elif kind == 'shiftfwd':
            # the rest of the list, empty arguments included, handed on to another macro
            m.variadic = 'shiftfwd'
            m.uses_allargs = True
            m.nshift = rng.randrange(1, 3)
            pre_lines += self.helper_macro()
            for p in m.params:
                if rng.random() < 0.5:
                    body += self.guarded(p, vis)
            if rng.random() < 0.3:
                blk, n = self.shift_block([], vis, 1, m.nshift, plain=True)
                body += blk
                m.nshift = n
            else:
                body += ['\t%s' % self.kw('shift')] * m.nshift
            body.append('\t%s\t%s' % (self.helper, rng.choice(['ALLARGS', 'allargs'])))
            if rng.random() < 0.5:
                body.append(self.byte_stmt([rng.choice(['ARGCOUNT', 'argcount'])]))
            self.feat.update(['shift', 'allargs', 'allargs-with-empty-arguments'])
        elif kind == 'emptynest':
            # constructs with an empty body (or never passed) between private labels of the enclosing macro
            m.min_calls = 2
            la = 'lb%d' % self.uid()
            lb = 'lb%d' % self.uid()
            if rng.random() < 0.6:
                body.append(self.word_stmt([self.rc(la)]))
            body.append('%s:%s' % (la, self.byte_stmt([self.operand(m.params, vis)])))
            for _ in range(rng.randrange(1, 3)):
                e, pl = self.empty_construct(vis)
                pre_lines += pl
                body += e
                if rng.random() < 0.4:
                    body.append(self.word_stmt([self.rc(la)]))
            body.append('%s:' % lb if rng.random() < 0.5 else '%s:%s' % (lb, self.byte_stmt([self.operand(m.params, vis)])))
            body.append(self.word_stmt([self.rc(la), self.rc(lb)]))
            if rng.random() < 0.3:
                e, pl = self.empty_construct(vis)
                pre_lines += pl
                body += e
            self.feat.update(['empty-body-in-macro', 'private-label'])
        elif kind == 'rec':
            m.rec = True
            p = m.params[0]
            others = ','.join(self.rc(q.name) for q in m.params[1:])
            body += ['\t%s\t%s>0' % (self.kw('if'), self.rc(p.name))]
            body += self.data_lines(m.params, vis, 2)
            body += ['\t%s\t%s-1%s' % (m.name, self.rc(p.name), (',' + others) if others else ''), '\t%s' % self.kw('endif')]
            self.feat.add('recursion')
        else:
            if kind == 'argcount':
                m.uses_argcount = True
                body.append(self.byte_stmt([rng.choice(['ARGCOUNT', 'argcount', 'ArgCount'])]))
                self.need('zARGCOUNT')
                if rng.random() < 0.3:
                    body.append(self.byte_stmt(['zARGCOUNT', 'ARGCOUNT+1']))
                self.feat.add('argcount')
            if kind == 'attr':
                m.uses_attr = True
                body.append('\tdc.%s\t%s' % (rng.choice(['ATTRIBUTE', 'attribute', 'Attribute']), self.operand(m.params, vis)))
                self.feat.add('attribute')
            if kind == 'definer':
                # a macro that defines another macro: its parameters are inserted into the inner definition as well
                m.once = True
                iname = 'mi%d' % self.uid()
                inames = self.take_names(vis, rng.randrange(0, 4))
                iparams = [Param(nm, rng.choice(['num', 'num', 'sym'])) for nm in inames]
                body.append('%s\t%s\t%s' % (iname, self.kw('macro'), ','.join(inames)))
                body += self.data_lines(m.params + iparams, vis + inames, 2)
                body.append('\t%s' % self.kw('endm'))
                for _ in range(rng.randrange(1, 3)):
                    body.append('\t%s\t%s' % (iname, ','.join(self.arg_for(q) for q in iparams)))
                self.feat.add('macro-defined-by-macro')
            if kind == 'override':
                body.append('\t!nop')
            body += self.body(1, m.params, vis, ctx)
            cp = [p for p in m.params if p.typ == 'cnt']
            if cp and rng.random() < 0.3:
                body += self.exit_block('%s>%d' % (self.rc(rng.choice(cp).name), rng.randrange(0, 4)))
                body += self.data_lines(m.params, vis, 1)
            for p in m.params:
                if p.typ == 'str' and rng.random() < 0.6:
                    body += self.guarded(p, vis)
        if kind == 'glob':
            m.glabels = []
        lines = pre_lines + ['%s\t%s\t%s' % (m.name, self.kw('macro'), ','.join(hdr))] + body + ['\t%s' % self.kw('endm')]
        # a macro whose body loops or calls is not called from inside repetitions (bounds the size of the expansion)
        ops = [(macroexp.split_line(b)[1] or '').upper() for b in body]
        m.heavy = m.rec or any(o in macroexp.STARTERS or o.startswith('MC') or o.startswith('MI') or o == 'INCLUDE' for o in ops)
        self.macros.append(m)
        self.feat.add('macro')
        return lines

    def call_any(self, ctx):
        ms = [m for m in self.macros if not (m.once and (m.calls or ctx.get('in_body') or ctx.get('dead')))]
        if ctx.get('mult', 1) > 4:
            ms = [m for m in ms if not m.heavy]
        if not ms:
            return None
        m = self.rng.choice(ms[-6:])
        return self.call(m, ctx)

    def call(self, m, ctx):
        rng = self.rng
        m.calls += 1
        np_ = len(m.params)
        names = [p.name for p in m.params]
        args = []
        name = m.name if self.cs else self.rc(m.name)
        attr = ''
        if m.uses_attr:
            attr = '.' + rng.choice(['w', 'W', 'l'])
        if m.variadic in ('irp', 'shiftrec'):
            n = rng.randrange(max(1, np_), min(20, np_ + 6) + 1) if m.variadic == 'irp' else rng.randrange(1, 8)
            p = Param('x', 'num')
            args = [self.num_arg() for _ in range(n)]
            if n > np_:
                self.feat.add('excess-args')
            return ['\t%s%s\t%s' % (name, attr, ','.join(args))]
        if m.variadic == 'shiftfwd':
            n = np_ + m.nshift + rng.randrange(1, 4)
            args = [('' if rng.random() < 0.4 else str(rng.randrange(0, 100))) for _ in range(n)]
            args[-1] = str(rng.randrange(0, 100))
            self.feat.add('excess-args')
            return ['\t%s\t%s' % (name, ','.join(args))]
        if m.variadic == 'shift':
            n = rng.randrange(max(np_, m.nshift + np_), min(20, np_ + m.nshift + 2) + 1)
            args = [self.hexlit(rng.randrange(0, 200)) for _ in range(n)]
            self.feat.add('excess-args')
            return ['\t%s\t%s' % (name, ','.join(args))]
        if m.rec:
            args = [self.cnt_arg(0, 4)[0]] + [self.arg_for(p) if p.typ != 'str' else self.str_arg() for p in m.params[1:]]
            return ['\t%s\t%s' % (name, ','.join(args))]
        # ordinary call
        full = m.uses_argcount or m.uses_allargs
        vis = set(v.lower() for v in ctx.get('visible', ()))
        # keyword names would be rewritten by an enclosing expansion that has a parameter of the same name
        use_kw = (not full) and np_ > 0 and rng.random() < 0.3 and not any(q.lower() in vis for q in names)
        first_kw = rng.randrange(0, np_) if use_kw else np_
        pos = []
        for i, p in enumerate(m.params[:first_kw]):
            others = [q for q in names if q != p.name and q.lower() not in vis]
            can_skip = (p.default != '' or p.typ == 'str') and not m.uses_argcount
            if can_skip and rng.random() < 0.35:
                pos.append('')
                self.feat.add('empty-positional')
            elif full and p.typ == 'str':
                pos.append(self.str_arg(may_empty=False))
            else:
                pos.append(self.arg_for(p, others))
        if not use_kw and not full:
            # drop trailing arguments that may be missing
            while pos and rng.random() < 0.4:
                p = m.params[len(pos) - 1]
                if p.default != '' or p.typ == 'str':
                    pos.pop()
                    self.feat.add('missing-args')
                else:
                    break
        kws = []
        if use_kw:
            rest = list(m.params[first_kw:])
            rng.shuffle(rest)
            for p in rest:
                optional = p.default != '' or p.typ == 'str'
                if optional and rng.random() < 0.35:
                    continue
                if p.typ == 'str' and rng.random() < 0.3:
                    val = ''                          # keyword argument may assign the empty string
                    self.feat.add('keyword-empty')
                else:
                    val = self.arg_for(p, [q for q in names if q != p.name and q.lower() not in vis])
                kws.append('%s%s=%s' % (self.rc(p.name), rng.choice(['', '', ' ']), val))
            self.feat.add('keyword-args')
            # a trailing empty positional followed by nothing would change the argument count only
        args = pos + kws
        if not use_kw and len(pos) == np_ and np_ < 20 and rng.random() < 0.2 and not m.uses_argcount:
            for _ in range(rng.randrange(1, min(3, 20 - np_) + 1)):
                args.append(self.num_arg())
            self.feat.add('excess-args')
        while args and args[-1] == '' and not kws:
            args.pop()
        lab = ''
        out = []
        if rng.random() < 0.08 and ctx.get('labels_ok', True) and not ctx.get('in_body'):
            lab = 'gc%d' % self.uid()
            self.glabels.append(lab)
            self.feat.add('label-on-call')
            lab = lab + (':' if rng.random() < 0.5 else '')
        elif rng.random() < 0.08 and ctx.get('in_body') and ctx.get('private'):
            # a private label that labels a macro call inside a body
            lab = 'lb%d' % self.uid()
            out.append(self.word_stmt([self.rc(lab)]))
            self.feat.add('private-label-on-call')
            lab = lab + ':'
        out.append('%s\t%s%s\t%s' % (lab, name, attr, ','.join(args)))
        return out

    # -- whole program
    def program(self):
        rng = self.rng
        main = []
        nchunks = rng.randrange(3, 9)
        top = {'private': None, 'macro_level': False, 'mult': 1, 'all_global': True, 'labels_ok': True}
        for _ in range(nchunks):
            if self.budget <= 0:
                break
            r = rng.random()
            if r < 0.3 or not self.macros and r < 0.5:
                main += self.def_macro([])
            elif r < 0.4:
                g = 'g%d' % self.uid()
                self.glabels.append(g)
                main.append('%s:' % g)
                main += self.data_lines([], [])
            elif r < 0.7 and self.macros:
                ms = [m for m in self.macros if not (m.once and m.calls)]
                if ms:
                    main += self.call(rng.choice(ms[-4:]), top)
            elif r < 0.76:
                main += self.if_wrapped(0, [], [], top)
            elif r < 0.83:
                main += self.c_globrep()
            elif r < 0.88 and self.cpu == '68000':
                main += self.c_padalign()
            else:
                main += self.construct(1, [], [], top)
            if rng.random() < 0.3:
                main += self.data_lines([], [], 1)
            if self.glabels and rng.random() < 0.3:
                main.append(self.word_stmt([self.rc(rng.choice(self.glabels))]))
        # every macro is used at least once
        for m in self.macros:
            while m.calls < m.min_calls and (self.budget > 0 or m.once or m.calls):
                main += self.call(m, top)
                if rng.random() < 0.5:
                    main += self.data_lines([], [], 1)
        # global namesakes of private labels, and references to global labels from the top level
        for name in self.later_refs:
            main.append('%s:' % name)
            main += self.data_lines([], [], 1)
            main.append(self.word_stmt([self.rc(name)]))
        for g in self.glabels:
            if rng.random() < 0.5:
                main.append(self.word_stmt([self.rc(g)]))
            if rng.random() < 0.15 and g not in self.pre_refs:
                self.pre_refs.append(g)        # also referenced in front of its definition
        head = ['\tcpu\t%s' % self.cpu]
        if self.cpu == '68000':
            head.append('\tpadding\toff')
        if rng.random() < 0.04:
            # including nothing is also legal at address 0
            head += self.c_binclude(1, [], [], {'zero': True})
        for k, v in self.equs.items():
            head.append('%s\tequ\t%d' % (k, v))
        for name in self.pre_refs:
            head.append(self.word_stmt([self.rc(name)]))
        self.files['main.asm'] = '\n'.join(head + main) + '\n'
        return self


# ---------------------------------------------------------------------------
# running one pair

class Pair:
    def __init__(self):
        self.status = None      # 'equal' | 'differs' | 'construct-rejected' | 'flat-rejected' | 'model-error' | 'timeout' | 'crash'
        self.detail = ''
        self.err_nums = []
        self.flat = None
        self.model = None
        self.crash = None
        self.nrec = 0
        self.nbytes = 0


def norm_records(buf):
    recs = pfile.parse(buf)
    runs = []
    for r in recs:
        if r.kind == 'data':
            if not r.data:
                continue
            base = r.start * r.gran
            if runs and runs[-1][0] == 'd' and tuple(runs[-1][1:4]) == (r.cpu, r.seg, r.gran) and runs[-1][4] + len(runs[-1][5]) == base:
                runs[-1][5] += r.data
            else:
                runs.append(['d', r.cpu, r.seg, r.gran, base, bytearray(r.data)])
        elif r.kind == 'entry':
            runs.append(['e', r.entry])
    return [tuple(bytes(x) if isinstance(x, bytearray) else x for x in run) for run in runs]


ERRNUM_RE = re.compile(r'(?:error|warning|fatal)\s*#?(\d+)?:?\s*([^\n]*)', re.I)


def err_kinds(text):
    out = []
    for m in re.finditer(r'^> > > .*?: (error|warning|fatal error)(?: #(\d+))?: ([^\n]*)', text, re.M):
        out.append((m.group(1), m.group(3).strip()))
    return out


def run_pair(ctx, files, bins, cs, cpu, tag, count=True):
    """assemble the construct program and its hand expansion; returns Pair"""
    pr = Pair()
    bop, wop, has_attr, _, _ = TARGETS[cpu]
    d = 'c%s' % tag
    for name, text in files.items():
        ctx.write('%s/%s' % (d, name), text)
    for name, data in bins.items():
        ctx.write('%s/%s' % (d, name), data)
    ex = macroexp.Expander(files, bins, case_sensitive=cs, has_attr=has_attr, data_op=(bop or 'dc.b'))
    try:
        flat = ex.expand('main.asm')
    except macroexp.ModelError as e:
        pr.status = 'model-error'
        pr.detail = str(e)
        return pr
    except RecursionError:
        pr.status = 'model-error'
        pr.detail = 'recursion'
        return pr
    pr.flat = '\n'.join(flat) + '\n'
    pr.model = ex
    ctx.write('%s/flat.asm' % d, pr.flat)
    opts = ['-U'] if cs else []
    wd = ctx.path(d)
    # logical bound instead of a wall-clock verdict (hook H5): lines read per pass
    budget = {'ASL_VERIF_MAX_LINES': str(40 * (len(flat) + 500))}
    a = asl.assemble(ctx, 'flat.asm', opts, out='flat.p', cwd=wd, timeout=60, env=budget)
    if a.run.timed_out:
        pr.status = 'timeout'
        return pr
    if a.run.san:
        pr.status = 'crash'
        pr.crash = a.run.san
        pr.detail = 'hand expansion: ' + a.run.err.decode('latin-1')[-600:]
        return pr
    if a.rc != 0 or a.p is None:
        pr.status = 'flat-rejected'
        pr.detail = a.run.text()[-500:]
        return pr
    b = asl.assemble(ctx, 'main.asm', opts, out='main.p', cwd=wd, timeout=60, env=budget)
    if b.run.timed_out:
        pr.status = 'timeout'
        return pr
    if b.rc == 96 and b'VERIF-LINEBUDGET' in b.run.err:
        pr.status = 'endless'
        pr.detail = 'construct program reads more than 40x the lines of its hand expansion: ' + b.run.err.decode('latin-1')[-200:]
        return pr
    if b.run.san:
        pr.status = 'crash'
        pr.crash = b.run.san
        pr.detail = 'construct program: ' + b.run.err.decode('latin-1')[-600:]
        return pr
    if b.rc != 0 or b.p is None:
        pr.status = 'construct-rejected'
        pr.detail = b.run.text()[-700:]
        pr.err_nums = err_kinds(b.run.text())
        return pr
    try:
        ra = norm_records(a.p)
        rb = norm_records(b.p)
    except pfile.FormatError as e:
        pr.status = 'differs'
        pr.detail = 'code file unreadable: %s' % e
        return pr
    pr.nrec = len(ra)
    pr.nbytes = sum(len(r[5]) for r in ra if r[0] == 'd')
    if ra == rb:
        pr.status = 'equal'
        return pr
    pr.status = 'differs'
    msg = ''
    if len(ra) != len(rb):
        msg = 'hand expansion has %d record runs, construct program %d; ' % (len(ra), len(rb))
    for i, (x, y) in enumerate(zip(ra, rb)):
        if x != y:
            if x[0] == 'd' and y[0] == 'd' and x[:5] == y[:5]:
                dx, dy = x[5], y[5]
                j = 0
                while j < min(len(dx), len(dy)) and dx[j] == dy[j]:
                    j += 1
                msg += 'run %d at %x: lengths %d (expected) / %d (got), first difference at offset %d: expected %s got %s' % (
                    i, x[4], len(dx), len(dy), j, dx[j:j + 8].hex(), dy[j:j + 8].hex())
            else:
                msg += 'run %d: expected %r got %r' % (i, x[:5], y[:5])
            break
    pr.detail = msg
    return pr


# ---------------------------------------------------------------------------
# reduction and keys

def same_failure(a, b):
    if a.status != b.status:
        return False
    if a.status == 'construct-rejected':
        return set(k for k in a.err_nums) & set(k for k in b.err_nums) != set() or (not a.err_nums and not b.err_nums)
    if a.status == 'crash':
        return a.crash == b.crash
    return True


_OPEN = macroexp.STARTERS + ('IF',)
_CLOSE = macroexp.ENDERS + ('ENDIF',)


def _units(lines):
    """split a list of lines into units: a unit is (start, end) covering one line or one
    whole construct / IF block (start line .. matching ENDM / ENDIF)"""
    units = []
    i = 0
    n = len(lines)
    while i < n:
        _, op, _, _ = macroexp.split_line(lines[i])
        u = op.upper() if op else ''
        if u in _OPEN:
            depth = 0
            j = i + 1
            while j < n:
                _, o2, _, _ = macroexp.split_line(lines[j])
                u2 = o2.upper() if o2 else ''
                if u2 in _OPEN:
                    depth += 1
                elif u2 in _CLOSE:
                    if depth == 0:
                        break
                    depth -= 1
                j += 1
            units.append((i, min(j, n - 1)))
            i = j + 1
        else:
            units.append((i, i))
            i += 1
    return units


def reduce_case(ctx, files, bins, cs, cpu, first, budget=120):
    """hierarchical delta reduction: delete units (single lines / whole constructs) in halving
    chunks while the same kind of failure persists, then descend into the constructs that are
    left, then delete single operands."""
    files = dict(files)
    tries = [0]
    best = [first]

    def attempt(cand):
        if tries[0] >= budget:
            return False
        tries[0] += 1
        pr = run_pair(ctx, cand, bins, cs, cpu, 'r')
        if same_failure(first, pr):
            best[0] = pr
            return True
        return False

    def fixed(ln):
        return ln.strip() == '' or re.match(r'^\s*cpu\s', ln) or re.match(r'^\S+\s+equ\s', ln)

    def reduce_span(fname, lo, hi):
        """reduce lines[lo:hi] of file fname; returns new hi"""
        lines = files[fname].split('\n')
        seg = lines[lo:hi]
        units = [u for u in _units(seg) if not (u[0] == u[1] and fixed(seg[u[0]]))]
        keep = [True] * len(units)
        last = None
        chunk = max(1, len(units) // 2)

        def build(mask):
            drop = set()
            for k, u in enumerate(units):
                if not mask[k]:
                    drop.update(range(u[0], u[1] + 1))
            return lines[:lo] + [l for idx, l in enumerate(seg) if idx not in drop] + lines[hi:]

        while chunk >= 1 and tries[0] < budget:
            k = 0
            while k < len(units) and tries[0] < budget:
                idxs = [q for q in range(k, min(len(units), k + chunk)) if keep[q]]
                if idxs:
                    mask = list(keep)
                    for q in idxs:
                        mask[q] = False
                    cand = dict(files)
                    cand[fname] = '\n'.join(build(mask))
                    if attempt(cand):
                        keep = mask
                k += chunk
            if chunk == 1:
                if keep == last or tries[0] >= budget:
                    break
                last = list(keep)
                continue
            chunk //= 2
        new_lines = build(keep)
        files[fname] = '\n'.join(new_lines)
        # descend into remaining constructs (recompute positions in the new text)
        removed = len(lines) - len(new_lines)
        new_hi = hi - removed
        pos = lo
        while pos < new_hi and tries[0] < budget:
            cur = files[fname].split('\n')
            _, op, _, _ = macroexp.split_line(cur[pos])
            if op and op.upper() in _OPEN:
                us = _units(cur[pos:new_hi])
                end = pos + us[0][1]
                if end - pos >= 2 and op.upper() != 'MACRO' and tries[0] < budget:
                    # unwrap: keep the body, drop the construct around it
                    cand = dict(files)
                    cand[fname] = '\n'.join(cur[:pos] + cur[pos + 1:end] + cur[end + 1:])
                    if attempt(cand):
                        files[fname] = cand[fname]
                        new_hi -= 2
                        continue
                if end - pos >= 2:
                    inner_hi = reduce_span(fname, pos + 1, end)
                    new_hi -= (end - inner_hi)
                    end = inner_hi
                pos = end + 1
            else:
                pos += 1
        return new_hi

    reduce_span('main.asm', 0, len(files['main.asm'].split('\n')))
    for fname in sorted(reachable(files)):
        if fname != 'main.asm':
            reduce_span(fname, 0, len(files[fname].split('\n')))
    if tries[0] < budget:
        reduce_span('main.asm', 0, len(files['main.asm'].split('\n')))
    # operands (bottom-up: calls are usually below the definitions they constrain; repeated while it helps)
    for rnd in range(3):
      before = tries[0], dict(files)
      for fname in sorted(reachable(files)):
        lines = files[fname].split('\n')
        for i in range(len(lines) - 1, -1, -1):
            if tries[0] >= budget:
                break
            label, op, attr, args = macroexp.split_line(lines[i])
            if label and op and op.upper() not in ('MACRO', 'EQU', 'SET') and tries[0] < budget:
                # a label in front of a statement that may be incidental
                cl = lines[:i] + [lines[i][len(label) + (1 if lines[i][len(label):len(label) + 1] == ':' else 0):]] + lines[i + 1:]
                cand = dict(files)
                cand[fname] = '\n'.join(cl)
                if attempt(cand):
                    lines = cl
                    files = cand
            if not op or ',' not in args or op.upper() in ('IF', 'WHILE', 'IRPC', 'EQU', 'SET') or fixed(lines[i]):
                continue
            try:
                parts = macroexp.split_args(args)
            except macroexp.ModelError:
                continue
            if args not in lines[i]:
                continue
            prefix = lines[i][:lines[i].index(args)]
            k = len(parts) - 1
            while k >= 0 and len(parts) > 1 and tries[0] < budget:
                cand_parts = parts[:k] + parts[k + 1:]
                cl = lines[:i] + [prefix + ','.join(cand_parts)] + lines[i + 1:]
                cand = dict(files)
                cand[fname] = '\n'.join(cl)
                if attempt(cand):
                    lines = cl
                    files = cand
                    parts = cand_parts
                k -= 1
        files[fname] = '\n'.join(lines)
      if files == before[1] or tries[0] >= budget:
          break
    # equ lines that are not needed any more only clutter the witness: drop those whose name does not occur elsewhere
    main = files['main.asm'].split('\n')
    rest = '\n'.join(l for l in main if not re.match(r'^\S+\s+equ\s', l)) + '\n'.join(files[f] for f in files if f != 'main.asm')
    slim = [l for l in main if not re.match(r'^\S+\s+equ\s', l) or
            re.search(r'(?<![A-Za-z0-9_])' + re.escape(l.split()[0]) + r'(?![A-Za-z0-9])', rest, 0 if cs else re.I)]
    if len(slim) != len(main):
        cand = dict(files)
        cand['main.asm'] = '\n'.join(slim)
        budget += 1
        if attempt(cand):
            files = cand
    return files, best[0], tries[0]


def reachable(files):
    seen = ['main.asm']
    for f in seen:
        for ln in files[f].split('\n'):
            _, op, _, args = macroexp.split_line(ln)
            if op and op.upper() == 'INCLUDE':
                n = args.strip().strip('"')
                if '.' not in n.rsplit('/', 1)[-1]:
                    n += '.inc'
                if '/' in f:
                    n = f.rsplit('/', 1)[0] + '/' + n
                if n in files and n not in seen:
                    seen.append(n)
    return {f: files[f] for f in seen}


def witness_features(files, cs):
    """controlled vocabulary describing what is left in a reduced witness"""
    feats = set()
    files = reachable(files)
    text_all = '\n'.join(files[f] for f in sorted(files))
    macro_params = {}
    for fname in files:
        for ln in files[fname].split('\n'):
            label, op, attr, args = macroexp.split_line(ln)
            if not op:
                if label:
                    feats.add('label')
                continue
            u = op.upper()
            if u in ('MACRO', 'REPT', 'IRP', 'IRPN', 'IRPC', 'WHILE', 'EXITM', 'SHIFT', 'INCLUDE', 'BINCLUDE'):
                feats.add(u)
            if u == 'MACRO':
                try:
                    ps = [a.split('=')[0].strip() for a in macroexp.split_args(args) if not a.startswith('{')]
                    if any('=' in a for a in macroexp.split_args(args)):
                        feats.add('default')
                except macroexp.ModelError:
                    ps = []
                macro_params[label] = ps
            if '{' in args and 'GLOBALSYMBOLS' in args.upper() and 'NOGLOBALSYMBOLS' not in args.upper():
                feats.add('GLOBALSYMBOLS')
            if label and u not in ('MACRO', 'EQU', 'SET'):
                feats.add('label')
    up = text_all.upper()
    for w in ('ALLARGS', 'ARGCOUNT', 'ATTRIBUTE'):
        if re.search(r'(?<![A-Z0-9])%s(?![A-Z0-9])' % w, up):
            feats.add(w)
    if re.search(r'\\[A-Za-z][A-Za-z0-9]*\\', text_all):
        feats.add('backslash-concat')
    if re.search(r'"[^"\n]*[\x00-\x08\x09\x0b-\x1f][^"\n]*"', text_all):
        feats.add('ctrl-char-in-string')
    if re.search(r'(?im)^\s+padding\s+on', text_all):
        feats.add('PADDING')
    for fname in files:
        ls = files[fname].split('\n')
        for i in range(len(ls) - 1):
            o1 = (macroexp.split_line(ls[i])[1] or '').upper()
            o2 = (macroexp.split_line(ls[i + 1])[1] or '').upper()
            if o1 in macroexp.STARTERS and o2 in macroexp.ENDERS:
                feats.add('empty-body')
    # parameter numbers referenced in macro bodies whose internal token byte is TAB / LF / CR, or >= 16
    flags = 0 if cs else re.I
    for mname, ps in macro_params.items():
        for idx, p in enumerate(ps, 1):
            if not p:
                continue
            if re.search(r'(?<![A-Za-z0-9])%s(?![A-Za-z0-9])' % re.escape(p), text_all.split(mname, 1)[-1].split('\n', 1)[-1], flags):
                if idx == 8:
                    feats.add('param8')
                elif idx == 9:
                    feats.add('param9')
                elif idx == 12:
                    feats.add('param12')
                elif idx >= 16:
                    feats.add('param16+')
        # call sites
        for fname in files:
            for ln in files[fname].split('\n'):
                label, op, attr, args = macroexp.split_line(ln)
                if op and mname and (op == mname or (not cs and op.upper() == mname.upper())):
                    try:
                        given = macroexp.split_args(args)
                    except macroexp.ModelError:
                        given = []
                    if len(given) > len(ps):
                        feats.add('excess-args')
                    if len(given) < len(ps):
                        feats.add('fewer-args')
                    if any(re.match(r'^[A-Za-z][A-Za-z0-9]*\s*=', g) for g in given):
                        feats.add('keyword-args')
                    if any(g == '' for g in given):
                        feats.add('empty-arg')
    return feats


def failure_key(pr, feats):
    order = ['MACRO', 'REPT', 'IRP', 'IRPN', 'IRPC', 'WHILE', 'INCLUDE', 'BINCLUDE', 'SHIFT', 'EXITM', 'ALLARGS', 'ARGCOUNT', 'ATTRIBUTE',
             'GLOBALSYMBOLS', 'label', 'default', 'keyword-args', 'excess-args', 'fewer-args', 'empty-arg', 'backslash-concat',
             'ctrl-char-in-string', 'PADDING', 'empty-body', 'param8', 'param9', 'param12', 'param16+']
    fs = '+'.join(f for f in order if f in feats) or 'none'
    if pr.status == 'differs':
        return 'code-differs-from-hand-expansion:%s' % fs
    if pr.status == 'construct-rejected':
        kinds = sorted(set(re.sub(r'[^a-z0-9]+', '-', k[1].lower()).strip('-')[:40] for k in pr.err_nums))[:2]
        return 'construct-program-rejected:%s:%s' % ('/'.join(kinds) or 'no-message', fs)
    if pr.status == 'crash':
        return pr.crash
    if pr.status == 'endless':
        return 'construct-program-does-not-end:%s' % fs
    return '%s:%s' % (pr.status, fs)


# ---------------------------------------------------------------------------

def run_case(case, ctx):
    out = ctx.out
    g = Gen(ctx.rng).program()
    pr = run_pair(ctx, g.files, g.bins, g.cs, g.cpu, 'a')
    src = g.files['main.asm']
    out.sample = {'case': ctx.idx, 'cpu': g.cpu, 'case_sensitive': g.cs, 'features': sorted(g.feat),
                  'files': sorted(g.files) + sorted(g.bins), 'main_lines': src.count('\n'),
                  'status': pr.status}
    if pr.status in ('model-error', 'flat-rejected', 'timeout'):
        out.sets['inconclusive_case_numbers'].add(ctx.idx)
    if pr.status == 'model-error':
        out.inconc('model-error: ' + pr.detail)
        out.obs['model_errors'] += 1
        return
    if pr.status == 'timeout':
        out.inconc('timeout')
        return
    if pr.status == 'flat-rejected':
        # error-free programs only: the generator missed; never a verdict
        out.inconc('hand-expansion-rejected: ' + ' | '.join(x[1] for x in err_kinds(pr.detail))[:200])
        out.obs['hand_expansion_rejected'] += 1
        return
    ex = pr.model
    for k, v in ex.stats.items():
        out.obs['model:' + k] += v
    out.obs['pairs_assembled'] += 1
    out.obs['flat_lines'] += len(pr.flat.split('\n'))
    out.obs['bytes_compared'] += pr.nbytes
    for e in ex.events:
        if e[0] == 'macro-def':
            out.sets['macro_parameter_counts'].add(e[1])
        elif e[0] == 'rept':
            out.sets['rept_counts'].add(e[1])
        elif e[0] == 'irpn':
            out.sets['irpn_group_sizes'].add(e[1])
        elif e[0] == 'while':
            out.sets['while_passes'].add(e[1])
        elif e[0] == 'irpc':
            out.sets['irpc_lengths'].add(e[1])
    out.sets['macro_parameter_numbers_substituted'].update(ex.param_numbers)
    out.sets['implicit_parameters_substituted'].update(ex.implicit_used)
    out.sets['targets'].add(g.cpu + ('/-U' if g.cs else ''))
    out.sets['features'].update(g.feat)
    executed = sorted(k for k in ex.stats if not k.endswith('_passes') and k not in ('if_evaluated',))
    nconstructs = sum(ex.stats.get(k, 0) for k in ('macro_calls', 'rept', 'irp', 'irpn', 'irpc', 'while', 'include', 'binclude'))
    out.nontrivial = nconstructs > 0 and pr.nbytes > 0
    out.sig = (g.cpu, g.cs, tuple(executed), min(nconstructs, 12), min(pr.nbytes // 64, 8))
    if pr.status == 'equal':
        return
    # ---- disagreement: reduce, then key
    if pr.status == 'crash':
        out.violate(pr.crash, 'case %d: %s' % (ctx.idx, pr.detail))
        return
    files, best, tries = reduce_case(ctx, g.files, g.bins, g.cs, g.cpu, pr)
    feats = witness_features(files, g.cs)
    key = failure_key(best, feats)
    used_bins = {k: v for k, v in g.bins.items() if k in '\n'.join(files.values())}
    wit = files['main.asm'].strip('\n')
    msg = ('case %d (%s%s): %s; %s. Reduced witness (%d re-executions):\n%s' %
           (ctx.idx, g.cpu, ' -U' if g.cs else '', best.status, best.detail.strip()[:300], tries, wit[:1500]))
    files = reachable(files)
    for fn in sorted(files):
        if fn != 'main.asm':
            msg += '\n--- %s ---\n%s' % (fn, files[fn][:400])
    out.files['reduced/main.asm'] = files['main.asm'].encode('latin-1')
    if best.flat:
        out.files['reduced/flat.asm'] = best.flat.encode('latin-1')
    for fn, t in files.items():
        if fn != 'main.asm':
            out.files['reduced/' + fn] = t.encode('latin-1')
    for fn, d in used_bins.items():
        out.files['reduced/' + fn] = d
    out.violate(key, msg)
