"""C12 — conditional assembly selects exactly the documented branch.

Every branch body of a generated skeleton starts with a unique 16-bit marker, may define symbols, re-SET
variables, reference constants, call macros / open REPT, IRP, WHILE blocks (with EXITM) and — where the generator
knows the branch is skipped — contain statements that would raise an error if they were assembled.  The reference
interpreter vf/model/cond.py (written from the manual) predicts the byte stream, the set of symbols that exist
afterwards and the number of 'no CASE matched' warnings; the real assembler is run on the rendered source and the
code file (independent reader), the final symbol dump (hook H1), the diagnostics (hook H4) and the construct
depth at the end of every pass (hook H6) are compared with the prediction.  Malformed skeletons must end with
>=1 error and exit status 2.

A disagreement is reduced before it is keyed (every top-level skeleton of a batch alone, then the blamed construct
alone); the key names the kind of construct, the role of the branch at which the observed marker stream leaves
the predicted one, and the direction: select:<IF|IFDEF|..|SWITCH-int|..>:<head|elseif|else|case|elsecase>:<taken|skipped>-wrongly.
Other keys: sequence:*, effect:symbol-*, wellformed:error-<n>|warning-<n>|status-<rc>, switch:no-match-warning-*,
stack:constructs-open-at-end-of-pass, malformed:<class>:<accepted-with-status-0|status-<rc>|no-error-reported>, crash keys.
"""
import hashlib
import itertools
import sys

from .. import asl, pfile
from ..model import cond

ID = 'C12'
LEVEL = 'exploration'
RULE = ('skeleton = one top-level IF-family ladder or SWITCH construct with everything nested in it; families: (a) exhaustive flat shapes '
        '(IF-ladder/SWITCH x 1..3 conditional branches x default yes/no x every truth vector = 56) and exhaustive depth-2 shapes (one nested flat shape in one '
        'branch of an outer flat shape = 9184; quick tier: a seeded sample of 1500), each realised with random head kinds / selector types, (b) IFB/IFNB with every '
        'blank/non-blank pattern of 0..5 arguments, written directly and through macro parameters, (c) sampled skeletons up to depth 4 x 5 branches with '
        'symbol definitions, SETs, references, poison statements in skipped branches, macro calls, REPT/IRP/WHILE and EXITM, three fifths of them in programs that need two or three passes (forward references), with IFUSED/IFNUSED probes in front of and behind the first reference and IFDEF/IFNDEF/DEFINED() probes in front of and behind the definition, '
        '(d) EXITM executed below 1..4 open constructs inside a macro/REPT/IRP/WHILE expanded below 0..2 open constructs, (e) chains of 5..250 nested constructs, '
        '(f) malformed skeletons of 18 classes in random well-formed contexts; distinct = distinct structural signature (construct kinds, branch counts, selected '
        'branches, nesting; ids and literal values ignored) resp. (malformed class, depth, context); non-trivial = the skeleton contains a construct')
ASSUMPTIONS = ['conditions are restricted to forms whose value the manual fixes: integer literals, comparisons =,==,<>,<,<=,>,>= of integers/floats of equal type, '
               '=,==,<> of strings, &&, ||, ~~, binary & with a mask, fully parenthesised; IF/ELSEIF operands are integers in -2^31..2^32-1 (the assembler reports a range overflow beyond; the manual gives no range) and include raw non-zero values whose low 8/16 bits are zero, the sign bit and both range ends',
               'CASE values have the type of the selector; floats are exactly representable',
               'symbols tested by IFDEF/IFNDEF are defined earlier or later in the source (later = not defined at the probe: "the definition has to appear before IFDEF"), '
               'on the command line (-D) or never; DEFINED() only on symbols defined earlier or never; IFUSED/IFNUSED only on constants that are never tested by IFDEF; '
               '"defined before" / "referenced up to now" are read as functions of the source position, identical in every pass',
               'the construct depth is read through hook H6 before the assembler clears its stacks',
               'malformed classes are limited to statements for which no construct of the matching family is open anywhere (stray), a second default branch, '
               'a CASE/ELSECASE after ELSECASE, or a missing terminator; the offending statement is always in an assembled region']
MANIFEST = dict(
    category='exploration', design_ref='DESIGN.md §4 C12',
    technique='reference-model monitor: an interpreter of conditional skeletons written from the manual predicts marker bytes, surviving symbols, warnings; '
              'compared with code file, symbol dump, diagnostic log and end-of-pass construct depth of real executions; error/status contract on malformed skeletons',
    text='Held on the executions of this run: for exhaustively enumerated small skeleton shapes (depth <=2, <=3 conditional branches + default, all truth vectors), '
         'all blank/non-blank IFB/IFNB argument patterns up to 5 arguments, and sampled skeletons up to depth 4 x 5 branches (integer/float/string selectors, '
         'overlapping CASE lists, IFDEF/IFUSED/IFEXIST heads, -D symbols, macros, REPT/IRP/WHILE, EXITM, one- and two-pass programs, nesting chains up to 250) '
         'exactly the predicted branch contributed code, symbols, references and diagnostics, the construct stack was empty at the end of every pass, and every '
         'malformed skeleton (stray/duplicate/missing statements) ended with >=1 error and status 2.',
    note='Conditions are limited to expression forms with manual-defined values; statements between SWITCH and the first CASE, labels on conditional statements, '
         'conditionals left open across the end of a macro body or include file, mixed-type CASE lists, IF values outside 32 bits, DEFINED() of symbols defined further down and '
         'malformed statements inside skipped blocks are not generated (manual silent).')
REGISTERED = True

INT_POOL = [-2, -1, 0, 1, 2, 3, 7, 255, 256, 4660, 65535, 100000]
# SWITCH/CASE values only (IF evaluates 32-bit integers, SWITCH compares full-width values)
BIG_POOL = [4294967295, 4294967296, -4294967296]
FLT_POOL = [0.25, 0.5, 1.5, 1.75, 2.25, 3.0, 10.75, 100.125]
STR_POOL = ['a', 'ab', 'abc', 'b', 'hello', 'x1']
EXIST_YES = [('ex1.inc', True), ('ex1.inc', False), ('ex2', True), ('ex2', False), ('ex3.inc', True), ('ex3', False), ('incd/ex3.inc', True)]
EXIST_NO = [('nx1.inc', True), ('nx1.inc', False), ('nx2', False), ('ex4.inc', True), ('incd/ex1.inc', True), ('incd/nx3.inc', True)]
FILES = {'src': ['ex1.inc', 'ex2.inc'], 'inc': ['ex3.inc'], 'incdir': 'incd'}
NONBLANK = ['x', '1', 'foo', 'q9']
# operand values of a plain IF/ELSEIF: 'true' is any value different from 0 (doc: "true (i.e. not 0)").  Values whose low 8/16 bits
# are zero, the sign bit, both ends of the accepted range (the assembler range-checks the operand to -2^31 .. 2^32-1 and reports
# 'range overflow' beyond; the manual gives no range, so nothing outside is generated)
IF_VALUES = [1, 2, -1, 255, 257, 256, 512, 4096, 32768, 65536, 0x10000, 0x1000000, 0x7fffff00, 2147483647, 2147483648, 0x80000100,
             4294967040, 4294967295, -256, -512, -65536, -16777216, -2147483648, -2147483647]
IF_MASKS = [0x100, 0x200, 0x1000, 0x8000, 0xff00, 0x10000, 0xffff0000, 0xff, 0x0f]
BATCH = 60


# ---------------------------------------------------------------------------
# generator

class Gen:
    def __init__(self, rng, max_depth=4, with_macros=True, multipass=0):
        self.rng = rng
        # multipass 2|3: forward references force that many passes.  Every probe (IFDEF, IFUSED, DEFINED(), SET variables)
        # is documented in terms of the source position ('defined before', 'referenced up to now'), so the model's
        # single walk in source order is the prediction for every pass.
        self.multipass = int(multipass or 0)
        # symbols that get defined LATER in the source (between top-level skeletons or at the end): IFDEF in front of the
        # definition is false ("the definition has to appear before IFDEF"), behind it true
        self.late = ['lt1', 'lt2', 'lt3', 'lt4']
        self.late_all = list(self.late)
        self.max_depth = max_depth
        self.n = 0x1000
        self.cid = 0
        self.sym = 0
        consts = {}
        for i in range(1, 7):
            consts['c%d' % i] = rng.choice(INT_POOL)
        self.cnames = sorted(consts) + ['dq1', 'dq2']
        cmddefs = {'dq1': 1, 'dq2': rng.choice(INT_POOL)}
        self.unames = []
        for i in range(1, 7):
            consts['u%d' % i] = 0x7000 + i
            self.unames.append('u%d' % i)
        self.prog = {'consts': consts, 'cmddefs': cmddefs, 'fwdref': self.multipass, 'vars': {'v1': 1, 'v2': 2, 'v3': 3}, 'macros': [], 'files': FILES, 'items': []}
        self.cvals = dict(consts)
        self.cvals.update(cmddefs)
        self.groups = []
        self.mparams = {}      # macro name -> list of (param, type)
        if with_macros:
            for i in range(rng.randrange(1, 4)):
                self.gen_macro('mac%d' % (i + 1))
        self.m = cond.Machine(self.prog)
        for n in self.late:
            self.m.res.tracked.add(n.upper())
        self.exitm_depths = set()

    # -- small helpers
    def mark(self):
        self.n += 1
        return {'t': 'mark', 'id': self.n}

    def newcid(self):
        self.cid += 1
        return self.cid

    def newsym(self, pre):
        self.sym += 1
        return '%s%d' % (pre, self.sym)

    # -- expressions with a wanted truth value (evaluated on the shadow machine; env = macro parameter types or None)
    def operand(self, typ, params=None):
        rng = self.rng
        if params and rng.random() < 0.4:
            ps = [p for p, t in params if t == typ]
            if ps:
                return ['param', rng.choice(ps)]
        if typ == 'int':
            r = rng.random()
            if r < 0.35:
                return ['sym', rng.choice(self.cnames)]
            if r < 0.5:
                return ['sym', rng.choice(['v1', 'v2', 'v3'])]
            v = rng.choice(INT_POOL)
            return ['int', v, True] if (v >= 0 and rng.random() < 0.3) else ['int', v]
        if typ == 'flt':
            return ['flt', rng.choice(FLT_POOL)]
        return ['str', rng.choice(STR_POOL)]

    def rand_expr(self, d, params=None):
        rng = self.rng
        r = rng.random()
        if d <= 0 or r < 0.25:
            if rng.random() < 0.1:
                return self.isdef_leaf()
            if rng.random() < 0.4:
                if params and rng.random() < 0.5:
                    ps = [p for p, t in params if t == 'int']
                    if ps:
                        return ['param', rng.choice(ps)]
                return self.raw_int(params)
            typ = rng.choice(['int', 'int', 'int', 'flt', 'str'])
            # the manual does not define an ordering of strings: only (in)equality is generated for them
            op = rng.choice(['=', '==', '<>', '<', '<=', '>', '>='] if typ != 'str' else ['=', '==', '<>'])
            return ['cmp', op, self.operand(typ, params), self.operand(typ, params)]
        if r < 0.45:
            return ['not', self.rand_expr(d - 1, params)]
        return [rng.choice(['and', 'or']), self.rand_expr(d - 1, params), self.rand_expr(d - 1, params)]

    def isdef_leaf(self):
        """DEFINED(name) on a symbol that is defined above this point or never (the manual says only 'whether a symbol is
        defined or not', so symbols defined further down are left to IFDEF, whose text is explicit about them)"""
        rng = self.rng
        m = getattr(self, 'm', None)
        if m is None:
            return ['isdef', rng.choice(self.cnames[:6] + ['zq1', 'zq2'])]
        if rng.random() < 0.5:
            return ['isdef', rng.choice(sorted(n for n in m.res.defined if not n.startswith('U'))).lower()]
        late = set(n.upper() for n in self.late_all)
        pool = sorted(n for n in m.res.tracked if n not in m.res.defined and n not in late)
        return ['isdef', rng.choice(pool).lower() if pool else 'zq1']

    def probe_group(self):
        """the same probe in front of and behind the statement that changes its answer: IFUSED/IFNUSED around the first
        reference of a constant, IFDEF/IFNDEF around the definition of a late symbol"""
        rng = self.rng

        def probe(head):
            it = {'t': 'if', 'cid': self.newcid(), 'head': head, 'body': [self.mark()], 'elifs': [],
                  'else': [self.mark()] if rng.random() < 0.7 else None, 'else_kw': 'else', 'end_kw': 'endif'}
            self.m.step(it)
            return it
        g = [self.mark()]
        self.m.step(g[0])
        unused = [u for u in self.unames if u not in self.m.used]
        if unused and (not self.late or rng.random() < 0.6):
            u = rng.choice(unused)
            g.append(probe(['used', u, rng.random() < 0.5]))
            g.append(probe(['used', u, rng.random() < 0.5]))
            use = {'t': 'use', 'name': u}
            self.m.step(use)
            g.append(use)
            g.append(probe(['used', u, rng.random() < 0.5]))
        elif self.late:
            name = self.late[0]
            g.append(probe(['def', name, rng.random() < 0.5]))
            self.groups.append(g)
            self.prog['items'] += g
            self.define_late()
            g = [probe(['def', name, rng.random() < 0.5]), probe(['expr', ['isdef', name]])]
        t = self.mark()
        self.m.step(t)
        g.append(t)
        self.groups.append(g)
        self.prog['items'] += g

    def define_late(self, everything=False):
        """define one (or all) of the pending late symbols at top level"""
        out = []
        while self.late:
            name = self.late.pop(0)
            kind = self.rng.choice(['label', 'equ'])
            it = {'t': 'def', 'kind': kind, 'name': name, 'val': self.rng.randrange(1, 0xfff)}
            self.m.step(it)
            out.append(it)
            if not everything:
                break
        self.prog['items'] += out
        return out

    def raw_int(self, params=None):
        """an integer-valued operand used directly as a truth value: literal, symbol, or a masked symbol (flags & $100)"""
        rng = self.rng
        r = rng.random()
        if r < 0.25:
            return ['int', 0]
        if r < 0.60:
            v = rng.choice(IF_VALUES)
            return ['int', v, True] if (v >= 0 and rng.random() < 0.4) else ['int', v]
        if r < 0.75:
            return ['sym', rng.choice(self.cnames + ['v1', 'v2', 'v3'])]
        a = ['sym', rng.choice(self.cnames)] if rng.random() < 0.7 else ['int', rng.choice(IF_VALUES)]
        return ['band', a, ['int', rng.choice(IF_MASKS), True]]

    def expr(self, want):
        """expression whose truth on the current shadow state is `want` (None: any)"""
        if want is not None and self.rng.random() < 0.4:
            # the raw value decides (no comparison or logical operator that would normalise it to 0/1)
            for _ in range(6):
                e = self.raw_int()
                if (self.m.value(e) != 0) == want:
                    return e
        e = self.rand_expr(self.rng.choice([0, 1, 1, 2]))
        if want is None:
            return e
        if (self.m.value(e) != 0) != want:
            e = ['not', e]
        return e

    def cond(self, want):
        """head condition with the wanted truth (None: any) on the current shadow state"""
        rng = self.rng
        m = self.m
        if want is None:
            want = rng.random() < 0.5
        k = rng.choice(['expr', 'expr', 'expr', 'def', 'def', 'used', 'exist', 'blank', 'blank'])
        neg = rng.random() < 0.5
        base = (want != neg)
        if k == 'def':
            if base:
                # u* constants are reserved for IFUSED: the manual does not say whether IFDEF counts as a reference
                names = sorted(n for n in m.res.defined if not n.startswith('U'))
                name = rng.choice(names).lower()
            else:
                pool = sorted(n for n in m.res.tracked if n not in m.res.defined)
                if pool and rng.random() < 0.7:
                    name = rng.choice(pool).lower()
                else:
                    name = self.newsym('zz')
            return ['def', name, neg]
        if k == 'used':
            pool = [u for u in self.unames if (u in m.used) == base]
            if pool:
                return ['used', rng.choice(pool), neg]
            k = 'expr'
        if k == 'exist':
            name, q = rng.choice(EXIST_YES if base else EXIST_NO)
            return ['exist', name, neg, q]
        if k == 'blank':
            n = rng.randrange(0, 6)
            if not base and n == 0:
                n = rng.randrange(1, 6)
            args = [['txt', ''] for _ in range(n)]
            if not base:
                for i in range(n):
                    if rng.random() < 0.4:
                        args[i] = ['txt', rng.choice(NONBLANK)]
                args[rng.randrange(n)] = ['txt', rng.choice(NONBLANK)]
            return ['blank', args, neg]
        return ['expr', self.expr(want)]

    # -- constructs
    def switch_parts(self, tv, params=None):
        """selector and CASE lists whose match vector is tv (on the shadow state)"""
        rng = self.rng
        styp = rng.choice(['int', 'int', 'flt', 'str'])
        pool = {'int': INT_POOL + BIG_POOL, 'flt': FLT_POOL, 'str': STR_POOL}[styp]
        s = rng.choice(pool)
        sel = [styp, s]
        if styp == 'int' and rng.random() < 0.5:
            # selector written as an expression: constant symbol (+ literal)
            cn = rng.choice(self.cnames)
            cv = self.cvals[cn]
            if cv == s:
                sel = ['sym', cn]
            else:
                sel = ['add', ['sym', cn], ['int', s - cv]]
        elif styp == 'int' and rng.random() < 0.3 and getattr(self, 'm', None) is not None and abs(s) < 70000:
            # selector read from a SET variable (value at this point of the shadow execution)
            vn = rng.choice(['v1', 'v2', 'v3'])
            vv = self.m.vars[vn]
            sel = ['sym', vn] if vv == s else ['add', ['sym', vn], ['int', s - vv]]
        others = [x for x in pool if x != s]
        cases = []
        for hit in tv:
            n = rng.randrange(1, 5)
            vals = [[styp, rng.choice(others)] for _ in range(n)]
            if hit:
                vals[rng.randrange(n)] = [styp, s]
            elif styp == 'int' and rng.random() < 0.3:
                # a symbolic value that differs from the selector
                cs = [c for c in self.cnames if self.cvals[c] != s]
                if cs:
                    vals[rng.randrange(n)] = ['sym', rng.choice(cs)]
            cases.append(vals)
        return styp, sel, cases

    def construct(self, fam, tv, has_default, active, body_fn, steer=False):
        """fam 'if'|'switch'; tv: wanted truth of the conditional branches; body_fn(i, active_i) -> items (without head marker)"""
        rng = self.rng
        nb = len(tv) + (1 if has_default else 0)
        sel = None
        for i, t in enumerate(tv):
            if t:
                sel = i
                break
        if sel is None and has_default:
            sel = nb - 1
        it = {'t': fam, 'cid': self.newcid()}

        def body(i):
            act = bool(active) and sel == i
            b = [self.mark()] + body_fn(i, act)
            return b
        if fam == 'if':
            if not active and not steer and rng.random() < 0.15:
                # a condition that could not be evaluated: inside a skipped block it must not matter
                it['head'] = ['expr', ['cmp', '=', ['sym', 'undefined_symbol_q'], ['int', 1]]]
            else:
                it['head'] = self.cond(tv[0])
            it['body'] = body(0)
            it['elifs'] = []
            for i in range(1, len(tv)):
                # the expression of an ELSEIF is built on the state at that point
                e = self.expr(tv[i])
                it['elifs'].append([e, body(i)])
            it['else'] = body(nb - 1) if has_default else None
            it['else_kw'] = rng.choice(['else', 'else', 'elseif'])
            it['end_kw'] = 'endif'
        else:
            styp, selx, cases = self.switch_parts(tv)
            it['styp'] = styp
            it['sel'] = selx
            it['cases'] = []
            for i in range(len(tv)):
                it['cases'].append([cases[i], body(i)])
            it['else'] = body(nb - 1) if has_default else None
        return it

    def simple(self, active):
        """one non-construct item; executed on the shadow machine if active"""
        rng = self.rng
        r = rng.random()
        if r < 0.30:
            it = self.mark()
        elif r < 0.50:
            kind = rng.choice(['label', 'equ', 'set'])
            it = {'t': 'def', 'kind': kind, 'name': self.newsym({'label': 'lb', 'equ': 'eq', 'set': 'st'}[kind]), 'val': rng.randrange(1, 0xfff)}
            self.m.res.tracked.add(it['name'].upper())
        elif r < 0.62:
            it = {'t': 'setv', 'name': rng.choice(['v1', 'v2', 'v3']), 'val': rng.randrange(1, 0xfff)}
        elif r < 0.72:
            it = {'t': 'emitv', 'name': rng.choice(['v1', 'v2', 'v3'])}
        elif r < 0.82:
            it = {'t': 'use', 'name': rng.choice(self.unames)}
        elif r < 0.90 and self.mparams:
            it = self.call()
        elif active is False:
            it = {'t': 'poison', 'text': rng.choice(['\terror\t"skipped block assembled"', '\tbogus\t1,2', '\tbyt\t1000', '\tfatal\t"skipped block assembled"',
                                                    '\tadr\tundefined_symbol_q', 'c1\tequ\t12345', '\tcpu\tnosuchcpu', 'c2:', '\tinclude\t"no_such_file.inc"',
                                                    'mac1\tmacro\n\tbyt\t99,99\n\tendm', '\trept\t2\n\tbyt\t98,98\n\tendm', '\tirp\tpq,1,2\n\tbyt\t97,97\n\tendm'])}
        else:
            it = self.mark()
        if active and it['t'] != 'poison':
            self.m.step(it)
        return it

    def call(self):
        rng = self.rng
        name = rng.choice(sorted(self.mparams))
        args = []
        for p, t in self.mparams[name]:
            if t == 'int':
                args.append(['int', rng.choice([0, 0, 1, 2, 3, 7, 256, 65536, -256])])
            elif t == 'str':
                args.append(['str', rng.choice(STR_POOL)])
            elif t == 'flt':
                args.append(['flt', rng.choice(FLT_POOL)])
            else:
                args.append(['blank'] if rng.random() < 0.5 else ['txt', rng.choice(NONBLANK)])
        while args and args[-1] == ['blank'] and rng.random() < 0.5:
            args.pop()          # trailing arguments may simply be missing
        return {'t': 'call', 'name': name, 'args': args}

    def items(self, depth, active, n=None):
        rng = self.rng
        out = []
        for _ in range(rng.randrange(0, 3) if n is None else n):
            if depth < self.max_depth and rng.random() < 0.45:
                out.append(self.skeleton(depth + 1, active))
            elif depth < self.max_depth and rng.random() < 0.08:
                out.append(self.rept(depth, active))
            else:
                out.append(self.simple(active))
        if rng.random() < 0.5:
            it = self.mark()
            out.append(it)
            if active:
                self.m.step(it)
        return out

    def skeleton(self, depth, active):
        rng = self.rng
        fam = rng.choice(['if', 'if', 'switch'])
        ncond = rng.choice([1, 1, 2, 2, 3, 4])
        has_default = rng.random() < 0.6
        tv = [rng.random() < 0.4 for _ in range(ncond)]
        return self.construct(fam, tv, has_default, active, lambda i, act: self.items(depth, act))

    # -- blind bodies (macro / REPT): conditions are not steered, no symbol definitions, no poison
    def blind_cond(self, params):
        rng = self.rng
        r = rng.random()
        bl = [p for p, t in (params or []) if t == 'blank']
        if bl and r < 0.4:
            n = rng.randrange(1, 4)
            args = [(['param', rng.choice(bl)] if rng.random() < 0.7 else ['txt', rng.choice(['', '', 'x'])]) for _ in range(n)]
            return ['blank', args, rng.random() < 0.5]
        if r < 0.5:
            return ['used', rng.choice(self.unames), rng.random() < 0.5]
        if r < 0.6:
            name, q = rng.choice(EXIST_YES + EXIST_NO)
            return ['exist', name, rng.random() < 0.5, q]
        if r < 0.7:
            return ['def', rng.choice(self.cnames + ['zq1', 'zq2']), rng.random() < 0.5]
        return ['expr', self.rand_expr(rng.choice([0, 1, 1, 2]), params)]

    def blind_items(self, depth, params, allow_exitm, callable_macros):
        rng = self.rng
        out = []
        for _ in range(rng.randrange(1, 4)):
            r = rng.random()
            if depth < 3 and r < 0.5:
                out.append(self.blind_construct(depth + 1, params, allow_exitm, callable_macros))
            elif r < 0.6:
                out.append({'t': 'use', 'name': rng.choice(self.unames)})
            elif r < 0.68 and callable_macros:
                out.append(self.call_of(rng.choice(callable_macros)))
            elif r < 0.78 and allow_exitm and depth > 0:
                out.append({'t': 'exitm'})
                if rng.random() < 0.7:
                    out.append(self.mark())
                break
            else:
                out.append(self.mark())
        return out

    def call_of(self, name):
        save = self.mparams
        self.mparams = {name: save[name]}
        try:
            return self.call()
        finally:
            self.mparams = save

    def blind_construct(self, depth, params, allow_exitm, callable_macros):
        rng = self.rng
        fam = rng.choice(['if', 'if', 'switch'])
        ncond = rng.choice([1, 1, 2, 3])
        has_default = rng.random() < 0.5
        it = {'t': fam, 'cid': self.newcid()}

        def body():
            return [self.mark()] + self.blind_items(depth, params, allow_exitm, callable_macros) + ([self.mark()] if rng.random() < 0.4 else [])
        if fam == 'if':
            it['head'] = self.blind_cond(params)
            it['body'] = body()
            it['elifs'] = [[self.rand_expr(rng.choice([0, 1, 2]), params), body()] for _ in range(ncond - 1)]
            it['else'] = body() if has_default else None
            it['else_kw'] = rng.choice(['else', 'elseif'])
            it['end_kw'] = 'endif'
        else:
            ps = [p for p, t in (params or []) if t in ('int', 'str', 'flt')]
            tv = [rng.random() < 0.4 for _ in range(ncond)]
            styp, sel, cases = self.switch_parts(tv)
            if ps and rng.random() < 0.5:
                # selector is a macro parameter: the CASE lists are drawn blindly from the pool of its type
                p = rng.choice(ps)
                styp = dict(params)[p]
                pool = {'int': [0, 1, 2, 3, 7], 'flt': FLT_POOL, 'str': STR_POOL}[styp]
                sel = ['param', p]
                cases = [[[styp, rng.choice(pool)] for _ in range(rng.randrange(1, 4))] for _ in range(ncond)]
            it['styp'] = styp
            it['sel'] = sel
            it['cases'] = [[cases[i], body()] for i in range(ncond)]
            it['else'] = body() if has_default else None
        return it

    def gen_macro(self, name):
        rng = self.rng
        params = []
        for i in range(rng.randrange(0, 4)):
            params.append(('parg%d' % (i + 1), rng.choice(['int', 'str', 'blank', 'blank', 'flt'])))
        callable_macros = sorted(self.mparams)       # only earlier macros: no recursion
        self.mparams[name] = params
        body = [self.mark()] + self.blind_items(0, params, True, callable_macros) + [self.mark()]
        self.prog['macros'].append({'name': name, 'params': [p for p, _ in params], 'body': body})

    def rept(self, depth, active):
        rng = self.rng
        r = rng.random()
        if r < 0.25:
            # WHILE with the manual's counting idiom (only in the main program: the manual's example is not inside a macro body)
            it = {'t': 'while', 'var': self.newsym('wv'), 'n': rng.choice([0, 1, 2, 3]),
                  'body': [self.mark()] + self.blind_items(1, None, True, sorted(self.mparams)) + [self.mark()]}
        elif r < 0.55:
            # IRP: the body is assembled once per argument (integers only: the manual does not speak about empty IRP arguments)
            params = [('pirp', 'int')]
            it = {'t': 'irp', 'param': 'pirp', 'args': [['int', rng.choice([0, 0, 1, 2, 3, 7, 256, 65536])] for _ in range(rng.randrange(1, 4))],
                  'body': [self.mark()] + self.blind_items(1, params, True, sorted(self.mparams)) + [self.mark()]}
        else:
            it = {'t': 'rept', 'n': rng.choice([0, 1, 2, 3]), 'body': [self.mark()] + self.blind_items(1, None, True, sorted(self.mparams)) + [self.mark()]}
        if active:
            self.m.step(it)
        return it

    def exitm_path(self, k, params):
        """items that reach an executed EXITM with k more constructs open (conditions steered on the current shadow state)"""
        rng = self.rng
        if k == 0:
            return [{'t': 'exitm'}, self.mark()]
        fam = rng.choice(['if', 'if', 'switch'])
        ncond = rng.choice([1, 2, 3])
        has_default = rng.random() < 0.5
        pi = rng.randrange(ncond + (1 if has_default else 0))
        tv = [False] * ncond
        if pi < ncond:
            tv[pi] = True
            for j in range(pi + 1, ncond):
                tv[j] = rng.random() < 0.5

        def body(i, act):
            if i == pi:
                pre = [self.mark()] if rng.random() < 0.5 else []
                return pre + self.exitm_path(k - 1, params) + ([self.mark()] if rng.random() < 0.5 else [])
            return self.blind_items(2, params, True, [])
        return [self.construct(fam, tv, has_default, False, body, steer=True), self.mark()]

    def exitm_group(self):
        """a macro or REPT whose body executes EXITM below 1..4 open constructs, expanded below 0..2 open constructs"""
        rng = self.rng
        k = rng.randrange(1, 5)
        outer = rng.randrange(0, 3)
        wrap = rng.choice(['macro', 'macro', 'rept', 'irp', 'while'])
        use_rept = wrap != 'macro'
        g = [self.mark()]
        self.m.step(g[0])
        if use_rept:
            def expansion():
                if wrap == 'while':
                    it = {'t': 'while', 'var': self.newsym('wv'), 'n': rng.choice([1, 2, 3]), 'body': [self.mark()] + self.exitm_path(k, None)}
                elif wrap == 'irp':
                    it = {'t': 'irp', 'param': 'pirp', 'args': [['int', rng.choice([0, 1, 2, 3, 7])] for _ in range(rng.randrange(1, 4))],
                          'body': [self.mark()] + self.exitm_path(k, None)}
                else:
                    it = {'t': 'rept', 'n': rng.choice([1, 2, 3]), 'body': [self.mark()] + self.exitm_path(k, None)}
                self.m.step(it)
                return it
        else:
            name = 'mx%d' % (len(self.prog['macros']) + 1)
            mac = {'name': name, 'params': [], 'body': None}

            def expansion():
                mac['body'] = [self.mark()] + self.exitm_path(k, None)
                self.prog['macros'].append(mac)
                self.m.macros[name] = mac
                it = {'t': 'call', 'name': name, 'args': []}
                self.m.step(it)
                return it

        def nest(level):
            if level == 0:
                t = self.mark()
                e = expansion()
                self.m.step(t)
                return [e, t]
            fam = rng.choice(['if', 'switch'])
            ncond = rng.choice([1, 2])
            has_default = True
            pi = rng.randrange(ncond + 1)
            tv = [False] * ncond
            if pi < ncond:
                tv[pi] = True

            def body(i, act):
                if i == pi:
                    return nest(level - 1)
                return self.items(9, False, n=1)
            c = self.construct(fam, tv, has_default, True, body, steer=True)
            t = self.mark()
            self.m.step(t)
            return [c, t]
        g += nest(outer)
        self.groups.append(g)
        self.prog['items'] += g
        self.exitm_depths.add((k, outer, wrap))
        return g

    def deep_group(self, depth, with_exitm):
        """a chain of `depth` nested constructs whose selected branches lead to the innermost one; optionally inside a macro
        that ends with an executed EXITM at the bottom (the whole chain is then discarded at once)"""
        rng = self.rng

        def chain(k, active):
            if k == 0:
                return ([{'t': 'exitm'}, self.mark()] if with_exitm else [])
            fam = rng.choice(['if', 'if', 'switch'])
            ncond = rng.choice([1, 2])
            has_default = rng.random() < 0.5
            pi = rng.randrange(ncond + (1 if has_default else 0))
            tv = [False] * ncond
            if pi < ncond:
                tv[pi] = True

            def body(i, act):
                if i == pi:
                    return chain(k - 1, act) + ([self.mark()] if rng.random() < 0.3 else [])
                return []
            return [self.construct(fam, tv, has_default, active, body, steer=True)]
        g = [self.mark()]
        self.m.step(g[0])
        if with_exitm:
            name = 'mx%d' % (len(self.prog['macros']) + 1)
            mac = {'name': name, 'params': [], 'body': [self.mark()] + chain(depth, False)}
            self.prog['macros'].append(mac)
            self.m.macros[name] = mac
            it = {'t': 'call', 'name': name, 'args': []}
            self.m.step(it)
            g.append(it)
        else:
            g += chain(depth, True)
        t = self.mark()
        self.m.step(t)
        g.append(t)
        self.groups.append(g)
        self.prog['items'] += g
        return g

    def group(self):
        """one top-level skeleton, bracketed by two unconditional markers"""
        g = [self.mark()]
        self.m.step(g[0])
        g.append(self.skeleton(1, True))
        t = self.mark()
        self.m.step(t)
        g.append(t)
        self.groups.append(g)
        self.prog['items'] += g
        return g


# The head marker of a branch is not executed on the shadow machine: a marker changes no state the generator looks at
# (only the byte stream, which the model recomputes from the finished program anyway).


# ---------------------------------------------------------------------------
# exhaustive families

def flat_shapes():
    out = []
    for fam in ('if', 'switch'):
        for n in (1, 2, 3):
            for d in (0, 1):
                for tv in itertools.product((0, 1), repeat=n):
                    out.append((fam, n, d, tv))
    return out


FLAT = flat_shapes()


def depth2_shapes():
    out = []
    for oi, (fam, n, d, tv) in enumerate(FLAT):
        for pos in range(n + d):
            for ii in range(len(FLAT)):
                out.append((oi, pos, ii))
    return out


DEPTH2 = depth2_shapes()


def build_shape(gen, shape):
    """shape: ('flat', i) | ('d2', oi, pos, ii)"""
    rng = gen.rng

    def leaf(i, act):
        return gen.items(9, act, n=rng.randrange(0, 2))          # depth 9: no further nesting
    g = [gen.mark()]
    gen.m.step(g[0])
    if shape[0] == 'flat':
        fam, n, d, tv = FLAT[shape[1]]
        g.append(gen.construct(fam, [bool(x) for x in tv], bool(d), True, leaf))
    else:
        _, oi, pos, ii = shape
        fam, n, d, tv = FLAT[oi]
        ifam, in_, id_, itv = FLAT[ii]

        def outer_body(i, act):
            pre = leaf(i, act)
            if i != pos:
                return pre
            inner = gen.construct(ifam, [bool(x) for x in itv], bool(id_), act, leaf)
            return pre + [inner] + leaf(i, act)
        g.append(gen.construct(fam, [bool(x) for x in tv], bool(d), True, outer_body))
    t = gen.mark()
    gen.m.step(t)
    g.append(t)
    gen.groups.append(g)
    gen.prog['items'] += g


def build_ifb_family(gen, part):
    """every blank/non-blank pattern of 0..5 arguments, IFB and IFNB; part 0: written directly, part 1: through macro parameters"""
    rng = gen.rng
    for n in range(0, 6):
        if part == 1:
            if n == 0:
                continue
            for neg in (False, True):
                name = 'mb%d%s' % (n, 'n' if neg else 'b')
                params = ['parg%d' % (i + 1) for i in range(n)]
                it = {'t': 'if', 'cid': gen.newcid(), 'head': ['blank', [['param', p] for p in params], neg],
                      'body': [gen.mark()], 'elifs': [], 'else': [gen.mark()], 'else_kw': 'else', 'end_kw': 'endif'}
                gen.prog['macros'].append({'name': name, 'params': params, 'body': [it]})
            gen.m = cond.Machine(gen.prog)
        for pat in itertools.product((0, 1), repeat=n):
            for neg in (False, True):
                g = [gen.mark()]
                if part == 0:
                    args = [['txt', rng.choice(NONBLANK) if x else ''] for x in pat]
                    g.append({'t': 'if', 'cid': gen.newcid(), 'head': ['blank', args, neg],
                              'body': [gen.mark()], 'elifs': [], 'else': [gen.mark()], 'else_kw': 'else', 'end_kw': 'endif'})
                else:
                    args = [(['txt', rng.choice(NONBLANK)] if x else ['blank']) for x in pat]
                    g.append({'t': 'call', 'name': 'mb%d%s' % (n, 'n' if neg else 'b'), 'args': args})
                g.append(gen.mark())
                gen.groups.append(g)
                gen.prog['items'] += g


# ---------------------------------------------------------------------------
# malformed skeletons

MALFORMED = ['stray-ELSE', 'stray-ELSEIF', 'stray-ENDIF', 'stray-CASE', 'stray-ELSECASE', 'stray-ENDCASE',
             'ELSE-after-ELSE', 'ELSEIF-after-ELSE', 'CASE-after-ELSECASE', 'ELSECASE-after-ELSECASE',
             'ELSE-in-SWITCH', 'ELSEIF-in-SWITCH', 'ENDIF-in-SWITCH', 'CASE-in-IF', 'ELSECASE-in-IF', 'ENDCASE-in-IF',
             'missing-ENDIF', 'missing-ENDCASE']
STMT = {'ELSE': '\telse', 'ELSEIF': '\telseif\t1', 'ENDIF': '\tendif', 'CASE': '\tcase\t1', 'ELSECASE': '\telsecase', 'ENDCASE': '\tendcase'}


def build_malformed(rng, cls, variant):
    """-> (source, description).  The offending statement is always reached in an assembled region and no construct of the
    family it belongs to is open at that point (or the ladder already had its default branch / a terminator is missing)."""
    gen = Gen(rng, max_depth=2, with_macros=rng.random() < 0.3)
    nprefix = rng.choice([0, 0, 1, 2])
    for _ in range(nprefix):
        gen.group()
    lines = cond.render(gen.prog).rstrip('\n').split('\n')
    depth = 0
    tail = []
    k = [0]

    def byt():
        k[0] += 1
        return '\tbyt\t%d' % (k[0] & 255)

    def open_if(active_branch_is_else=False):
        # the assembled branch is the first block, the block of an ELSEIF <expr>, or the default block
        if active_branch_is_else:
            if rng.random() < 0.3:
                lines.extend(['\tif\t0', byt(), '\telseif\t%s' % rng.choice(['1', '256', 'c1=c1']), byt()])
            else:
                lines.extend(['\tif\t0', byt(), rng.choice(['\telse', '\telseif']), byt()])
        else:
            lines.extend(['\tif\t%s' % rng.choice(['1', '1', '65536', '-1']), byt()])

    def open_switch(in_else=False):
        if in_else:
            lines.extend(['\tswitch\t5', '\tcase\t1,2', byt(), '\telsecase', byt()])
        else:
            lines.extend(['\tswitch\t5', '\tcase\t4,5', byt()])
    if cls.startswith('stray-'):
        st = cls.split('-')[1]
        lines.append(STMT[st])
        if rng.random() < 0.5:
            lines.append(byt())
    elif cls in ('ELSE-after-ELSE', 'ELSEIF-after-ELSE'):
        depth = rng.randrange(0, 3)
        for _ in range(depth):
            open_if(rng.random() < 0.5)
        c = rng.choice([0, 1])
        lines.extend(['\tif\t%d' % c, byt(), rng.choice(['\telse', '\telseif']), byt(), STMT[cls.split('-')[0]], byt(), '\tendif'])
        lines.extend(['\tendif'] * depth)
    elif cls in ('CASE-after-ELSECASE', 'ELSECASE-after-ELSECASE'):
        depth = rng.randrange(0, 3)
        for _ in range(depth):
            open_switch(rng.random() < 0.5)
        lines.extend(['\tswitch\t%d' % rng.choice([1, 3]), '\tcase\t1', byt(), '\telsecase', byt(), STMT[cls.split('-')[0]], byt(), '\tendcase'])
        lines.extend(['\tendcase'] * depth)
    elif cls.endswith('-in-SWITCH'):
        depth = rng.randrange(1, 5)
        for _ in range(depth):
            open_switch(rng.random() < 0.5)
        lines.append(STMT[cls.split('-')[0]])
        lines.append(byt())
        # afterwards: nothing / every SWITCH closed / one ENDCASE too few (as if the stray statement had closed one): all malformed
        lines.extend(['\tendcase'] * rng.choice([0, depth, depth - 1, depth - 1]))
    elif cls.endswith('-in-IF'):
        depth = rng.randrange(1, 5)
        for _ in range(depth):
            open_if(rng.random() < 0.5)
        lines.append(STMT[cls.split('-')[0]])
        lines.append(byt())
        lines.extend(['\tendif'] * rng.choice([0, depth, depth - 1, depth - 1]))
    elif cls == 'missing-ENDIF':
        depth = rng.randrange(1, 5)
        missing = rng.randrange(1, depth + 1)
        for _ in range(depth):
            r = rng.random()
            if r < 0.4:
                lines.extend(['\tif\t%d' % rng.choice([0, 1, 1]), byt()])
            elif r < 0.6:
                lines.extend(['\tifdef\t%s' % rng.choice(['c1', 'zzq']), byt()])
            elif r < 0.8:
                lines.extend(['\tif\t0', byt(), '\telseif\t1', byt()])
            else:
                lines.extend(['\tif\t0', byt(), '\telse', byt()])
        lines.extend(['\tendif'] * (depth - missing))
        if rng.random() < 0.5:
            lines.append(byt())
    elif cls == 'missing-ENDCASE':
        depth = rng.randrange(1, 5)
        missing = rng.randrange(1, depth + 1)
        for _ in range(depth):
            r = rng.random()
            if r < 0.5:
                open_switch(rng.random() < 0.5)
            elif r < 0.75:
                lines.extend(['\tswitch\t1', '\tcase\t2', byt()])
            else:
                lines.extend(['\tswitch\t"ab"', '\tcase\t"a","ab"', byt()])
        lines.extend(['\tendcase'] * (depth - missing))
        if rng.random() < 0.5:
            lines.append(byt())
    else:
        raise ValueError(cls)
    ctx_desc = 'prefix%d' % nprefix
    return '\n'.join(lines + tail) + '\n', {'class': cls, 'depth': depth, 'context': ctx_desc}, asm_args(gen.prog)


# ---------------------------------------------------------------------------
# plan

def plan(tier, seed):
    import random
    rng = random.Random(seed * 7919 + 12)
    cases = []
    reps = 1 if tier == 'quick' else 4
    for r in range(reps):
        cases.append({'fam': 'ifb', 'part': 0, 'rep': r})
        cases.append({'fam': 'ifb', 'part': 1, 'rep': r})
    shapes = [['flat', i] for i in range(len(FLAT))]
    if tier == 'quick':
        idx = rng.sample(range(len(DEPTH2)), 1500)
        shapes += [['d2'] + list(DEPTH2[i]) for i in sorted(idx)]
    else:
        shapes += [['d2'] + list(s) for s in DEPTH2]
    for i in range(0, len(shapes), BATCH):
        cases.append({'fam': 'shapes', 'shapes': shapes[i:i + BATCH]})
    for d in ([8, 40, 150] if tier == 'quick' else [5, 8, 16, 40, 80, 150, 250]):
        for e in (0, 1):
            cases.append({'fam': 'deep', 'depth': d, 'exitm': e})
    nex = 100 if tier == 'quick' else 2000
    for i in range(nex):
        cases.append({'fam': 'exitm', 'groups': 3})
    nrand = 500 if tier == 'quick' else 10000
    for i in range(nrand):
        cases.append({'fam': 'rand', 'groups': 3 if tier == 'quick' else 5})
    for i in range(80 if tier == 'quick' else 1500):
        cases.append({'fam': 'shift', 'i': i})
    nmal = 16 if tier == 'quick' else 150
    for cls in MALFORMED:
        for v in range(nmal):
            cases.append({'fam': 'malformed', 'class': cls, 'variant': v})
    return cases


# ---------------------------------------------------------------------------
# judging one well-formed program

class Inconclusive(Exception):
    pass


def stage_files(ctx):
    for n in FILES['src']:
        ctx.write(n, '; include file used by IFEXIST\n')
    for n in FILES['inc']:
        ctx.write(FILES['incdir'] + '/' + n, '; include file used by IFEXIST\n')


def observed_bytes(a, out):
    """byte stream of the program: from the code file (independent reader); None if there is no code file"""
    if a.p is None:
        return None
    try:
        recs = pfile.parse(a.p, strict=True)
    except pfile.FormatError as e:
        raise Inconclusive('code file unreadable: %s' % e)
    data = bytearray()
    for r in recs:
        if r.kind != 'data':
            continue
        if r.cpu != 0x11 or r.seg != 1 or r.start != len(data):
            raise Inconclusive('unexpected record %r' % r)
        data += r.data
    return bytes(data)


def traced_bytes(trace):
    last = 0
    for e in trace:
        if 'pass' in e and e['k'] in ('E', 'Q'):
            last = max(last, int(e['pass']))
    data = bytearray()
    for e in trace:
        if e['k'] == 'E' and int(e['pass']) == last:
            data += bytes.fromhex(e['hex'])
    return bytes(data)


def units(b):
    return [b[i] | (b[i + 1] << 8) for i in range(0, len(b) - 1, 2)]


def constructs_preorder(prog):
    lst = []

    def fn(it):
        if it['t'] in ('if', 'switch'):
            lst.append(it)
    cond.all_items(prog, fn)
    return lst


def marker_index(prog):
    """marker id -> (body name, source position, construct, branch index); construct/branch only for the head marker of a branch"""
    idx = {}
    pos = [0]

    def walk(items, body):
        for it in items:
            t = it['t']
            if t == 'mark':
                pos[0] += 1
                idx[it['id']] = (body, pos[0], None, None)
            elif t in ('if', 'switch'):
                for bi, (role, b) in enumerate(cond.branches(it)):
                    if b and b[0]['t'] == 'mark':
                        pos[0] += 1
                        idx[b[0]['id']] = (body, pos[0], it, bi)
                        walk(b[1:], body)
                    else:
                        walk(b, body)
            elif t in ('rept', 'irp', 'while'):
                walk(it['body'], body)
    for m in prog.get('macros', []):
        walk(m['body'], m['name'])
    walk(prog['items'], '')
    return idx


def blame(prog, exp, uw, uo):
    """The construct at which the observed marker stream leaves the predicted one: the streams agree up to the first
    difference, so the marker that comes first in source order was assembled by one side and skipped by the other; if
    it is the head marker of a branch, that branch was selected wrongly (observed only) or skipped wrongly (predicted only)."""
    i = 0
    while i < min(len(uo), len(uw)) and uo[i] == uw[i]:
        i += 1
    x = uw[i] if i < len(uw) else None
    y = uo[i] if i < len(uo) else None
    idx = marker_index(prog)
    ix, iy = idx.get(x), idx.get(y)
    pick = None
    if ix and iy and ix[0] == iy[0]:
        first, how = (ix, 'skipped-wrongly') if ix[1] < iy[1] else (iy, 'taken-wrongly')
        if ix[2] is not None and iy[2] is not None and ix[2] is iy[2]:
            first, how = (ix, 'skipped-wrongly') if ix[3] < iy[3] else (iy, 'taken-wrongly')
        if first[2] is not None:
            pick = (first, how)
    elif ix and ix[2] is not None and not iy:
        pick = (ix, 'skipped-wrongly')
    elif iy and iy[2] is not None and not ix:
        pick = (iy, 'taken-wrongly')
    elif ix and iy:
        # different bodies (a macro was entered by one side only): prefer a branch head
        if ix[2] is not None:
            pick = (ix, 'skipped-wrongly')
        elif iy[2] is not None:
            pick = (iy, 'taken-wrongly')
    if not pick:
        return None, None, None, None
    (body, _, it, bi), how = pick
    br = cond.branches(it)
    seen = set(uo)
    want = exp.taken.get(it['cid'], set())
    got = set(j for j, (role, b) in enumerate(br) if b and b[0]['t'] == 'mark' and b[0]['id'] in seen)
    return it, '%s:%s:%s' % (cond.kind_of(it), br[bi][0], how), want, got


def asm_args(prog):
    args = ['-i', FILES['incdir']]
    if prog.get('cmddefs'):
        # first symbol with the default value TRUE, the others with an explicit value
        names = sorted(prog['cmddefs'])
        args += ['-D', ','.join([names[0]] + ['%s=%d' % (n, prog['cmddefs'][n]) for n in names[1:]])]
    return args


def judge(ctx, prog, name):
    """-> list of (key, message); raises Inconclusive"""
    v, item = judge2(ctx, prog, name)
    if item is not None:
        # reduce: the blamed construct alone, if that is a valid program on its own
        sub = sub_program(prog, [item])
        try:
            v2, _ = judge2(ctx, sub, 'r_' + name)
        except cond.ModelError:
            return v      # the construct depends on what precedes it: not reducible this way
        keys = set(k for k, _ in v2)
        if keys & set(k for k, _ in v):
            return [(k, m) for k, m in v2 if k in set(k for k, _ in v)] + [(k, m) for k, m in v if k not in keys]
    return v


def judge2(ctx, prog, name):
    out = ctx.out
    exp = cond.predict(prog)
    src = cond.render(prog)
    ctx.write(name, src)
    # the line budget of hook H5 bounds a WHILE that would not terminate (exit status 96 instead of a timeout)
    a = asl.assemble(ctx, name, asm_args(prog), out=name[:-4] + '.p', trace=True, extra_env={'ASL_VERIF_MAX_LINES': '400000'})
    out.obs['asl_executions'] += 1
    if a.run.timed_out:
        raise Inconclusive('timeout')
    if a.run.san:
        return [(a.run.san, '%s: %s\n--- source\n%s' % (name, a.run.err.decode('latin-1')[-600:], src[-1500:]))], None
    tr = a.trace or []
    viol = []
    q = [e for e in tr if e['k'] == 'Q']
    errs = [e for e in tr if e['k'] == 'D' and e.get('class') in ('E', 'F')]
    warns = [e for e in tr if e['k'] == 'D' and e.get('class') == 'W']
    if not q and not errs:
        if a.rc == 96:
            return [('wellformed:line-budget-exceeded', '%s: more than 400000 lines delivered by macro/WHILE expansion (does not terminate)\n--- source\n%s'
                     % (name, src[-2500:]))], None
        raise Inconclusive('harness: no end-of-pass event in the trace (rc=%s)' % a.rc)
    out.obs['passes_observed'] += len(q)
    if len(q) != exp.passes and not errs:
        # the number of passes is not part of this property; the output of the final pass is judged all the same
        out.obs['programs_with_unexpected_pass_count'] += 1
    fin = max([int(e['pass']) for e in q + errs] or [1])
    warns_fin = [e for e in warns if int(e['pass']) == fin]
    for e in errs + warns:
        out.sets['diagnostic_numbers_wellformed'].add(e.get('num'))
    b = observed_bytes(a, out)
    if b is None:
        b = traced_bytes(tr)
    want = bytes(exp.out)
    item, bkey, bw, bg = (None, None, None, None)
    # in a two-pass program the first unit is the address of the label behind the last byte: it differs whenever anything differs
    skip = cond.prologue_len(prog)
    # an assembly that stops after pass 1 (errors) still has the short zero-page form of the forward LDA
    skip_o = 4 if (skip == 5 and fin == 1) else skip
    if b != want:
        item, bkey, bw, bg = blame(prog, exp, units(want[skip:]), units(b[skip_o:]))
    tail = '\n--- source\n%s' % (src if len(src) < 2500 else src[:1200] + '\n...\n' + src[-1200:])
    if item is not None:
        sub = []
        cond.render_items([item], sub)
        viol.append(('select:' + bkey, '%s: construct %s: branches assembled %s, documented %s\n%s%s'
                     % (name, cond.kind_of(item), sorted(bg), sorted(bw), '\n'.join(sub[:40]), tail)))
    elif b != want:
        uo, uw = units(b[skip_o:]), units(want[skip:])
        i = 0
        while i < min(len(uo), len(uw)) and uo[i] == uw[i]:
            i += 1
        x = uw[i] if i < len(uw) else None
        y = uo[i] if i < len(uo) else None
        if uo == uw:
            kind = 'forward-label-address'
        elif (x is not None and x < 0x1000) or (y is not None and y < 0x1000):
            kind = 'variable-value'
        elif set(uo) == set(uw):
            kind = 'marker-order-or-multiplicity'
        else:
            kind = 'marker-set'
        viol.append(('sequence:' + kind, '%s: byte stream differs at unit %d: expected %s, observed %s (expected %d units, observed %d)%s'
                     % (name, i, x and hex(x), y and hex(y), len(uw), len(uo), tail)))
    if errs:
        viol.append(('wellformed:error-%s' % errs[0].get('num'), '%s: %d error(s) on a well-formed program, first #%s at %s%s'
                     % (name, len(errs), errs[0].get('num'), errs[0].get('pos'), tail)))
    elif a.rc != 0:
        viol.append(('wellformed:status-%s' % a.rc, '%s: exit status %s without a recorded error%s' % (name, a.rc, tail)))
    if not errs:
        nw = [e for e in warns_fin if e.get('num') != '100']
        if nw:
            viol.append(('wellformed:warning-%s' % nw[0].get('num'), '%s: unexpected warning #%s at %s%s' % (name, nw[0].get('num'), nw[0].get('pos'), tail)))
        n100 = len(warns_fin) - len(nw)
        if n100 != exp.warnings and item is None and b == want:
            viol.append(('switch:no-match-warning-%s' % ('missing' if n100 < exp.warnings else 'spurious'),
                         '%s: %d "no CASE matched" warnings, documented %d%s' % (name, n100, exp.warnings, tail)))
        out.obs['no_match_warnings_seen'] += n100
    bad = [e for e in q if int(e['if']) != 0]
    if bad:
        viol.append(('stack:constructs-open-at-end-of-pass', '%s: %s open IF/SWITCH constructs at the end of pass %s of a well-formed program%s'
                     % (name, bad[0]['if'], bad[0]['pass'], tail)))
    # symbols
    if not errs and a.rc == 0:
        syms = {}
        for e in tr:
            if e['k'] == 'S':
                syms[e['name'].upper()] = (e['typ'], e['val'])
        for n in sorted(exp.tracked):
            if n in exp.defined and n not in syms:
                viol.append(('effect:symbol-of-assembled-block-missing', '%s: symbol %s defined in an assembled block does not exist%s' % (name, n, tail)))
                break
            if n not in exp.defined and n in syms:
                viol.append(('effect:symbol-defined-in-skipped-block', '%s: symbol %s is defined only in a skipped block but exists%s' % (name, n, tail)))
                break
        for n, v in sorted(exp.defined.items()):
            if v is not None and n in syms and n in exp.tracked | set(x.upper() for x in prog.get('vars', {})):
                try:
                    got = int(syms[n][1], 16)
                except ValueError:
                    continue
                if syms[n][0] == 'I' and got != v:
                    viol.append(('effect:symbol-value', '%s: symbol %s has value %d, documented %d (a SET/EQU in a skipped block took effect or one in an assembled block did not)%s'
                                 % (name, n, got, v, tail)))
                    break
        out.obs['symbols_checked'] += len(exp.tracked)
    # evidence of reach
    if not viol:
        out.obs['programs_agreeing'] += 1
        out.obs['marker_units_compared'] += len(want) // 2
        out.obs['constructs_reached'] += sum(exp.reached.values())
        out.obs['constructs_in_skipped_blocks'] += len(constructs_preorder(prog)) - len(exp.reached)
        out.obs['exitm_constructs_unwound'] += exp.exitm_unwound
        out.obs['symbols_defined_in_assembled_blocks'] += len([n for n in exp.tracked if n in exp.defined])
        out.obs['symbols_only_in_skipped_blocks'] += len([n for n in exp.tracked if n not in exp.defined])
        out.sets['nesting_depths_assembled'].add(exp.maxdepth)
        for s in exp.ifvals:
            out.sets['if_operand_value_classes'].add(s)
        for s in exp.stmts:
            if '/' in s:
                out.sets['branches_selected'].add(s)
            elif s.isupper() or s.startswith('SWITCH'):
                out.sets['constructs_assembled'].add(s)
            else:
                out.sets['other_statements_assembled'].add(s)
        out.sets['passes_per_program'].add(len(q))
    if item is not None:
        # everything else (errors from poison statements, symbols, warnings) follows from the wrong branch: one key per cause
        viol = [v for v in viol if v[0].startswith('select:')]
    return viol, item


def sub_program(prog, items):
    p = dict(prog)
    p['items'] = items
    return p


def struct_sig(items, exp):
    """structural signature of a group: kinds, branch counts, selected branches, nesting"""
    parts = []
    for it in items:
        t = it['t']
        if t in ('if', 'switch'):
            br = cond.branches(it)
            tk = ''.join(str(i) for i in sorted(exp.taken.get(it['cid'], ()))) if it['cid'] in exp.reached else '-'
            parts.append('%s%d%s>%s[%s]' % (cond.kind_of(it), len(br), 'd' if it['else'] is not None else '', tk,
                                            '|'.join(struct_sig(b, exp) for _, b in br)))
        elif t == 'rept':
            parts.append('R%d[%s]' % (it['n'], struct_sig(it['body'], exp)))
        elif t == 'while':
            parts.append('W%d[%s]' % (it['n'], struct_sig(it['body'], exp)))
        elif t == 'irp':
            parts.append('I%d[%s]' % (len(it['args']), struct_sig(it['body'], exp)))
        elif t == 'call':
            parts.append('C%d' % len(it['args']))
        elif t in ('exitm', 'poison', 'def', 'use'):
            parts.append(t[0].upper())
    return ','.join(parts)


def run_wellformed(ctx, gen, fam):
    out = ctx.out
    prog = gen.prog
    stage_files(ctx)
    try:
        exp = cond.predict(prog)
        viol = judge(ctx, prog, 'w.asm')
        if viol and len(gen.groups) > 1:
            # reduce: every top-level skeleton alone; the batch verdict stands only if no single skeleton reproduces it
            red = []
            for gi, g in enumerate(gen.groups):
                try:
                    v = judge(ctx, sub_program(prog, g), 'g%d.asm' % gi)
                except cond.ModelError:
                    continue      # this skeleton depends on state left by earlier ones: not a program on its own
                for key, msg in v:
                    if key not in [k for k, _ in red]:
                        red.append((key, msg))
            if red:
                viol = red
    except Inconclusive as e:
        out.inconc(str(e))
        return
    for key, msg in viol:
        out.violate(key, msg)
    for g in gen.groups:
        s = struct_sig(g, exp)
        if any(it['t'] in ('if', 'switch', 'call', 'rept', 'irp', 'while') for it in g):
            out.sigs.add(fam + ':' + (s if len(s) < 100 else hashlib.sha1(s.encode()).hexdigest()[:20]))
    out.obs['skeletons_' + fam] += len(gen.groups)
    out.sample = {'family': fam, 'skeletons': len(gen.groups), 'first_skeleton_source_tail': cond.render(sub_program(prog, gen.groups[0])).split('\n')[-25:]}


def run_malformed(ctx, case):
    out = ctx.out
    src, desc, args = build_malformed(ctx.rng, case['class'], case['variant'])
    stage_files(ctx)
    ctx.write('m.asm', src)
    a = asl.assemble(ctx, 'm.asm', args, trace=True, extra_env={'ASL_VERIF_MAX_LINES': '400000'})
    cls = case['class']
    out.obs['asl_executions'] += 1
    out.obs['skeletons_malformed'] += 1
    out.sample = dict(desc, source_tail=src.split('\n')[-14:])
    out.sig = ('malformed', cls, desc['depth'], desc['context'])
    out.nontrivial = True
    if a.run.timed_out:
        out.inconc('timeout')
        return
    tail = '\n--- source (tail)\n' + '\n'.join(src.split('\n')[-30:])
    if a.run.san:
        out.violate(a.run.san, 'malformed skeleton (%s) crashes the assembler: %s%s' % (cls, a.run.err.decode('latin-1')[-500:], tail))
        return
    errs = [e for e in (a.trace or []) if e['k'] == 'D' and e.get('class') in ('E', 'F')]
    for e in errs:
        out.sets['error_numbers_malformed'].add(e.get('num'))
    out.sets['malformed_status'].add(str(a.rc))
    if a.rc == 0:
        out.violate('malformed:%s:accepted-with-status-0' % cls, 'malformed skeleton accepted silently (%d errors recorded)%s' % (len(errs), tail))
    elif a.rc != 2:
        out.violate('malformed:%s:status-%s' % (cls, a.rc), 'malformed skeleton ends with status %s instead of 2%s' % (a.rc, tail))
    elif not errs:
        out.violate('malformed:%s:no-error-reported' % cls, 'status 2 but no error diagnostic was issued%s' % tail)
    else:
        out.obs['malformed_rejected'] += 1
        out.sets['malformed_classes_rejected'].add(cls)


def finish(obs, sets):
    # the unit of evaluation is the skeleton (several per assembled program), not the process execution
    n = sum(v for k, v in obs.items() if k.startswith('skeletons_'))
    return {'evaluations': n, 'evaluations_unit': 'skeletons judged (several well-formed skeletons share one assembled program; reductions re-assemble them alone)',
            'asl_executions': obs.get('asl_executions', 0)}


def run_shift(ctx, case):
    """statements with a lasting effect inside branches: SHIFT (and assignments to a variable) in a branch that is not selected must not
    happen, in the selected branch they must; observed through the bytes the macro lays down from its parameters afterwards"""
    out = ctx.out
    rng = ctx.rng
    n = rng.randrange(2, 7)
    args = rng.sample(range(1, 250), n)
    state = {'args': list(args), 'var': 0}
    exp = []
    lines = []

    def truth(tv):
        a, b = rng.sample(range(1, 99), 2)
        if rng.random() < 0.4:
            return str(int(tv))
        op, val = rng.choice([('<', a < b), ('>', a > b), ('=', a == b), ('<>', a != b)])
        return '%d%s%d' % (a, op, b) if val == tv else '~~(%d%s%d)' % (a, op, b)

    def block(live, depth, ind):
        for _ in range(rng.randrange(1, 5)):
            r = rng.random()
            if r < 0.35:
                k = rng.randrange(len(state['args'])) if live else rng.randrange(n)
                lines.append('%s byt\tparg%d' % (ind, k + 1))
                if live:
                    exp.append(state['args'][k])
            elif r < 0.6:
                if live and len(state['args']) < 2:
                    continue
                lines.append('%s shift' % ind)
                if live:
                    state['args'].pop(0)
                    state['live_shifts'] = state.get('live_shifts', 0) + 1
                else:
                    state['skipped_shifts'] = state.get('skipped_shifts', 0) + 1
            elif r < 0.7:
                v = rng.randrange(1, 250)
                lines.append('shv\tset\t%d' % v)
                lines.append('%s byt\tshv' % ind) if live else None
                if live:
                    state['var'] = v
                    exp.append(v)
            elif depth < 3:
                if rng.random() < 0.6:
                    tvs = [rng.random() < 0.4 for _ in range(rng.choice([1, 1, 2, 3]))]
                    taken = False
                    for bi, tv in enumerate(tvs):
                        lines.append('%s %s\t%s' % (ind, 'if' if bi == 0 else 'elseif', truth(tv)))
                        block(live and tv and not taken, depth + 1, ind + ' ')
                        taken = taken or tv
                    if rng.random() < 0.6:
                        lines.append('%s else' % ind)
                        block(live and not taken, depth + 1, ind + ' ')
                    lines.append('%s endif' % ind)
                else:
                    sel = rng.randrange(4)
                    lines.append('%s switch\t%d' % (ind, sel))
                    taken = False
                    for cv in rng.sample(range(4), rng.randrange(1, 4)):
                        lines.append('%s case\t%d' % (ind, cv))
                        block(live and cv == sel and not taken, depth + 1, ind + ' ')
                        taken = taken or cv == sel
                    if rng.random() < 0.5:
                        lines.append('%s elsecase' % ind)
                        block(live and not taken, depth + 1, ind + ' ')
                    lines.append('%s endcase' % ind)
        # what is left of the parameters after the block is observable too
        if live and depth == 0:
            for k in range(len(state['args'])):
                lines.append('%s byt\tparg%d' % (ind, k + 1))
                exp.append(state['args'][k])

    block(True, 0, '')
    text = '\tcpu\t6502\nshv\tset\t0\nshm\tmacro\t%s\n%s\n\tendm\n\tshm\t%s\n\tbyt\tshv\n' % (
        ','.join('parg%d' % (i + 1) for i in range(n)), '\n'.join(lines), ','.join(str(a) for a in args))
    exp.append(state['var'])
    ctx.write('sh.asm', text)
    a = asl.assemble(ctx, 'sh.asm', [], trace=True)
    out.sample = {'shift_program_head': text.split('\n')[:16]}
    if a.run.timed_out:
        out.inconc('timeout')
        return
    if a.run.san:
        out.violate(a.run.san, 'shift family: %s' % a.run.err.decode('latin-1')[-600:])
        return
    shown = text.replace('\n', ' | ')
    if a.rc != 0:
        out.violate('wellformed:shift-family-rejected', 'status %s: %s | --- source | %s' % (a.rc, a.run.err.decode('latin-1')[:300].replace('\n', ' | '), shown))
        return
    try:
        got = observed_bytes(a, out)
    except Inconclusive as e:
        out.inconc(str(e))
        return
    out.obs['shift_family_programs'] += 1
    out.obs['shift_statements_in_skipped_branches'] += state.get('skipped_shifts', 0)
    out.obs['shift_statements_in_selected_branches'] += state.get('live_shifts', 0)
    out.nontrivial = True
    out.sig = ('shift', n, min(len(exp), 12), text.count('switch') > 0, text.count('elseif') > 0)
    if list(got or b'') != exp:
        j = next((i for i, (x, y) in enumerate(zip(got, exp)) if x != y), min(len(got), len(exp)))
        out.violate('select:lasting-effect-of-skipped-branch', 'byte %d is %s, the documented selection of branches gives %s (SHIFT / SET inside a branch that is not selected must not happen) | --- source | %s'
                    % (j, got[j] if j < len(got) else 'missing', exp[j] if j < len(exp) else 'nothing', shown))


def run_case(case, ctx):
    fam = case['fam']
    rng = ctx.rng
    if fam == 'shift':
        run_shift(ctx, case)
        return
    if fam == 'malformed':
        run_malformed(ctx, case)
        return
    if fam == 'ifb':
        gen = Gen(rng, with_macros=False)
        build_ifb_family(gen, case['part'])
    elif fam == 'shapes':
        gen = Gen(rng, with_macros=True, multipass=rng.choice([0, 0, 0, 2, 3]))
        for s in case['shapes']:
            build_shape(gen, tuple(s))
            if rng.random() < 0.05:
                gen.probe_group()
        gen.define_late(everything=True)
    elif fam == 'deep':
        sys.setrecursionlimit(20000)
        gen = Gen(rng, with_macros=False)
        gen.deep_group(case['depth'], bool(case['exitm']))
        gen.group()
        ctx.out.sets['deep_chain_depths'].add(case['depth'])
    elif fam == 'exitm':
        gen = Gen(rng, with_macros=True, multipass=rng.choice([0, 0, 0, 2, 3]))
        for _ in range(case['groups']):
            gen.exitm_group()
            if rng.random() < 0.3:
                gen.group()
            if rng.random() < 0.3:
                gen.probe_group()
        gen.define_late(everything=True)
        for d in gen.exitm_depths:
            ctx.out.sets['exitm_(open_in_body,open_at_call,kind)'].add('%d,%d,%s' % d)
    else:
        # one, two or three passes; symbols defined between the skeletons and at the end are probed (IFDEF) in front of and
        # behind their definition, constants are probed (IFUSED) in front of and behind their first reference
        gen = Gen(rng, with_macros=True, multipass=rng.choice([0, 0, 2, 2, 3]))
        for _ in range(case['groups']):
            gen.group()
            if rng.random() < 0.5:
                gen.probe_group()
        gen.define_late(everything=True)
    run_wellformed(ctx, gen, fam)
