"""C13 -- symbol scoping, mutability and naming rules are honoured.

Every generated program exports each symbol reference through a data word
(`adr` / `dc.w` / `dw`); every definition carries a distinct value, so the
word read back from the code file identifies the definition the assembler
bound the reference to.  The expected binding comes from vf/model/scope.py,
a resolver written from the manual (sections, qualifiers, PUBLIC / GLOBAL /
FORWARD, macro-local labels, $$ / + - / / .name temporaries, EQU vs SET,
PUSHV/POPV, -U).  The final symbol dump of the hook trace (S events) is a
second, neutral witness: name, owning section and value of every
non-temporary symbol.  Programs with one planted rule violation must be
refused with exactly the documented error number(s) on exactly those lines.

Generation is liberal, the model then decides which references the manual
defines; references (or programs) outside the documented territory are
dropped before the assembler sees them, so nothing undefined is compared.
"""
import re

from .. import asl, pfile
from ..model import scope

ID = 'C13'
LEVEL = 'exploration'
RULE = ('case = one generated program (section tree of depth <= 4 with same-named constants on several levels, references before/after the '
        'definitions with every qualifier form, PUBLIC/GLOBAL exports to every ancestor, FORWARD, macro-local labels, the manual\'s proc/endp '
        'macro pair, named/nameless/composed temporaries, EQU/SET/label mutability, PUSHV/POPV of integer and string symbols, names of up to 230 '
        'characters that differ in the last one) assembled once, with or without -U, on 6502/68000/Z80; every 4th program carries one planted '
        'rule violation, every other 4th one is pruned so that nothing asks for a second pass; distinct = distinct (reference kind, qualifier form, before/after definition, section depth, how the definition '
        'reached its section, case mode) of a compared reference, or (fault class, error number) of a refused program; non-trivial = at least one '
        'reference compared or one planted fault diagnosed')
ASSUMPTIONS = ['`nop` and the word data statement (adr / dc.w / dw) have fixed sizes on the three targets, so label values are computable',
               'hook trace S events (final symbol dump) and D events (diagnostics with pass and error number) report the assembler state faithfully',
               'error numbers as tabulated in doc/error-messages.md']
MANIFEST = dict(
    category='exploration', design_ref='DESIGN.md §4 C13',
    technique='reference-model monitor: resolver written from the manual predicts the value behind every exported reference; code file read by the '
              'independent reader, final symbol dump (hook H1) as neutral witness, diagnostic events (hook H4) for planted faults',
    text='Held on the executions of this run: in generated programs with section trees up to depth 4, same-named symbols on several levels, '
         'definitions before and after use (including programs that need no second pass, where a global found first must still be replaced by the '
         'later local), qualifiers name[section] / name[] / name[PARENT0..4] (PARENT5..9 refused), PUBLIC/GLOBAL exports to every ancestor, FORWARD, '
         'macro-local labels and the proc/endp macro pair, $$ named, + - / nameless (sight 3) and .composed temporaries, names up to 230 characters '
         'differing in the last one, EQU/SET/label redefinition rules and PUSHV/POPV of integer and string symbols, with and without -U, every '
         'reference carried the value of the definition the manual prescribes, the final symbol table held every symbol in the section the manual '
         'assigns it to, and every planted rule violation was refused with the documented error number on its line.',
    note='Only constructs whose outcome the manual defines are generated (no qualifier on definitions, no POPV into constants, no reads of a '
         'variable before its first assignment of the pass, no temporaries across section or macro boundaries, no nested macro calls, no section '
         'named like one of its parents, literal values only). Trusts vf/pfile.py and the hook trace.')
REGISTERED = True

CPUS = {
    '6502': dict(word='adr', nopsize=1, be=False, set_ok=True, pcsym='*', byte='byt'),
    '68000': dict(word='dc.w', nopsize=2, be=True, set_ok=True, pcsym='*', byte='dc.b'),
    'z80': dict(word='dw', nopsize=1, be=False, set_ok=False, pcsym='$', byte='db'),    # SET is a machine instruction there: EVAL / := are used
}
CPU_ORDER = ['6502', '68000', 'z80']
ORG = 0x4000

FAULTS = ['double-equ', 'double-label', 'const-to-var', 'var-to-const', 'undef', 'badsect', 'unresolved-public',
          'public-after-def', 'conflict', 'export-collision', 'popv-empty', 'undef-temp']
FAULT_NUMS = {
    'double-equ': {1000}, 'double-label': {1000}, 'const-to-var': {2030}, 'var-to-const': {2035}, 'undef': {1010}, 'badsect': {1484},
    'unresolved-public': {1488}, 'public-after-def': {1488}, 'conflict': {1489}, 'export-collision': {1000}, 'popv-empty': {1530},
    'undef-temp': {1010},
}
FOCI = ['scope', 'scope', 'temp', 'mut', 'macro', 'stack', 'mix', 'scope']

CONST_POOL = ['alfa', 'bravo', 'kilo', 'lima']
EXPORT_POOL = ['mike', 'nova', 'oskar', 'papa']
VAR_POOL = ['cnt', 'idx', 'acc']
SECT_POOL = ['sone', 'stwo', 'modx', 'mody', 'prca', 'prcb', 'unit', 'blok']
TEMP_POOL = ['lp', 'sk', 'tt']
STACK_POOL = ['stk', 'aux', '']


XKINDS = ['macro', 'rept', 'irp', 'irpc']


def plan_xshadow(tier):
    """systematic family: a body (macro / REPT / IRP / IRPC) that refers to a label defined further down in the same
    body, expanded at section depth 0..3, with a same-named symbol defined beforehand on every subset of the
    enclosing levels (global, grandfather, father, own section), in a source that needs no second pass for any
    other reason and in one that does.  The documented binding is always the label of the own expansion."""
    cases = []
    i = 0
    for var in range(1 if tier == 'quick' else 12):
        for kind in (XKINDS[:3] if tier == 'quick' else XKINDS) + ['sect']:
            for depth in range(4):
                # kind 'sect': the same situation without an expansion - the later definition is an ordinary one of the
                # innermost section, so that level cannot hold the name beforehand
                for mask in (range(1 << (depth + 1)) if kind != 'sect' else range(1 << depth) if depth else []):
                    for extra in (False, True):
                        cases.append({'x': kind, 'depth': depth, 'mask': mask, 'extra': extra, 'var': var,
                                      'cs': i % 3 == 1, 'cpu': CPU_ORDER[(i // 3) % 3], 'focus': 'xshadow'})
                        i += 1
    return cases


def plan(tier, seed):
    n = 1500 if tier == 'quick' else 30000
    cases = plan_xshadow(tier)
    for i in range(n):
        c = {'cs': i % 3 == 1, 'cpu': CPU_ORDER[(i // 3) % 3], 'focus': FOCI[(i // 9) % len(FOCI)]}
        if i % 4 == 3:
            c['fault'] = FAULTS[(i // 4) % len(FAULTS)]
        elif i % 4 == 2:
            c['single'] = True
        cases.append(c)
    cases += [{'regvar': i} for i in range(60 if tier == 'quick' else 1500)]
    return cases


# ---------------------------------------------------------------------------
# register symbols: "Just like other symbols, they may be defined or re-defined with EQU or SET", "register symbols are local to sections"

REG_TARGETS = {
    # cpu -> (register names with their numbers, statement that carries a register, encoder of that statement, big-endian words)
    'atmega8': ([('r%d' % n, n) for n in range(32)], 'mov\tr0,%s', lambda n: 0x2C00 | ((n & 0x10) << 5) | (n & 0x0F), False),
    '68000': ([('d%d' % n, n) for n in range(8)] + [('a%d' % n, 8 + n) for n in range(7)], 'move.l\t%s,d0', lambda n: 0x2000 | n, True),
}


def run_regvar(case, ctx):
    out = ctx.out
    rng = ctx.rng
    cpu = sorted(REG_TARGETS)[case['regvar'] % 2]
    regs, stmt, enc, be = REG_TARGETS[cpu]
    cs = rng.random() < 0.3
    names = ['acc', 'Ptr', 'tmp_reg'][:rng.randrange(1, 4)]
    spell = (lambda n: n) if cs else (lambda n: rng.choice([n, n.upper(), n.lower()]))
    lines = ['\tcpu\t%s' % cpu]
    expect = []              # words the code file must hold, in order
    scopes = [{}]            # innermost last: name -> ('var'|'const', register number)
    outer_used = [set()]     # names a section has read from an enclosing scope (assigning them there afterwards would make the earlier read depend on the pass)
    fault = None
    want_fault = rng.random() < 0.15
    nst = rng.randrange(4, 30)
    for i in range(nst):
        k = rng.random()
        nm = rng.choice(names)
        visible = next((sc[nm] for sc in reversed(scopes) if nm in sc), None)
        if k < 0.35 or visible is None:
            own = scopes[-1].get(nm)
            if own and own[0] == 'const':
                continue
            if own is None and nm in outer_used[-1]:
                continue
            rname, rnum = rng.choice(regs)
            how = rng.choice(['set', ':=', 'set', 'eval'] if cpu == '68000' else ['set', ':=', 'set'])
            src = rname
            if rng.random() < 0.2:
                other = [(n2, v) for sc in scopes for n2, v in sc.items() if n2 != nm]
                vis_other = [(n2, next(sc[n2] for sc in reversed(scopes) if n2 in sc)) for n2 in set(n for n, _ in other)]
                if vis_other:
                    n2, v2 = rng.choice(sorted(vis_other))
                    src, rnum = spell(n2), v2[1]          # "Simple assignments are however possible"
                    if n2 not in scopes[-1]:
                        outer_used[-1].add(n2)
            lines.append('%s\t%s\t%s' % (spell(nm), how, src))
            scopes[-1][nm] = ('var', rnum)
        elif k < 0.75:
            lines.append('\t' + stmt % spell(nm))
            expect.append(enc(visible[1]))
            if nm not in scopes[-1]:
                outer_used[-1].add(nm)
        elif k < 0.83 and len(scopes) == 1:
            lines.append('\tsection\tsc%d' % i)
            scopes.append({})
            outer_used.append(set())
        elif k < 0.9 and len(scopes) > 1:
            lines.append('\tendsection')
            scopes.pop()
            outer_used.pop()
        elif k < 0.95 and len(scopes) > 1 and nm in scopes[0]:
            lines.append('\t' + stmt % (spell(nm) + '[]'))
            expect.append(enc(scopes[0][nm][1]))
        elif want_fault and fault is None:
            # a register alias that is a constant cannot be assigned to
            cn = 'kreg%d' % i
            rname, rnum = rng.choice(regs)
            lines.append('%s\t%s\t%s' % (cn, rng.choice(['equ', 'reg']), rname))
            lines.append('\t' + stmt % cn)
            expect.append(enc(rnum))
            lines.append('%s\tset\t%s' % (cn, rng.choice(regs)[0]))
            fault = len(lines)
    while len(scopes) > 1:
        lines.append('\tendsection')
        scopes.pop()
    text = '\n'.join(lines) + '\n'
    ctx.write('g.asm', text)
    a = asl.assemble(ctx, 'g.asm', ['-U'] if cs else [], trace=True)
    tag = 'register variables #%d (%s%s)' % (ctx.idx, cpu, ' -U' if cs else '')
    out.sample = {'regvar': cpu, 'fault': fault, 'source_head': lines[:14]}
    if a.run.timed_out:
        out.inconc('timeout')
        return
    if a.run.san:
        out.violate(a.run.san, '%s: %s' % (tag, a.run.err.decode('latin-1')[-800:]))
        return
    shown = text.replace('\n', ' | ')
    errs = [e for e in (a.trace or []) if e['k'] == 'D' and e.get('class') in ('E', 'F')]
    out.nontrivial = len(expect) > 1
    out.sig = ('regvar', cpu, cs, min(len(expect), 8), fault is not None, len([l for l in lines if 'section' in l]) > 0)
    out.obs['register_variable_programs'] += 1
    if fault is not None:
        lns = set()
        for e in errs:
            m = _POS_RE.search(e.get('pos', ''))
            lns.add(int(m.group(1)) if m else None)
        if a.rc == 0:
            out.violate('accepted:regvar:assignment-to-constant-register-alias', '%s: line %d assigns to a register alias defined with EQU/REG and was accepted | %s' % (tag, fault, shown))
        elif lns != {fault}:
            out.violate('rejected:regvar:other-line', '%s: only line %d is wrong, errors reported for lines %s | %s' % (tag, fault, sorted(lns, key=str), shown))
        else:
            out.obs['register_constant_assignments_refused'] += 1
        return
    if a.rc != 0 or a.p is None:
        first = errs[0] if errs else {}
        out.violate('rejected:%s@regvar' % first.get('num', '?'), '%s: a program inside the documented rules was refused (status %s, first error %s at %s) | %s'
                    % (tag, a.rc, first.get('num'), first.get('pos'), shown))
        return
    data = b''.join(r.data for r in pfile.parse(a.p) if r.kind == 'data')
    got = [int.from_bytes(data[i:i + 2], 'big' if be else 'little') for i in range(0, len(data), 2)]
    if got != expect:
        j = next((i for i, (x, y) in enumerate(zip(got, expect)) if x != y), min(len(got), len(expect)))
        out.violate('regvar:wrong-register-read', '%s: statement %d that names a register variable assembled to %s, the value assigned last in its scope gives %s | %s'
                    % (tag, j, '$%04x' % got[j] if j < len(got) else 'nothing', '$%04x' % expect[j] if j < len(expect) else 'nothing', shown))
        return
    out.obs['register_variable_reads_checked'] += len(expect)


# ---------------------------------------------------------------------------
# generator

class Gen:
    def __init__(self, rng, cs, cpu, focus, fault):
        self.rng = rng
        self.cs = cs
        self.cpu = cpu
        self.focus = focus
        self.fault = fault
        self.planted = False
        self.nextval = 0x100 + rng.randrange(64)
        self.nsec = 0
        self.assigned = set()       # (canonical name, section key)
        self.fresh = 0
        self.known_names = []       # spelled names worth referencing (composed GLOBAL names, fresh labels, X.y)
        self.macros = {}
        self.global_consts = []
        self.have_macros = False
        self.nstr = rng.randrange(500)
        self.cpuinfo = CPUS[cpu]
        if cs:
            # distinct symbols that differ in case only
            self.const_pool = ['alfa', 'Alfa', 'ALFA', 'kilo', 'Kilo']
            self.export_pool = ['mike', 'Mike', 'nova', 'NOVA']
            self.var_pool = ['cnt', 'Cnt', 'acc']
            self.sect_pool = ['sone', 'Sone', 'SONE', 'modx', 'Modx', 'prca', 'unit', 'blok']
        else:
            self.const_pool = list(CONST_POOL)
            self.export_pool = list(EXPORT_POOL)
            self.var_pool = list(VAR_POOL)
            self.sect_pool = list(SECT_POOL)

    # -- small helpers
    def canon(self, s):
        return s if self.cs else s.upper()

    def sp(self, name):
        """spelling of one occurrence of a name"""
        if self.cs:
            return name
        k = self.rng.randrange(5)
        if k == 0:
            return name.upper()
        if k == 1:
            return name.capitalize()
        if k == 2:
            return ''.join(c.upper() if self.rng.random() < 0.5 else c.lower() for c in name)
        return name

    def kw_parent(self, n, short_ok=True):
        s = 'PARENT' if (n == 1 and short_ok and self.rng.random() < 0.5) else 'PARENT%d' % n
        return s if self.cs else self.sp(s.lower()) if self.rng.random() < 0.5 else s

    def val(self):
        self.nextval += self.rng.randrange(1, 6)
        return self.nextval

    def freshname(self, prefix='mrk'):
        n = self.fresh
        self.fresh += 1
        s = ''
        while True:
            s = chr(ord('a') + n % 26) + s
            n //= 26
            if n == 0:
                break
        return prefix + s

    def const_how(self):
        return self.rng.choice(['equ', 'equ', '=', 'label', 'label', 'labelstmt'])

    def var_how(self):
        if self.cpuinfo['set_ok']:
            return self.rng.choice(['set', 'set', ':=', 'eval'])
        return self.rng.choice([':=', 'eval'])

    def mkdef(self, how, name):
        return ('def', how, name, None if how == 'label' else self.val())

    # -- program
    def program(self):
        prog = []
        w = self.weights()
        if w['macro'] or self.rng.random() < 0.3:
            prog += self.macro_defs()
        prog += self.body([], -1, w)
        return prog

    def weights(self):
        f = self.focus
        w = dict(scope=1.0, temp=0.25, mut=0.25, macro=0.2, stack=0.15, refs=1.0)
        if f == 'scope':
            w.update(temp=0.1, mut=0.1, macro=0.0, stack=0.0)
        elif f == 'temp':
            w.update(temp=1.5, scope=0.4, macro=0.0, stack=0.0, mut=0.2)
        elif f == 'mut':
            w.update(mut=1.5, scope=0.4, macro=0.0, stack=0.2, temp=0.0)
        elif f == 'macro':
            w.update(macro=1.5, scope=0.5, temp=0.0, stack=0.0, mut=0.1)
        elif f == 'stack':
            w.update(stack=1.5, scope=0.3, temp=0.0, macro=0.0, mut=0.3)
        if self.fault in ('popv-empty',):
            w['stack'] = max(w['stack'], 1.0)
        if self.fault in ('const-to-var', 'var-to-const'):
            w['mut'] = max(w['mut'], 1.0)
        if self.fault == 'undef-temp':
            w['temp'] = max(w['temp'], 1.5)
        return w

    def macro_defs(self):
        rng = self.rng
        out = []
        # macro with local labels that carry the names of ordinary symbols
        lab = rng.choice(self.const_pool)
        lab2 = rng.choice([x for x in self.const_pool if self.canon(x) != self.canon(lab)])
        body = [('def', 'label', self.sp(lab), None), ('ref', [(self.sp(lab), None), ('arg', None)])]
        if rng.random() < 0.6:
            body.insert(0, ('ref', [(self.sp(lab), None)]))        # reference before the local definition
        if rng.random() < 0.5:
            body.append(('def', 'label', self.sp(lab2), None))
            body.insert(rng.randrange(len(body)), ('ref', [(self.sp(lab2), None), (self.sp(lab), None)]))
        if rng.random() < 0.3:
            body.append(('nop',))
        out.append(('macro', 'mloc', ['arg'], False, body))
        self.macros['mloc'] = (lab, lab2)
        # the documented way out of a macro: EQU / LABEL define ordinary symbols
        out.append(('macro', 'mdef', ['nm', 'vl'], False, [('def', rng.choice(['equ', 'labelstmt']), 'nm', 'vl')]))
        out.append(('macro', 'mglb', ['nm'], True, [('def', 'label', 'nm', None), ('ref', [('nm', None)])]))
        # the manual's example: a variable advanced from inside a macro (DefVec)
        out.append(('macro', 'mset', ['nm', 'vl'], False, [('def', self.var_how(), 'nm', 'vl')]))
        # the manual's proc / endp pair: section whose entry point is exported to the parent
        out.append(('macro', 'proc', ['nm'], False, [('section', 'nm'), ('decl', 'public', [('nm', 'PARENT')]), ('def', 'labelstmt', 'nm', 'PC')]))
        out.append(('macro', 'endp', ['nm'], False, [('endsection', 'nm')]))
        self.have_macros = True
        return out

    def body(self, path, key, w):
        """path: list of (section key, spelled name) from the outermost section to the current one"""
        rng = self.rng
        depth = len(path)
        groups = []          # (tag, [statements])
        fwd_front = []
        tail = []
        # own constants
        own = []
        for nm in self.const_pool:
            if rng.random() < (0.55 if depth == 0 else 0.45) * w['scope'] + 0.05 and (self.canon(nm), key) not in self.assigned:
                own.append(nm)
                self.assigned.add((self.canon(nm), key))
        if depth == 0:
            self.global_consts = list(own)
        for nm in own:
            groups.append(('def', [self.mkdef(self.const_how(), self.sp(nm))]))
            if depth and rng.random() < 0.35:
                fwd_front.append(('decl', 'forward', [(self.sp(nm), None)]))
        if self.fault in ('double-equ', 'double-label') and not self.planted and own and rng.random() < 0.5:
            nm = rng.choice(own)
            how = 'label' if self.fault == 'double-label' else rng.choice(['equ', '=', 'labelstmt'])
            groups.append(('def', [self.mkdef(how, self.sp(nm))]))
            self.planted = True
        # exports
        pairs = []
        if depth:
            for _ in range(rng.choice([0, 1, 1, 2, 3]) if w['scope'] >= 0.5 else rng.choice([0, 0, 1])):
                p = self.export(path, key)
                if p:
                    pairs.append(p)
            if len(pairs) >= 2 and pairs[0][0][0][1] == pairs[1][0][0][1] and rng.random() < 0.5:
                # several symbols in one PUBLIC / GLOBAL statement
                (d1, f1), (d2, f2) = pairs[0], pairs[1]
                pairs[0:2] = [([('decl', d1[0][1], d1[0][2] + d2[0][2])], f1 + f2)]
            if self.fault == 'unresolved-public' and not self.planted and rng.random() < 0.6:
                nm = rng.choice(self.export_pool + self.const_pool)
                if (self.canon(nm), key) not in self.assigned:
                    groups.append(('x', [('decl', 'public', [(self.sp(nm), None)])]))
                    self.planted = True
            if self.fault == 'public-after-def' and not self.planted and own and rng.random() < 0.6:
                # "this statement has to appear before the symbol itself is defined": here it comes last in the section
                nm = rng.choice(own)
                fwd_front = [d for d in fwd_front if self.canon(d[2][0][0]) != self.canon(nm)]
                tail.append(('decl', 'public', [(self.sp(nm), None)]))
                self.planted = True
            if self.fault == 'conflict' and not self.planted and own and rng.random() < 0.6:
                nm = rng.choice(own)
                fwd_front = [d for d in fwd_front if self.canon(d[2][0][0]) != self.canon(nm)]
                a = ('decl', 'forward', [(self.sp(nm), None)])
                b = ('decl', 'public', [(self.sp(nm), None)])
                first, second = (a, b) if rng.random() < 0.5 else (b, a)
                # both before the definition: put them in front
                fwd_front += [first, second]
                self.planted = True
        # references
        nref = max(1, int(round(rng.choice([2, 3, 4, 5]) * w['refs'])))
        for _ in range(nref):
            groups.append(('ref', [self.refstmt(path)]))
        # blocks
        w.setdefault('sstack', w['stack'] * 0.5)
        w.setdefault('long', 0.12)
        for kind in ('temp', 'mut', 'macro', 'stack', 'sstack', 'long'):
            p = w[kind] * (0.6 if depth else 0.9)
            while p > 0 and rng.random() < min(p, 0.9):
                blk = getattr(self, 'block_' + kind)(path, key)
                if blk:
                    groups.append(('blk', blk))
                p -= 1.0
        # children
        if depth < 4:
            nchild = rng.choice([[1, 2, 2, 3], [0, 1, 1, 2], [0, 1, 1, 2], [0, 0, 1]][depth] if depth < 4 else [0])
            if self.nsec > 9:
                nchild = 0
            used = set(self.canon(n) for _, n in path)
            for _ in range(nchild):
                cands = [n for n in self.sect_pool if self.canon(n) not in used]
                if not cands:
                    break
                nm = rng.choice(cands)
                if rng.random() < 0.12:
                    # "a name may be used for a symbol and a section at the same time"
                    alt = rng.choice(self.const_pool)
                    if self.canon(alt) not in used:
                        nm = alt
                used.add(self.canon(nm))
                ckey = self.nsec
                self.nsec += 1
                if self.have_macros and rng.random() < 0.3 and (self.canon(nm), key) not in self.assigned:
                    self.assigned.add((self.canon(nm), key))        # entry label, PUBLIC name:PARENT
                    self.assigned.add((self.canon(nm), ckey))
                    self.known_names.append(nm)
                    inner = self.body(path + [(ckey, nm)], ckey, w)
                    groups.append(('sect', [('call', 'proc', [nm])] + inner + [('call', 'endp', [nm if self.cs else self.sp(nm)])]))
                    continue
                inner = self.body(path + [(ckey, nm)], ckey, w)
                end = rng.choice([None, self.sp(nm)])
                groups.append(('sect', [('section', nm if self.cs else self.sp(nm))] + inner + [('endsection', end)]))
        rng.shuffle(groups)
        # ordering constraints of declaration / definition pairs
        for first, second in pairs:
            a = ('p1', list(first))
            b = ('p2', list(second))
            i = rng.randrange(len(groups) + 1)
            groups.insert(i, a)
            j = rng.randrange(i + 1, len(groups) + 1)
            groups.insert(j, b)
        if len(fwd_front) > 1 and self.fault != 'conflict' and rng.random() < 0.5:
            # "It is possible to treat multiple symbols with one statement"
            fwd_front = [('decl', 'forward', [d[2][0] for d in fwd_front])]
        out = list(fwd_front)
        for tag, sts in groups:
            out += sts
        return out + tail

    def export(self, path, key):
        """PUBLIC / GLOBAL declaration and the matching definition; returns (first statements, second statements)"""
        rng = self.rng
        depth = len(path)
        dist = rng.randrange(1, depth + 1) if rng.random() < 0.9 else 0
        kind = rng.choice(['public', 'public', 'global'])
        if dist == 0 and kind == 'global':
            dist = 1
        tkey = -1 if dist == depth else path[depth - dist - 1][0]
        nm = rng.choice(self.export_pool + self.const_pool)
        c = self.canon(nm)
        if (c, key) in self.assigned:
            return None
        collide = False
        if kind == 'public':
            if (c, tkey) in self.assigned:
                if self.fault == 'export-collision' and not self.planted and dist > 0:
                    collide = True
                else:
                    return None
            self.assigned.add((c, tkey))
            # a second definition of that name in this section would be a local one: not generated
            self.assigned.add((c, key))
        else:
            parts = [n if self.cs else n.upper() for _, n in path[depth - dist:]]
            comp = '_'.join(parts) + '_' + c
            if (comp, tkey) in self.assigned:
                return None
            self.assigned.add((comp, tkey))
            self.assigned.add((c, key))
            self.known_names.append('_'.join(n for _, n in path[depth - dist:]) + '_' + nm)
        # how the target is written
        forms = ['PARENT%d' % dist]
        if dist == 1:
            forms.append('PARENT')
        if tkey == -1:
            forms.append(None)
        else:
            forms.append(path[depth - dist - 1][1])
        form = rng.choice(forms)
        if form is not None:
            if form.startswith('PARENT'):
                form = form if self.cs else self.sp(form.lower()) if rng.random() < 0.5 else form
            else:
                form = self.sp(form)
        decl = ('decl', kind, [(self.sp(nm), form)])
        how = self.const_how()
        if collide:
            self.planted = True
        return ([decl], [self.mkdef(how, self.sp(nm))])

    def refname(self):
        rng = self.rng
        r = rng.random()
        if r < 0.6:
            return rng.choice(self.const_pool)
        if r < 0.8:
            return rng.choice(self.export_pool)
        if r < 0.93 and self.known_names:
            return rng.choice(self.known_names)
        return rng.choice(self.var_pool)

    def refstmt(self, path, names=None):
        rng = self.rng
        depth = len(path)
        refs = []
        for _ in range(rng.randrange(1, 5)):
            nm = rng.choice(names) if names and rng.random() < 0.7 else self.refname()
            r = rng.random()
            if r < 0.45:
                q = None
            elif r < 0.55:
                q = ''
            elif r < 0.78:
                n = rng.randrange(0, depth + 1)
                if rng.random() < 0.04:
                    n = rng.randrange(depth + 1, 10)      # PARENT5..9 cannot exist in a tree of depth 4: must be refused
                q = self.kw_parent(n)
            elif r < 0.95 and path:
                q = self.sp(rng.choice(path)[1])
            else:
                q = self.sp(rng.choice(self.sect_pool))
            refs.append((self.sp(nm), q))
        return ('ref', refs)

    # -- blocks (straight-line code inside one section)
    def block_temp(self, path, key):
        rng = self.rng
        kind = rng.choice(['named', 'nameless', 'nameless', 'composed'])
        out = []
        if kind == 'named':
            # regions are delimited by definitions of non-temporary symbols; the same
            # non-temporary name may be defined again (a variable), which still opens a new region
            var = rng.choice(self.var_pool)
            names = rng.sample(TEMP_POOL, 2)
            for region in range(rng.randrange(2, 5)):
                b = rng.random()
                if b < 0.4:
                    out.append(('def', self.var_how(), self.sp(var), self.val()))
                elif b < 0.5 and self.have_macros:
                    out.append(('call', 'mdef', [self.freshname(), str(self.val())]))
                elif b < 0.8:
                    out.append(self.mkdef(rng.choice(['label', 'equ']), self.freshname()))
                else:
                    nm = rng.choice(self.const_pool)
                    if (self.canon(nm), key) in self.assigned:
                        out.append(self.mkdef('label', self.freshname()))
                    else:
                        self.assigned.add((self.canon(nm), key))
                        out.append(self.mkdef(self.const_how(), self.sp(nm)))
                items = []
                for t in names:
                    if rng.random() < 0.7:
                        items.append(('def', rng.choice(['label', 'label', 'equ']), '$$' + self.sp(t), None))
                for _ in range(rng.randrange(1, 4)):
                    items.append(('ref', [('$$' + self.sp(rng.choice(names)), None) for _ in range(rng.randrange(1, 3))]))
                rng.shuffle(items)
                for it in items:
                    if it[0] == 'def' and it[1] != 'label':
                        it = ('def', it[1], it[2], self.val())
                    out.append(it)
        elif kind == 'nameless':
            for _ in range(rng.randrange(4, 14)):
                r = rng.random()
                if r < 0.45:
                    out.append(('def', 'label', rng.choice(['-', '-', '+', '+', '/']), None))
                elif r < 0.9:
                    refs = []
                    for _ in range(rng.randrange(1, 4)):
                        refs.append((rng.choice(['-', '+']) * rng.randrange(1, 4), None))
                    out.append(('ref', refs))
                else:
                    out.append(('nop',))
        else:
            heads = []
            subs = rng.sample(TEMP_POOL, 2)
            for _ in range(rng.randrange(2, 4)):
                h = self.freshname('proc')
                heads.append(h)
                out.append(self.mkdef(rng.choice(['label', 'label', 'equ']), h))
                items = []
                for s in subs:
                    if rng.random() < 0.75:
                        how = rng.choice(['label', 'label', 'equ'])
                        items.append(('def', how, '.' + self.sp(s), None if how == 'label' else self.val()))
                for _ in range(rng.randrange(1, 4)):
                    refs = []
                    for _ in range(rng.randrange(1, 3)):
                        if rng.random() < 0.6:
                            refs.append(('.' + self.sp(rng.choice(subs)), None))
                        else:
                            refs.append((self.sp(rng.choice(heads)) + '.' + self.sp(rng.choice(subs)), None))
                    items.append(('ref', refs))
                rng.shuffle(items)
                out += items
            for h in heads:
                for s in subs:
                    if rng.random() < 0.3:
                        self.known_names.append(h + '.' + s)
        return out

    def block_mut(self, path, key):
        rng = self.rng
        out = []
        vs = rng.sample(self.var_pool, rng.randrange(1, 3))
        for _ in range(rng.randrange(3, 9)):
            r = rng.random()
            v = rng.choice(vs)
            if r < 0.1 and self.have_macros:
                out.append(('call', 'mset', [self.sp(v), str(self.val())]))
            elif r < 0.5:
                out.append(('def', self.var_how(), self.sp(v), self.val()))
            else:
                out.append(('ref', [(self.sp(rng.choice(vs)), None) for _ in range(rng.randrange(1, 3))]))
        if self.fault == 'const-to-var' and not self.planted:
            cands = [n for n in self.const_pool if (self.canon(n), key) not in self.assigned]
            if cands:
                nm = rng.choice(cands)
                self.assigned.add((self.canon(nm), key))
                out.append(self.mkdef(rng.choice(['equ', '=', 'label']), self.sp(nm)))
                out.append(('def', self.var_how(), self.sp(nm), self.val()))
                self.planted = True
        if self.fault == 'var-to-const' and not self.planted:
            v = rng.choice(vs)
            out.append(('def', self.var_how(), self.sp(v), self.val()))
            out.append(('def', rng.choice(['equ', '=']), self.sp(v), self.val()))
            self.planted = True
        return out

    def block_macro(self, path, key):
        rng = self.rng
        out = []
        if 'mloc' not in self.macros:
            return out
        for _ in range(rng.randrange(1, 4)):
            r = rng.random()
            if r < 0.2:
                # labels are local to the individual repetitions of REPT / IRP as well
                lab = rng.choice(self.const_pool)
                body = [('def', 'label', self.sp(lab), None), ('ref', [(self.sp(lab), None)])]
                if rng.random() < 0.5:
                    body.insert(0, ('ref', [(self.sp(lab), None)]))
                if rng.random() < 0.5:
                    out.append(('rept', rng.randrange(1, 4), None, False, body))
                else:
                    out.append(('irp', 'zq', ['u%d' % k for k in range(rng.randrange(1, 4))], False, body))
                out.append(('ref', [(self.sp(lab), None)]))
            elif r < 0.55:
                if not self.global_consts:
                    continue
                out.append(('call', 'mloc', [self.sp(rng.choice(self.global_consts))]))
            elif r < 0.8:
                nm = rng.choice(self.export_pool + self.const_pool)
                if (self.canon(nm), key) in self.assigned:
                    continue
                self.assigned.add((self.canon(nm), key))
                out.append(('call', 'mdef', [self.sp(nm), str(self.val())]))
            else:
                nm = self.freshname('glb')
                out.append(('call', 'mglb', [nm]))
                self.known_names.append(nm)
            if rng.random() < 0.6:
                out.append(('ref', [(self.sp(self.macros['mloc'][0]), None), (self.sp(self.macros['mloc'][1]), None)]))
        return out

    def refname_plain(self):
        return self.rng.choice(self.const_pool + self.export_pool)

    def block_long(self, path, key):
        """'Symbols are allowed to be up to 255 characters long ... and are being distinguished on the whole length':
        names that agree in all but the last character (a line must stay below 255 characters)"""
        rng = self.rng
        L = rng.choice([31, 32, 33, 63, 64, 65, 100, 127, 128, 129, 200, 230])
        stem = self.freshname('lng') + '_'
        alphabet = 'abcdefghijklmnopqrstuvwxyz0123456789_'
        while len(stem) < L - 1:
            stem += rng.choice(alphabet)
        names = [stem + c for c in rng.sample('abcxyz019', rng.randrange(2, 4))]
        out = []
        items = [self.mkdef(rng.choice(['equ', 'label', '=']), self.sp(n)) for n in names]
        for _ in range(rng.randrange(2, 5)):
            items.append(('ref', [(self.sp(rng.choice(names)), None)]))
        rng.shuffle(items)
        return items

    def strval(self):
        # two characters: the exported slot is as wide as a data word; every value is distinct
        self.nstr += 1
        a = 'ABCDEFGHJKLMNPQRSTUVWXYZabcdefghijkmnpqrstuvwxyz23456789'
        return ('s', a[(self.nstr // len(a)) % len(a)] + a[self.nstr % len(a)])

    def block_sstack(self, path, key):
        """PUSHV / POPV "save the value of a symbol": here symbols that hold strings"""
        rng = self.rng
        out = []
        vs = ['txt', 'msg', 'str'][:rng.randrange(2, 4)]
        if self.cs:
            vs = vs[:2] + ['Txt']
        for v in vs:
            out.append(('def', self.var_how(), self.sp(v), self.strval()))
        stack = rng.choice(['sst', 'sst', ''])
        depth = 0
        for _ in range(rng.randrange(3, 9)):
            r = rng.random()
            if r < 0.35:
                names = [rng.choice(vs) for _ in range(rng.randrange(1, 3))]
                out.append(('pushv', self.sp(stack), [self.sp(n) for n in names]))
                depth += len(names)
            elif r < 0.6 and depth:
                k = rng.randrange(1, min(2, depth) + 1)
                out.append(('popv', self.sp(stack), [self.sp(rng.choice(vs)) for _ in range(k)]))
                depth -= k
            elif r < 0.8:
                out.append(('def', self.var_how(), self.sp(rng.choice(vs)), self.strval()))
            else:
                out += [('sref', self.sp(v)) for v in vs]
        while depth:
            out.append(('popv', self.sp(stack), [self.sp(rng.choice(vs))]))
            depth -= 1
        out += [('sref', self.sp(v)) for v in vs]
        return out

    def block_stack(self, path, key):
        rng = self.rng
        out = []
        vs = rng.sample(self.var_pool, min(len(self.var_pool), rng.randrange(2, 4)))
        for v in vs:
            out.append(('def', self.var_how(), self.sp(v), self.val()))
        konst = None
        if rng.random() < 0.4:
            konst = self.freshname('kon')
            out.append(self.mkdef(rng.choice(['equ', 'label']), konst))
        stacks = rng.sample(STACK_POOL, rng.randrange(1, 3))
        depth = {s: 0 for s in stacks}
        for _ in range(rng.randrange(3, 10)):
            r = rng.random()
            s = rng.choice(stacks)
            if r < 0.35:
                names = [rng.choice(vs) for _ in range(rng.randrange(1, 4))]
                if konst and rng.random() < 0.25:
                    names[rng.randrange(len(names))] = konst     # saving the value of a constant is fine
                out.append(('pushv', self.sp(s), [self.sp(n) for n in names]))
                depth[s] += len(names)
            elif r < 0.6 and depth[s]:
                k = rng.randrange(1, min(3, depth[s]) + 1)
                out.append(('popv', self.sp(s), [self.sp(rng.choice(vs)) for _ in range(k)]))
                depth[s] -= k
            elif r < 0.8:
                out.append(('def', self.var_how(), self.sp(rng.choice(vs)), self.val()))
            else:
                out.append(('ref', [(self.sp(v), None) for v in vs]))
        for s in stacks:
            while depth[s]:
                k = min(depth[s], rng.randrange(1, 4))
                out.append(('popv', self.sp(s), [self.sp(rng.choice(vs)) for _ in range(k)]))
                depth[s] -= k
                out.append(('ref', [(self.sp(v), None) for v in vs]))
        if self.fault == 'popv-empty' and not self.planted:
            out.append(('popv', self.sp(rng.choice(stacks)), [self.sp(rng.choice(vs))]))
            self.planted = True
        return out


# ---------------------------------------------------------------------------
# rendering

def render(prog, cpu):
    info = CPUS[cpu]
    L = ['\tcpu\t%s' % cpu, '\torg\t%d' % ORG]
    lines = []

    def qref(name, qual):
        return name if qual is None else '%s[%s]' % (name, qual)

    def one(st, out):
        op = st[0]
        if op == 'nop':
            out.append('\tnop')
        elif op == 'section':
            out.append('\tsection\t%s' % st[1])
        elif op == 'endsection':
            out.append('\tendsection' + ('\t%s' % st[1] if st[1] else ''))
        elif op == 'def':
            _, how, name, value = st
            if how == 'label':
                out.append('%s\tnop' % name if name in ('+', '-', '/') else '%s:\tnop' % name)
            elif how == 'labelstmt':
                out.append('%s\tlabel\t%s' % (name, info['pcsym'] if value == 'PC' else value))
            else:
                out.append('%s\t%s\t%s' % (name, how, '"%s"' % value[1] if isinstance(value, tuple) else value))
        elif op == 'sref':
            out.append('\t%s\t%s' % (info['byte'], st[1]))
        elif op == 'ref':
            out.append('\t%s\t%s' % (info['word'], ','.join(qref(n, q) for n, q in st[1])))
        elif op == 'decl':
            out.append('\t%s\t%s' % (st[1], ','.join(n if t is None else '%s:%s' % (n, t) for n, t in st[2])))
        elif op in ('pushv', 'popv'):
            out.append('\t%s\t%s,%s' % (op, st[1], ','.join(st[2])))
        elif op == 'macro':
            pars = list(st[2]) + (['{GLOBALSYMBOLS}'] if st[3] else [])
            out.append('%s\tmacro\t%s' % (st[1], ','.join(pars)))
            for b in st[4]:
                one(b, out)
            out.append('\tendm')
        elif op == 'call':
            out.append('\t%s\t%s' % (st[1], ','.join(st[2])))
        elif op in ('rept', 'irp', 'irpc'):
            if op == 'rept':
                arg = str(st[1])
            elif op == 'irp':
                arg = ','.join([st[1]] + list(st[2]))
            else:
                arg = '%s,"%s"' % (st[1], st[2])
            out.append('\t%s\t%s%s' % (op, arg, ',{GLOBALSYMBOLS}' if st[3] else ''))
            for b in st[4]:
                one(b, out)
            out.append('\tendm')
        else:
            raise ValueError(op)

    for st in prog:
        lines.append(len(L) + 1)
        one(st, L)
    return '\n'.join(L) + '\n', lines


def stmt_kind(st):
    if st is None:
        return 'none'
    if st[0] == 'def' and not isinstance(st[3], tuple):
        return 'def-%s-%s' % ('const' if st[1] in scope.CONST_HOW else 'var', scope.name_class(st[2]))
    if st[0] == 'decl':
        return st[1]
    if st[0] == 'def' and isinstance(st[3], tuple):
        return 'def-string-variable'
    if st[0] == 'ref':
        def rc(n):
            c = scope.name_class(n)
            if c == 'nameless-def':
                c = 'nameless-back' if n == '-' else 'nameless-fwd'
            return c
        return 'ref-' + '+'.join(sorted(set(rc(n) + ('' if q is None else '-qualified') for n, q in st[1])))
    return st[0]


# ---------------------------------------------------------------------------
# generate + let the model prune what the manual does not define

def evaluate(prog, lines, cs, cpu):
    m = scope.Model(prog, lines, case_sensitive=cs, org=ORG, nopsize=CPUS[cpu]['nopsize'], wordsize=2)
    return m.run()


def prune(prog, res, keep):
    """drop references according to `keep(verdict, refslot)`; statements are rebuilt, empty reference statements vanish"""
    drop = {}
    for r in res.refs:
        if not keep(r):
            drop.setdefault(id(r.stmt), set()).add(r.idx)

    def walk(sts):
        out = []
        for st in sts:
            if st[0] == 'sref' and id(st) in drop:
                continue
            if st[0] == 'ref' and id(st) in drop:
                refs = [x for i, x in enumerate(st[1]) if i not in drop[id(st)]]
                if refs:
                    out.append(('ref', refs))
                continue
            if st[0] == 'macro':
                out.append(st)       # bodies are kept: a reference in a body has one verdict per expansion
                continue
            out.append(st)
        return out
    return walk(prog)


def make_xshadow(rng, case):
    """see plan_xshadow(); returns the same tuple as make_program()"""
    cs, cpu = case['cs'], case['cpu']
    g = Gen(rng, cs, cpu, 'scope', None)
    lab = rng.choice(g.const_pool)
    lab2 = rng.choice([x for x in g.const_pool if g.canon(x) != g.canon(lab)])
    # the body: reference first, label afterwards
    body = [('ref', [(g.sp(lab), None)])]
    if rng.random() < 0.5:
        body.append(('nop',))
    body.append(('def', 'label', g.sp(lab), None))
    body.append(('ref', [(g.sp(lab), None)]))
    two = rng.random() < 0.4
    if two:
        body.insert(rng.randrange(len(body)), ('ref', [(g.sp(lab2), None), (g.sp(lab), None)]))
        body.append(('def', 'label', g.sp(lab2), None))
    kind = case['x']
    reps = rng.choice([1, 2, 2, 3])
    prog = []
    if kind == 'macro':
        prog.append(('macro', 'mx', [], False, body))
        expansion = [('call', 'mx', []) for _ in range(reps)]
        if rng.random() < 0.5 and reps > 1:
            expansion.insert(1, ('ref', [(g.sp(lab), None)]))
    elif kind == 'rept':
        expansion = [('rept', reps, None, False, body)]
    elif kind == 'irp':
        expansion = [('irp', 'zq', ['u%d' % k for k in range(reps)], False, body)]
    elif kind == 'irpc':
        expansion = [('irpc', 'zq', 'xyz'[:reps], False, body)]
    else:
        expansion = [st if st[0] != 'def' else g.mkdef(rng.choice(['label', 'equ', '=']), st[2]) for st in body]
    if case['extra']:
        # something else that needs a second pass
        prog.append(('ref', [('fwdx', None)]))
    depth = case['depth']
    names = rng.sample([n for n in g.sect_pool if g.canon(n) not in (g.canon(lab), g.canon(lab2))], 3)
    for lvl in range(depth + 1):
        if lvl:
            prog.append(('section', names[lvl - 1]))
        if case['mask'] >> lvl & 1:
            how = rng.choice(['equ', '=', 'label', 'labelstmt', g.var_how()])
            prog.append(g.mkdef(how, g.sp(lab)) if how in scope.CONST_HOW else ('def', how, g.sp(lab), g.val()))
            if rng.random() < 0.5:
                prog.append(('ref', [(g.sp(lab), None)]))
        if (rng.random() < 0.3 or (two and lvl == 0 and case['mask'])) and not (kind == 'sect' and lvl == depth):
            # (with a second label in the body, an outer symbol of that name keeps pass 1 free of unknowns)
            prog.append(g.mkdef('equ', g.sp(lab2)))
        if rng.random() < 0.3:
            prog.append(('nop',))
    prog += expansion
    prog.append(('ref', [(g.sp(lab), None), (g.sp(lab2), None)]))
    for lvl in range(depth, 0, -1):
        prog.append(('endsection', rng.choice([None, g.sp(names[lvl - 1])])))
        prog.append(('ref', [(g.sp(lab), None)]))
    if case['extra']:
        prog.append(('def', 'equ', 'fwdx', g.val()))
    text, lines = render(prog, cpu)
    res = evaluate(prog, lines, cs, cpu)
    if any(r.exp is not None and r.verdict != 'val' for r in res.refs):
        raise RuntimeError('xshadow: body reference not defined')
    prog = prune(prog, res, lambda r: r.exp is not None or r.verdict == 'val')
    text, lines = render(prog, cpu)
    res = evaluate(prog, lines, cs, cpu)
    if res.errors or any(r.verdict != 'val' for r in res.refs):
        raise RuntimeError('xshadow: program not defined')
    return prog, text, lines, res, None, not case['extra'] and all(r.p1 for r in res.refs)


def make_program(rng, case):
    """returns (prog, text, lines, res, fault or None) ; fault is dropped when it could not be planted"""
    cs, cpu, focus = case['cs'], case['cpu'], case['focus']
    fault = case.get('fault')
    last = None
    for attempt in range(16):
        # a fault that cannot be planted, or a program that cannot be made single-pass, is given up after some tries
        f = fault if attempt < 6 else None
        single = bool(case.get('single')) and not fault and attempt < 8
        if attempt >= 12:
            focus = 'scope'
        g = Gen(rng, cs, cpu, focus, f)
        prog = g.program()
        try:
            text, lines = render(prog, cpu)
            res = evaluate(prog, lines, cs, cpu)
        except scope.Unspecified as e:
            last = str(e)
            continue
        # references inside macro bodies cannot be pruned per expansion: such a program is only used when all of them are defined
        if any(r.exp is not None and (r.verdict != 'val' or (single and not r.p1)) for r in res.refs):
            last = 'macro body reference not defined'
            continue
        kept_fault = {'n': 0}

        def keep(r):
            if r.exp is not None:
                return True
            if r.verdict == 'val':
                # single-pass programs: nothing may ask for a second pass, i.e. every reference finds
                # *some* definition in pass 1 (possibly one that a later, more local definition hides)
                return r.p1 or not single
            wanted = ((f == 'undef' and r.verdict == 'undef' and (r.kind in ('plain', 'qual-name', 'qual-global') or r.kind.startswith('qual-PARENT')))
                      or (f == 'undef-temp' and r.verdict == 'undef' and r.kind in ('named-temp', 'composed'))
                      or (f == 'badsect' and r.verdict == 'badsect'))
            if wanted:
                if kept_fault['n'] < 2:
                    kept_fault['n'] += 1
                    return True
            return False
        prog2 = prune(prog, res, keep)
        try:
            text, lines = render(prog2, cpu)
            res = evaluate(prog2, lines, cs, cpu)
        except scope.Unspecified as e:
            last = str(e)
            continue
        if any(r.verdict == 'unspec' for r in res.refs):
            last = 'unspecified reference survived pruning'
            continue
        nums = set(n for _, n, _ in res.errors)
        if f is None:
            if res.errors:
                last = 'unplanned errors %s' % sorted(nums)
                continue
            return prog2, text, lines, res, None, single
        if nums and nums <= FAULT_NUMS[f] and len(set(p for _, _, p in res.errors)) == 1:
            return prog2, text, lines, res, f, False
        last = 'fault %s not planted (%s)' % (f, sorted(nums))
    raise RuntimeError('generator could not produce a defined program: %s' % last)


# ---------------------------------------------------------------------------
# the monitor

_POS_RE = re.compile(r'\((\d+)\)')


def show(v):
    return repr(v[1]) if isinstance(v, tuple) else '$%04x' % v


def read_words(recs, be):
    img = pfile.image(recs)
    if not img:
        return {}
    if len(img) != 1:
        return None
    return list(img.values())[0]


def run_case(case, ctx):
    if 'regvar' in case:
        return run_regvar(case, ctx)
    out = ctx.out
    rng = ctx.rng
    cs, cpu = case['cs'], case['cpu']
    info = CPUS[cpu]
    try:
        prog, text, lines, res, fault, single = (make_xshadow if 'x' in case else make_program)(rng, case)
    except (RuntimeError, scope.Unspecified) as e:
        out.inconc('generator: %s' % e)
        return
    ctx.write('g.asm', text)
    args = ['-U'] if cs else []
    a = asl.assemble(ctx, 'g.asm', args, trace=True)
    mode = 'U' if cs else 'ci'
    out.sample = {'cpu': cpu, 'case_sensitive': cs, 'focus': case['focus'], 'fault': fault, 'single_pass_program': single, 'sections': res.nsections, 'depth': res.maxdepth,
                  'references': len(res.refs), 'source_head': text.split('\n')[:14]}
    tag = 'generated #%d (%s%s)' % (ctx.idx, cpu, ' -U' if cs else '')
    if a.run.timed_out:
        out.inconc('timeout')
        return
    if a.run.san:
        out.violate(a.run.san, '%s: %s' % (tag, a.run.err.decode('latin-1')[-800:]))
        return
    trace = a.trace or []
    passes = max([int(e['pass']) for e in trace if e['k'] == 'P'] or [0])
    if passes == 0:
        out.inconc('harness: no pass event in the hook trace')
        return
    line2stmt = {}
    for st, ln in zip(prog, lines):
        line2stmt[ln] = st
    diags = []
    for e in trace:
        if e['k'] == 'D' and e.get('class') in ('E', 'F'):
            m = _POS_RE.search(e.get('pos', ''))
            diags.append((int(m.group(1)) if m else None, int(e['num']), int(e['pass'])))
    out.sets['cpu'].add(cpu)
    out.sets['mode'].add(mode)
    out.sets['passes'].add(str(min(passes, 4)))
    out.obs['programs'] += 1
    out.obs['sections_generated'] += res.nsections
    out.sets['section_depths'].add(str(res.maxdepth))
    pclass = 'single-pass' if passes == 1 else 'multi-pass'
    if case.get('fault') and fault is None:
        out.obs['fault_requested_but_not_plantable'] += 1
    if single:
        out.obs['programs_without_pass1_unknowns'] += 1

    def rejected(ln, num):
        k = stmt_kind(line2stmt.get(ln))
        out.violate('rejected:%s@%s' % (num, k),
                    '%s: a statement inside the documented rules was refused: error %s at line %s (%s), status %s, %d pass(es)\n%s\n%s'
                    % (tag, num, ln, k, a.rc, passes, a.run.text()[-600:], text))

    # ---- planted fault: must be refused with the documented number on its line
    if fault is not None:
        out.obs['fault_programs'] += 1
        pas = res.errors[0][2]
        # a statement with several offending operands may report only the first one: compared per line
        want = sorted(set((ln, num) for ln, num, _ in res.errors))
        sel = 1 if pas == 'p1' else passes
        got = sorted(set((ln, num) for ln, num, p in diags if p == sel))
        extra = [x for x in diags if (x[0], x[1]) not in want]
        if extra:
            # an error the rules do not call for: same kind of failure as in a program without planted fault
            rejected(extra[0][0], extra[0][1])
            return
        if a.rc == 0:
            kinds = sorted(set(stmt_kind(line2stmt.get(ln)) for ln, _ in want))
            out.violate('fault:%s:accepted' % fault,
                        '%s: the program breaks a documented rule (expected error(s) %s at line(s) %s, statement kind %s) but was assembled with status 0 in %d pass(es)\n%s'
                        % (tag, sorted(set(n for _, n in want)), [l for l, _ in want], kinds, passes, text))
            return
        if got != want:
            missing = [x for x in want if x not in got]
            kinds = sorted(set(stmt_kind(line2stmt.get(ln)) for ln, _ in missing))
            out.violate('fault:%s:not-diagnosed:%s' % (fault, '+'.join(str(n) for n in sorted(set(n for _, n in missing)))),
                        '%s: expected diagnostics (line, number) %s in pass %d, observed %s (status %s); missing %s (%s)\n%s'
                        % (tag, want, sel, got, a.rc, missing, kinds, text))
            return
        if a.rc != 2:
            out.violate('fault:%s:status-%s' % (fault, a.rc), '%s: errors were reported but the exit status is %s' % (tag, a.rc))
            return
        out.obs['faults_diagnosed'] += 1
        out.nontrivial = True
        for ln, num in want:
            out.sets['error_numbers_confirmed'].add(str(num))
            out.sigs.add('fault|%s|%d|%s|%s' % (fault, num, stmt_kind(line2stmt.get(ln)), mode))
        return

    # ---- valid program
    if a.rc != 0 or a.p is None:
        last = [d for d in diags if d[2] == passes] or diags
        if last:
            rejected(last[0][0], last[0][1])
        else:
            out.violate('rejected:no-diagnostic', '%s: status %s without a diagnostic event\n%s\n%s' % (tag, a.rc, a.run.text()[-600:], text))
        return
    try:
        recs = pfile.parse(a.p)
    except pfile.FormatError as e:
        out.inconc('harness: code file unreadable: %s' % e)
        return
    img = read_words(recs, info['be'])
    if img is None:
        out.inconc('harness: more than one address space in the code file')
        return
    seen_keys = set()
    for r in res.refs:
        b0, b1 = img.get(r.pc), img.get(r.pc + 1)
        if b0 is None or b1 is None:
            key = 'image:reference-word-missing'
            if key not in seen_keys:
                seen_keys.add(key)
                out.violate(key, '%s: no data word at %04x for reference %r of line %d\n%s' % (tag, r.pc, r.name, r.line, text))
            continue
        if r.is_str:
            got = ('s', chr(b0) + chr(b1))
        else:
            got = (b0 << 8 | b1) if info['be'] else (b1 << 8 | b0)
        out.obs['references_compared'] += 1
        out.obs['refs_' + r.kind.replace('-', '_')] += 1
        out.sets['reference_kinds'].add(r.kind)
        if r.qual is not None:
            out.sets['qualifier_forms'].add(r.kind)
        if len(r.name) > 30:
            out.sets['long_symbol_name_lengths'].add(str(len(r.name)))
        via = r.sym.via or ('macro' if r.sym.scope else 'direct')
        dist = 0
        s = r.sect
        while s is not None and s is not r.sym.sect:
            s = s.parent
            dist += 1
        out.sigs.add('%s|%s|d%d|up%d|%s|%s|%s' % (r.kind, r.when, r.sect.depth, dist, via, 'var' if r.sym.var else r.sym.how, mode))
        if r.when == 'before-def' and 'outer-definition' in r.alts.values() and r.p1:
            # the first pass sees the outer symbol, the later local definition must replace it
            out.obs['refs_outer_found_in_pass1_then_hidden_by_later_local'] += 1
        if r.fwd_pending:
            out.obs['refs_under_pending_FORWARD'] += 1
        if r.kind == 'macro-local' and r.when == 'before-def':
            out.sets['expansion_label_forward_refs'].add('%s|depth%d|outer-levels%d|%s' % (
                case.get('x', 'macro'), r.sect.depth,
                sum(1 for s2 in r.sect.chain() if (r.sym.iname, s2.id) in res.tablekeys), pclass))
        if r.sym.via:
            out.sets['export_routes'].add('%s-to-depth-%d' % (r.sym.via, r.sym.sect.depth))
        if got != r.value:
            rel = r.alts.get(got, 'unknown-value')
            if rel == 'unknown-value' and not r.is_str and r.sym.how != 'label' and ORG <= got < res.end_pc + 2:
                rel = 'some-address'
            key = 'ref:%s:%s:got-%s:%s' % (r.kind, r.when, rel, pclass)
            if key not in seen_keys:
                seen_keys.add(key)
                out.violate(key, '%s: line %d reference %r%s in section %r (depth %d): the manual binds it to the definition of line %d in section %r '
                                 '(value %s), the code file carries %s (%s); %d pass(es)\n%s'
                            % (tag, r.line, r.name, '' if r.qual is None else '[%s]' % r.qual, r.sect.spelled, r.sect.depth, r.sym.line,
                               r.sym.sect.spelled, show(r.value), show(got), rel, passes, text))
    # nothing but the modelled statements may have produced code
    top = max(img) + 1 if img else ORG
    if top != res.end_pc or (img and min(img) != ORG):
        out.violate('image:extent-differs', '%s: code occupies %04x..%04x, the program describes %04x..%04x\n%s'
                    % (tag, min(img) if img else ORG, top, ORG, res.end_pc, text))
    # ---- neutral witness: final symbol table
    have = {}
    for e in trace:
        if e['k'] == 'S' and e['typ'] == 'I':
            have.setdefault((e['name'], e['sectname']), []).append(int(e['val'], 16))
    vocab = set()
    for name, sect, val in res.symtab:
        vocab.add(name)
        lst = have.get((name, sect))
        out.obs['symtab_entries_compared'] += 1
        if lst is None:
            key = 'symtab:symbol-not-in-its-section'
            if key not in seen_keys:
                seen_keys.add(key)
                other = sorted(s for (n, s) in have if n == name)
                out.violate(key, '%s: the manual assigns %s to section %r; the final symbol table has it in %s\n%s' % (tag, name, sect, other, text))
        elif val not in lst:
            key = 'symtab:final-value-differs'
            if key not in seen_keys:
                seen_keys.add(key)
                out.violate(key, '%s: final value of %s[%s] expected $%x, symbol table says %s\n%s' % (tag, name, sect, val, [hex(v) for v in lst], text))
    want_pairs = {}
    for name, sect, val in res.symtab:
        want_pairs[(name, sect)] = want_pairs.get((name, sect), 0) + 1
    for (name, sect), lst in have.items():
        if name in vocab and len(lst) > want_pairs.get((name, sect), 0):
            key = 'symtab:symbol-in-unexpected-section'
            if key not in seen_keys:
                seen_keys.add(key)
                out.violate(key, '%s: the final symbol table holds %s in section %r %d time(s), the manual puts it there %d time(s)\n%s'
                            % (tag, name, sect, len(lst), want_pairs.get((name, sect), 0), text))
    out.nontrivial = bool(res.refs)
    out.sig = None
