"""C14 — machine instructions encode as the target's instruction set defines.

Oracle: reference encoders written from the manufacturers' instruction-set
definitions (vf/model/isa_*.py: one table mnemonic x operand form -> encoder
per ISA; never derived from the AS sources).  A case takes a slice of one
CPU's form table, generates operand sets for every form (0, both field
limits, limits+-1, byte-boundary values, random interior values; every
register / condition of an enumerated operand; branch targets at every
distance limit-2..limit on both sides, same-page targets at both page ends
and with the instruction in the last units of a page) and assembles

  * one file of legal lines: every line must emit exactly the reference
    bytes at the reference address (per-line association through the
    emission events of hook H3) without any error; the whole image is then
    compared with the code file read by the independent reader;
  * one file of illegal lines (one operand one step outside its encodable
    range, a branch at limit+1 / limit+2, a register or combination the
    instruction set does not have): every such line must raise an error
    diagnostic at its own line (hook H4); the run must end with status 2 and
    must not leave a code file.  Lines that were accepted are assembled once
    more among themselves (a name taken for a forward reference is only
    reported in pass 2, which does not happen when pass 1 had errors) before
    they are called accepted.

PC-relative fields are computed by the model from the *target address* that
was written in the source (absolute number or PC-relative expression), so an
encoding that does not decode back to the referenced address differs from the
model.

Violation keys: <family>:<form template>:<kind>[:<field>:<operand class>],
kind in wrong-encoding, wrong-length, legal-form-rejected, no-code-emitted,
out-of-range-accepted, out-of-range-silently-dropped; crashes keep the
sanitizer key of the framework.
"""
import importlib
import re

from .. import asl, pfile
from ..model import isa_common

ID = 'C14'
LEVEL = 'exploration'
REGISTERED = True

ISA_MODULES = ('isa_6502', 'isa_8080', 'isa_z80', 'isa_4004', 'isa_pic16', 'isa_msp430', 'isa_avr')

RULE = ('case = slice of one CPU\'s instruction-form table (mnemonic x addressing mode x register; 18 CPU variants of 7 families, ~4100 forms, ~2050 distinct) x operand sets per form '
        '(0, limits, limits+-1, byte-boundary values, 3 (quick) / 40 (thorough) random interior sets, every enumerated register/condition, full cross product of the '
        'enumerated operands up to 1100 combinations in thorough; branch distances limit-2..limit+2 on both sides, same-page targets at both page ends); '
        'legal and out-of-range lines are assembled in separate files; distinct = distinct (cpu, form, operand class per field); '
        'non-trivial = the line reached a verdict (bytes compared with the reference, or rejection observed)')
ASSUMPTIONS = ['the reference tables in vf/model/isa_*.py transcribe the manufacturers\' opcode tables correctly (cross-checked against the golden images of t_65, t_85, t_z80syntax, t_z180io, t_msp, t_16c84, t_avr, t_4004 during development)',
               'an address 0..255 selects the zero-page/direct form where the ISA has one (AS manual: short addressing is chosen automatically)',
               'an n-bit immediate is encodable from -2^(n-1) to 2^n-1 (signed and unsigned reading); only values outside both readings are demanded to be rejected',
               'a rejected line is one with an error diagnostic at its line, status 2 and no code file; bytes a code generator still passes to the output stage after its own error (MSP430 back end) are recorded, not judged',
               'hook H3 attributes emitted bytes to the source line being assembled, hook H4 diagnostics to the line they are reported for']
MANIFEST = dict(
    category='exploration', design_ref='DESIGN.md §4 C14',
    technique='reference-model monitor: independent per-ISA encoders (tables written from the manufacturers\' instruction-set definitions) judge every emitted line (hook H3 line<->bytes association, code file read by the independent reader) and every rejected line (hook H4)',
    text='Held on the executions of this run: for every form of the reference tables (6502/65SC02/65C02/W65C02S, 8080/8085 in Intel and Zilog syntax, Z80/Z180, 4004/4040, PIC16C84, MSP430 core + emulated, '
         'AVR AT90S8515/ATmega8/ATmega16/ATmega2560), operands at 0, both limits, limits+-1 and random interior values, every register, and branches at every '
         'distance within 2 of both displacement limits, the assembler emitted exactly the reference bytes at the reference address, and every operand one step outside the encodable range '
         'was rejected with an error at its line (status 2, no code file).',
    note='Trusts the reference tables (documented instruction sets only; no undocumented opcodes, no convenience forms beyond those tabulated) and hooks H3/H4 for the line association. '
         'Operand spellings on which the manual is silent are not generated (negative addresses, JMP ($xxFF) on the 6502, R3 and 0(Rn) sources on the MSP430, TRIS 7 on the 16C84, '
         'cross-page GOTO/CALL on the PIC, RST operands that are not restart addresses ...); each such restriction is commented in the ISA module.')

_ISAS = None


def isas():
    global _ISAS
    if _ISAS is None:
        _ISAS = {}
        for name in ISA_MODULES:
            m = importlib.import_module('vf.model.' + name)
            for cpu in m.CPUS:
                _ISAS[cpu] = m
    return _ISAS


_FORMS = {}


def forms_of(cpu):
    if cpu not in _FORMS:
        _FORMS[cpu] = isas()[cpu].forms(cpu)
    return _FORMS[cpu]


def plan(tier, seed):
    cases = []
    quick = tier == 'quick'
    for cpu, m in isas().items():
        n = len(forms_of(cpu))
        per = getattr(m, 'SLICE', 40) if quick else getattr(m, 'SLICE_THOROUGH', 10)
        for lo in range(0, n, per):
            cases.append({'cpu': cpu, 'lo': lo, 'hi': min(n, lo + per), 'nrand': 3 if quick else 40,
                          'xlimit': 0 if quick else 1100})
    return cases


_POS_RE = re.compile(r'^([^()\s]+)\((\d+)\)\s*$')


def collect(trace, fname):
    """final-pass emission chunks and diagnostics per source line"""
    last = 0
    for e in trace:
        if 'pass' in e:
            last = max(last, int(e['pass']))
    em = {}
    di = {}
    for e in trace:
        if 'pass' not in e or int(e['pass']) != last:
            continue
        if e['k'] == 'E':
            em.setdefault(int(e['line']), []).append((int(e['addr'], 16), int(e['gran']), bytes.fromhex(e['hex']), int(e['seg'])))
        elif e['k'] == 'D':
            m = _POS_RE.match(e['pos'])
            ln = int(m.group(2)) if m else -1
            di.setdefault(ln, []).append((e['class'], int(e['num'])))
    return em, di, last


def norm_tmpl(t):
    return re.sub(r'\s+', ' ', t)


def assemble(ctx, isa, cpu, tag, lines):
    """place and assemble `lines`; -> (Asm, {source line number: Line}) or (None, reason)"""
    syms = {}
    isa_common.place(lines, isa, ctx.rng, space=getattr(isa, 'SPACE_OF', {}).get(cpu), syms=syms)
    src = list(isa.prologue(cpu)) if hasattr(isa, 'prologue') else ['\tcpu\t%s' % cpu]
    for v, name in syms.items():
        src.append('%s\tequ\t%d' % (name, v))
    src.append('\torg\t%d' % isa.ORG)
    lineno = {}
    for ln in lines:
        if ln.org is not None or (ln.err is not None and any(fl.kind == 'rel' for fl in ln.form.fields)):
            # out-of-range branches get their address pinned: a neighbour that is wrongly accepted must not move them
            src.append('\torg\t%d' % ln.pc)
        src.append('\t' + ln.text.replace(' ', '\t', 1))
        lineno[len(src)] = ln
    name = '%s.asm' % tag
    ctx.write(name, '\n'.join(src) + '\n')
    a = asl.assemble(ctx, name, [], out=tag + '.p', trace=True, timeout=120)
    return a, lineno


def run_case(case, ctx):
    out = ctx.out
    rng = ctx.rng
    cpu = case['cpu']
    isa = isas()[cpu]
    forms = forms_of(cpu)[case['lo']:case['hi']]
    valid, errs = [], []
    for f in forms:
        v, e = isa_common.operand_sets(f, rng, case['nrand'], case.get('xlimit', 0))
        valid += v
        errs += e
    rng.shuffle(valid)
    rng.shuffle(errs)
    out.sample = {'cpu': cpu, 'forms': [f.tmpl for f in forms[:6]], 'nforms': len(forms), 'legal_lines': len(valid), 'illegal_lines': len(errs)}
    out.sets['cpus'].add(cpu)
    fam = isa.family(cpu) if hasattr(isa, 'family') else isa.NAME
    out.sets['forms_seen'].update('%s|%s' % (fam, norm_tmpl(f.fid)) for f in forms)

    def sig(ln):
        return '%s|%s|%s' % (cpu, norm_tmpl(ln.form.fid), ','.join(ln.classes))

    # ------------------------------------------------------------------ legal lines
    if valid:
        a, lineno = assemble(ctx, isa, cpu, 'legal', valid)
        if a.run.timed_out:
            out.inconc('timeout')
        elif a.run.san:
            out.violate(a.run.san, '%s legal file: %s' % (cpu, a.run.err.decode('latin-1')[-800:]))
        elif not a.trace:
            out.inconc('harness: no trace')
        else:
            em, di, npass = collect(a.trace, 'legal.asm')
            bad_lines = 0
            delta = 0          # bytes by which the assembler's location counter is off the model's
            for no, ln in lineno.items():
                t = norm_tmpl(ln.form.fid)
                chunks = em.get(no, [])
                diags = di.get(no, [])
                nerr = [d for d in diags if d[0] in ('E', 'F')]
                got = b''.join(c[2] for c in chunks)
                where = '%s line %d `%s`' % (cpu, no, ln.text)
                exp = isa_common.units_to_bytes(ln.exp, isa.UNIT)
                for cl, num in diags:
                    out.sets['diagnostics_on_legal_lines'].add('%s%d' % (cl, num))
                if ln.org is not None:
                    delta = 0          # an ORG statement re-synchronises assembler and model
                this_delta = delta
                delta += len(got) - len(exp)
                if this_delta:
                    # an earlier line of this file was rejected or had the wrong length (already reported), so this
                    # line sits at another address than the model assumed: PC-dependent encodings cannot be judged
                    vv = [isa_common.val_of(fl.target(v, ln.pc) if fl.kind == 'rel' else v) for fl, v in zip(ln.form.fields, ln.vals)]
                    if any(fl.kind == 'rel' for fl in ln.form.fields) or list(ln.form.enc(vv, ln.pc)) != list(ln.form.enc(vv, ln.pc + 2 * isa.UNIT)):
                        out.obs['lines_not_judged_after_length_mismatch'] += 1
                        continue
                if nerr:
                    out.violate('%s:%s:legal-form-rejected' % (fam, t),
                                '%s (operand classes %s) is rejected with error %s; the instruction set encodes it as %s' % (where, ln.classes, nerr, exp.hex()))
                    bad_lines += 1
                elif not chunks:
                    out.violate('%s:%s:no-code-emitted' % (fam, t), '%s emitted nothing and raised no error; expected %s' % (where, exp.hex()))
                    bad_lines += 1
                elif got != exp:
                    kind = 'wrong-encoding' if len(got) == len(exp) else 'wrong-length'
                    out.violate('%s:%s:%s' % (fam, t, kind),
                                '%s (operand classes %s, address %#x): assembler emitted %s, the instruction set prescribes %s' % (where, ln.classes, ln.pc, got.hex(), exp.hex()))
                    bad_lines += 1
                elif chunks[0][0] != ln.pc and this_delta == 0:
                    out.violate('%s:address-bookkeeping' % fam, '%s emitted at %#x, model address %#x' % (where, chunks[0][0], ln.pc))
                    bad_lines += 1
                else:
                    out.obs['legal_lines_matching'] += 1
                    out.obs['bytes_compared'] += len(exp)
                    out.sigs.add(sig(ln))
                    if any(fl.kind == 'rel' for fl in ln.form.fields):
                        out.obs['branch_fields_decoded'] += 1
                if any(d[0] == 'W' for d in diags):
                    out.obs['warnings_on_legal_lines'] += 1
            out.obs['lines_judged'] += len(lineno)
            if bad_lines == 0:
                if a.rc != 0 or a.p is None:
                    out.violate('%s:legal-file-fails' % fam, '%s: every line matched but status is %s / code file %s: %s'
                                % (cpu, a.rc, 'present' if a.p else 'missing', a.run.text()[-300:]))
                else:
                    recs = None
                    try:
                        recs = pfile.parse(a.p, strict=True)
                    except pfile.FormatError as e:
                        out.violate('malformed-code-file', '%s: %s' % (cpu, e))
                    if recs is not None:
                        img = {}
                        for (h, seg), m in pfile.image(recs).items():
                            if seg == 1:
                                img.update(m)
                        want = {}
                        for ln in valid:
                            b = isa_common.units_to_bytes(ln.exp, isa.UNIT)
                            for i, x in enumerate(b):
                                want[ln.pc * isa.UNIT + i] = x
                        if img != want:
                            diff = sorted(k for k in set(img) | set(want) if img.get(k) != want.get(k))[:5]
                            out.violate('%s:code-file-differs-from-model' % fam, '%s: code file differs from the reference image at byte addresses %s'
                                        % (cpu, [hex(d) for d in diff]))
                        else:
                            out.obs['code_files_matching'] += 1
                            out.sets['record_headers'].update('%02x' % r.cpu for r in recs if r.kind == 'data')

    # ------------------------------------------------------------------ illegal lines
    # A line that was assembled without complaint is assembled again together with the other
    # unresolved ones only: a name the assembler takes for a forward reference in pass 1 is
    # reported in pass 2, and there is no pass 2 when pass 1 already found errors.
    pending = errs
    rounds = 0
    while pending and rounds < 4:
        rounds += 1
        tag = 'illegal%d' % rounds
        a, lineno = assemble(ctx, isa, cpu, tag, pending)
        if a.run.timed_out:
            out.inconc('timeout')
            break
        if a.run.san:
            out.violate(a.run.san, '%s illegal file: %s' % (cpu, a.run.err.decode('latin-1')[-800:]))
            break
        if not a.trace:
            out.inconc('harness: no trace')
            break
        em, di, npass = collect(a.trace, tag + '.asm')
        suspects = []
        nrej = 0
        for no, ln in lineno.items():
            t = norm_tmpl(ln.form.fid)
            chunks = em.get(no, [])
            diags = di.get(no, [])
            nerr = [d for d in diags if d[0] in ('E', 'F')]
            got = b''.join(c[2] for c in chunks)
            where = '%s line %d `%s`' % (cpu, no, ln.text)
            if nerr:
                # rejected.  Bytes a code generator still hands to the output stage after it reported the
                # error never reach a code file (the error suppresses it; checked below) - observed, not judged.
                nrej += 1
                out.obs['illegal_lines_rejected'] += 1
                if chunks:
                    out.obs['rejected_lines_with_residual_bytes_in_trace:' + fam] += 1
                out.sets['rejection_errors'].add(str(nerr[0][1]))
                out.sigs.add(sig(ln))
            else:
                suspects.append((ln, got, diags, where))
        out.obs['lines_judged'] += nrej
        if nrej and len(suspects) == 0:
            if a.rc != 2:
                out.violate('%s:illegal-file-status' % fam, '%s: all %d lines were rejected but status is %s' % (cpu, len(lineno), a.rc))
            elif a.p is not None:
                out.violate('%s:illegal-file-leaves-code-file' % fam, '%s: errors reported but a code file exists' % cpu)
            else:
                out.obs['illegal_files_rejected'] += 1
        if suspects and nrej == 0:
            # nothing else in the file was rejected: these lines had their own complete assembly and were accepted
            for ln, got, diags, where in suspects:
                t = norm_tmpl(ln.form.fid)
                out.obs['lines_judged'] += 1
                if got:
                    out.violate('%s:%s:out-of-range-accepted:%s' % (fam, t, ln.err),
                                '%s: operand outside the encodable range (%s) was assembled to %s instead of being rejected%s'
                                % (where, ln.err, got.hex(), ' (warning only: %s)' % diags if diags else ''))
                else:
                    out.violate('%s:%s:out-of-range-silently-dropped:%s' % (fam, t, ln.err), '%s: no error and no code' % where)
            break
        pending = [x[0] for x in suspects]
        if pending:
            out.obs['illegal_lines_reassembled'] += len(pending)
    else:
        if pending:
            out.inconc('harness: illegal lines unresolved after 4 rounds')
    out.nontrivial = bool(out.sigs)
