"""C15 — disassembling and re-assembling reproduces the original bytes (6800/6802, 87C00, 4004).

Per case: a valid program is built, assembled by asl into an image, the image is
loaded into dasl (-binfile and Intel-hex -hexfile) with 1..4 entry addresses, and
dasl's stdout is judged:
  * dasl ends normally and works on the bytes that were loaded (its hex dump against the image);
  * every entry address that holds an instruction of the program lies in a listed code area;
  * the listed code/data areas are pairwise disjoint and lie inside the loaded image;
  * stdout, preceded by a CPU statement, is accepted by asl;
  * the re-assembled image equals the original on every byte of the listed areas.
Programs come from three sources so that no single table is trusted:
  isa   generators written from the 6800 / 4004 ISA definitions (vf/model/c15_isa.py);
        the image is also compared with the bytes the ISA defines (second opinion);
  boot  self-bootstrapped: random bytes are disassembled, the instruction lines asl
        accepts become the instruction pool of a structured program;
  gold  the instruction lines of the golden sources t_87c800, t_68alias/t_6301, t_4004.
  edge  boundary programs from a finite pool that is walked through completely in every run (relative jumps
        with every displacement, page jumps at every place around a page end), see edge_pool().
All programs have the same shape: routines that end in an instruction that does not
fall through, data islands between routines, branches/calls only to instruction
boundaries inside the image, 1..3 separately placed blocks, optional vector table.
"""
import os
import re

from .. import asl, build, corpus, core, pfile
from ..model import c15_isa

ID = 'C15'
LEVEL = 'exploration'
RULE = ('case = one image assembled from a generated valid program (6800 / 4004 from ISA tables, all three CPUs from self-bootstrapped '
        'and golden-source instruction pools), disassembled via -binfile (one file per block, sometimes a block cut into two adjacent files) '
        'and via Intel-hex -hexfile (p2hex or an independent writer, 1..255 bytes per record) with 1..4 entry addresses '
        '(plain, named, indirect through a vector); one sixth of the cases are boundary programs that walk through a fixed pool in every run: '
        'every relative jump of the 6800 and 87C00 with every displacement of a key set (thorough: the whole range; JRS: all 32 values for T and F), '
        '4004 JCN/ISZ at every place around a page end (including the last two bytes and the straddling position) with targets all over the page, '
        'each in a part of its own with an entry address; distinct = distinct (cpu, instruction shape, load route) whose bytes were '
        'reproduced by the round trip; non-trivial = at least one code area was listed and compared')
ASSUMPTIONS = ['dasl writes the source text to stdout and nothing else belongs there; the assembler needs only a CPU statement in front of it',
               'the hex dump comment at the end of each dasl line states the length of that line (used only to attribute a failure to a line)',
               'asl CPU names: 6800 for dasl 6800/6802, 87C00, 4004']
MANIFEST = dict(
    category='exploration', design_ref='DESIGN.md §4 C15',
    technique='metamorphic round trip asl -> dasl -> asl over generated valid programs, areas checked against the loaded image, '
              'second opinion on the image from ISA tables',
    text='Held on the executions of this run: every image assembled from a generated valid 6800, 87C00 or 4004 program was disassembled by dasl '
         '(binary and Intel-hex load, 1..4 plain/named/vector entry addresses, upper and lower case hex); dasl ended normally, its area list was '
         'disjoint and inside the image, asl accepted the text for the same CPU and reproduced every byte of the listed areas.',
    note='Completeness of the trace (how much of the program dasl reaches) is not part of the property and is only recorded. Forced address-length '
         'prefixes (< >) are not generated for the 6800 because the manual does not document them there; 4040-only and 6801/6301/6811-only instructions are outside the three targets.')
REGISTERED = True

CPUS = {
    '6800': dict(dasl=['6800', '6802'], asl='6800', data='byt', word='adr', wordmsb=True, limit=0x10000,
                 vectors=[0xfff8, 0xfffa, 0xfffc, 0xfffe], golden=['t_68alias', 't_6301'], include=False,
                 enders=[('rts', False), ('rti', False), ('jmp\t{T}', True), ('bra\t{T}', False)],
                 jumps={'jmp', 'jsr', 'bsr', 'bra', 'bhi', 'bls', 'bcc', 'bcs', 'bne', 'beq', 'bvc', 'bvs', 'bpl', 'bmi', 'bge', 'blt', 'bgt', 'ble', 'bhs', 'blo', 'brn'},
                 absolute={'jmp', 'jsr'}),
    '87C00': dict(dasl=['87C00'], asl='87C00', data='db', word='dw', wordmsb=False, limit=0x10000,
                  vectors=[0xffe0, 0xffe2, 0xfffc, 0xfffe], golden=['t_87c800'], include=True,
                  enders=[('ret', False), ('reti', False), ('jp\t{T}', True), ('jr\t{T}', False)],
                  jumps={'jp', 'call', 'callp', 'jr', 'jrs'},
                  absolute={'jp', 'call'}),
    '4004': dict(dasl=['4004'], asl='4004', data='data', word=None, wordmsb=True, limit=0x1000,
                 vectors=[], golden=['t_4004'], include=False,
                 enders=[('bbl\t0', False), ('bbl\t7', False), ('jun\t{T}', True)],
                 jumps={'jun', 'jms', 'jcn', 'jcm', 'isz'},
                 absolute={'jun', 'jms'}),
}
DATA_MNEMONICS = {'byt', 'db', 'dw', 'adr', 'data', 'fcb', 'fdb', 'dc', 'ds', 'dfs', 'rmb', 'byte', 'fcc', 'dn', 'dd', 'dq', 'dt'}
SKIP_GOLD = DATA_MNEMONICS | {'cpu', 'page', 'include', 'if', 'endif', 'else', 'elseif', 'expect', 'endexpect', 'org', 'segment', 'end',
                              'equ', 'set', 'reg', 'relaxed', 'listing', 'macro', 'endm', 'padding', 'assume', 'phase', 'dephase'}
NOP = {'6800': 0x01, '87C00': 0x00, '4004': 0x00}
OUT_LIMIT_BLOCKS = 4096          # 512-byte blocks: dasl's stdout is cut at 2 MiB (an endless listing must not fill the disk)


def plan(tier, seed):
    n = 500 if tier == 'quick' else 12500
    cases = []
    # boundary programs: the whole pool of (relative jump, displacement) / (page jump, place in the page, target)
    # combinations is walked through in every run, four per image; the seed only decides how they are grouped
    nedge = 100 if tier == 'quick' else 2500
    for cpu in ('4004', '87C00', '6800'):
        pool = edge_pool(cpu, tier)
        share = {'4004': 0.40, '87C00': 0.36, '6800': 0.24}[cpu]
        k = int(nedge * share)
        for j in range(k):
            cases.append({'cpu': cpu, 'src': 'edge', 'k': j})
    # fixed proportions; the case index seeds everything else
    mix = [('87C00', 'boot')] * 5 + [('87C00', 'gold')] * 3 + \
          [('6800', 'isa')] * 3 + [('6800', 'boot')] * 2 + [('6800', 'gold')] * 1 + \
          [('4004', 'isa')] * 3 + [('4004', 'boot')] * 2 + [('4004', 'gold')] * 1
    for i in range(n):
        cpu, src = mix[i % len(mix)]
        cases.append({'cpu': cpu, 'src': src})
    return cases


# ---------------------------------------------------------------------------
# small helpers: Intel hex, dasl invocation, parsing of dasl's text

def ihex_write(runs, reclen):
    """runs: list of (start, bytes) -> Intel hex text (type 00 records, EOF record)"""
    out = []
    for start, data in runs:
        for off in range(0, len(data), reclen):
            chunk = data[off:off + reclen]
            addr = (start + off) & 0xffff
            rec = bytes([len(chunk), addr >> 8, addr & 0xff, 0]) + bytes(chunk)
            out.append(':%s%02X' % (rec.hex().upper(), (-sum(rec)) & 0xff))
    out.append(':00000001FF')
    return '\n'.join(out) + '\n'


def ihex_read(text):
    """-> dict addr -> byte, or None if not plain 16-bit Intel hex with good checksums"""
    mem = {}
    for line in text.splitlines():
        line = line.strip()
        if not line:
            continue
        if not line.startswith(':'):
            return None
        try:
            rec = bytes.fromhex(line[1:])
        except ValueError:
            return None
        if len(rec) < 5 or len(rec) != rec[0] + 5 or sum(rec) & 0xff:
            return None
        if rec[3] == 0:
            a = (rec[1] << 8) | rec[2]
            for i, b in enumerate(rec[4:-1]):
                mem[a + i] = b
        elif rec[3] in (2, 4):
            if any(rec[4:-1]):
                return None
    return mem


def runs_of(mem):
    """dict addr -> byte  ->  sorted maximal contiguous runs [(start, bytes)]"""
    runs = []
    for a in sorted(mem):
        if runs and runs[-1][0] + len(runs[-1][1]) == a:
            runs[-1][1].append(mem[a])
        else:
            runs.append([a, bytearray([mem[a]])])
    return [(s, bytes(d)) for s, d in runs]


def run_dasl(ctx, args, outname, cpu_seconds=20):
    """dasl with stdout in a size-limited file and a CPU-time limit (both independent of machine load)"""
    script = 'ulimit -f %d; ulimit -t %d; exec "$0" "$@" > %s' % (OUT_LIMIT_BLOCKS, cpu_seconds, outname)
    r = ctx.run('sh', ['-c', script, ctx.bins['dasl']] + list(args), timeout=120)
    text = (ctx.read(outname) or b'').decode('latin-1')
    return r, text


LINE_RE = re.compile(r'^(?:([^\s:;]+):)?[ \t]+(\S.*?)[ \t]*;((?: [0-9A-Fa-f]{2})+)[ \t]*$')
ORG_RE = re.compile(r'^[ \t]+org[ \t]+(\S+)', re.I)
AREA_RE = re.compile(r'^[ \t]*;[ \t]*([0-9A-Fa-f]+)\.\.\.([0-9A-Fa-f]+) \((code|data)\)[ \t]*$')
LABEL_RE = re.compile(r'\b(?:lab|sub|subv)_[0-9A-Fa-f]{4}(?![0-9A-Fa-f])')


def parse_number(tok):
    t = tok.strip()
    try:
        if t.startswith('$'):
            return int(t[1:], 16)
        if t.lower().startswith('0x'):
            return int(t[2:], 16)
        if t.lower().endswith('h'):
            return int(t[:-1], 16)
        return int(t, 10)
    except ValueError:
        return None


class DLine:
    __slots__ = ('no', 'addr', 'n', 'label', 'text', 'dump', 'kind', 'raw')


def parse_dasl(text):
    """-> (lines, areas, junk, area_header_seen)
    lines: DLine for every source line carrying code (address from the preceding org + dump lengths)
    areas: [(start, end_inclusive, 'code'|'data')]; junk: [(lineno, raw)] lines that are neither"""
    lines, areas, junk = [], [], []
    addr = None
    in_summary = False
    header = False
    for no, raw in enumerate(text.split('\n'), 1):
        s = raw.rstrip('\r')
        if not s.strip():
            continue
        if in_summary:
            m = AREA_RE.match(s)
            if m:
                areas.append((int(m.group(1), 16), int(m.group(2), 16), m.group(3)))
                continue
            if re.match(r'^[ \t]*;', s):
                continue
            junk.append((no, s))
            continue
        if re.match(r'^[ \t]*; disassembled area:', s):
            in_summary = True
            header = True
            continue
        m = ORG_RE.match(s)
        if m:
            addr = parse_number(m.group(1))
            continue
        m = LINE_RE.match(s)
        if m and addr is not None:
            d = DLine()
            d.no, d.addr, d.label, d.text, d.raw = no, addr, m.group(1), m.group(2), s
            d.dump = bytes(int(x, 16) for x in m.group(3).split())
            d.n = len(d.dump)
            addr += d.n
            lines.append(d)
            continue
        if re.match(r'^[ \t]*;', s):
            continue          # remark
        junk.append((no, s))
    return lines, areas, junk, header


REG87 = {'a', 'w', 'c', 'b', 'e', 'd', 'l', 'h'}
RR87 = {'wa', 'bc', 'de', 'hl'}
ALU87 = {'addc', 'add', 'subb', 'sub', 'and', 'xor', 'or', 'cmp'}


def shape(cpu, text):
    """stable description of the kind of source line: mnemonic + operand classes"""
    t = text.split(';')[0].strip()
    parts = t.split(None, 1)
    if not parts:
        return '?'
    mn = parts[0].lower()
    ops = parts[1].strip() if len(parts) > 1 else ''
    ops = re.sub(r'\s+', '', ops).lower()
    ops = re.sub(r'\b(?:lab|sub|subv)_[0-9a-f]{4}', 'L', ops)
    ops = re.sub(r'\b(?:vector_\d+_)?ent_\d+', 'L', ops)
    if cpu == '87C00':
        if mn in ALU87:
            mn = 'ALU'
        toks = re.split(r'([(),.+\-])', ops)
        res = []
        depth = 0
        for tk in toks:
            if tk == '(':
                depth += 1
            elif tk == ')':
                depth -= 1
            if depth == 0 and tk in REG87:
                tk = 'r'
            elif depth == 0 and tk in RR87:
                tk = 'rr'
            res.append(tk)
        ops = ''.join(res)
    elif cpu == '4004':
        if mn in ('jcn', 'jcm'):
            ops = re.sub(r'^[tczn]*,', 'COND,', ops)
        ops = re.sub(r'\br[0-9a-f]r[0-9a-f]\b', 'rp', ops)
        ops = re.sub(r'\br\d{1,2}p\b', 'rp', ops)
        ops = re.sub(r'\br(?:\d{1,2}|[a-f])\b', 'r', ops)
    if cpu == '87C00' and mn in ('jr', 'jrs'):
        ops = re.sub(r'^(?:z|nz|cs|cc|le|gt|t|f|eq|ne|lt|ge),', 'COND,', ops)
    if mn in DATA_MNEMONICS:
        ops = re.sub(r'\b[0-9a-f]+h\b', 'N', ops)
    ops = re.sub(r'\$[0-9a-f]+', 'N', ops)
    ops = re.sub(r'\b[0-9][0-9a-f]*h\b', 'N', ops)
    ops = re.sub(r'\b[0-9][0-9a-f]*\b', 'N', ops)
    return (mn + ' ' + ops).strip()


# ---------------------------------------------------------------------------
# program construction

class Ins:
    """one instruction (or data item) of the program under construction"""
    __slots__ = ('label', 'mn', 'text', 'isa', 'near', 'absolute', 'tidx', 'data', 'routine', 'first', 'dropped', 'addr', 'kind')

    def __init__(self):
        self.label = None
        self.mn = ''
        self.text = ''        # full statement; '{T}' stands for the target label
        self.isa = None
        self.near = False
        self.absolute = False
        self.tidx = None      # index of the target instruction
        self.data = None      # bytes for data items
        self.routine = 0
        self.first = False
        self.dropped = False
        self.addr = None
        self.kind = 'ins'


def data_statement(cpu, data):
    c = CPUS[cpu]
    if cpu == '6800':
        return '%s\t%s' % (c['data'], ','.join('$%02x' % b for b in data))
    return '%s\t%s' % (c['data'], ','.join('0%02xh' % b for b in data))


def source_text(cpu, blocks, items, include):
    out = ['\tcpu\t%s' % CPUS[cpu]['asl']]
    if include:
        out.append('\tinclude\tstddef87.inc')
    for org, idxs in blocks:
        out.append('\torg\t%d' % org)
        for i in idxs:
            it = items[i]
            out.append('%s:' % it.label)
            if it.dropped:
                continue
            t = it.text
            if '{T}' in t:
                t = t.replace('{T}', items[it.tidx].label)
            out.append('\t' + t)
    return '\n'.join(out) + '\n'


def build_isa_program(cpu, rng, out):
    """layout-aware program from the ISA tables; returns (blocks, items, vectors) or None"""
    forms = c15_isa.m6800_forms() if cpu == '6800' else c15_isa.i4004_forms()
    enders = c15_isa.m6800_enders() if cpu == '6800' else c15_isa.i4004_enders()
    limit = CPUS[cpu]['limit']
    nrout = rng.randrange(1, 6)
    # 'wrap': the program uses both ends of the address space - a table at address 0 and a routine whose last
    # instruction occupies the last address
    wrap = rng.random() < 0.08
    if wrap:
        nrout = max(2, nrout)
    items = []
    routines = []
    if wrap:
        d = Ins()
        d.kind = 'data'
        d.data = bytes(rng.randrange(256) for _ in range(rng.randrange(1, 7)))
        items.append(d)
    for r in range(nrout):
        body = rng.randrange(2, 14)
        first = True
        for _ in range(body):
            name, mk = rng.choice(forms)
            it = Ins()
            it.isa = mk(rng)
            it.routine = r
            it.first = first
            first = False
            items.append(it)
        name, mk = rng.choice(enders)
        it = Ins()
        it.isa = mk(rng)
        it.routine = r
        it.first = first
        items.append(it)
        if rng.random() < 0.6:
            d = Ins()
            d.kind = 'data'
            d.data = bytes(rng.randrange(256) for _ in range(rng.randrange(1, 7)))
            d.routine = r
            items.append(d)
        routines.append(r)
    if wrap:
        if items[-1].kind == 'data':
            items.pop()
        stops = [(n, mk) for n, mk in enders if mk(rng)['flow'] == 'stop' and mk(rng)['len'] == 1]
        items[-1].isa = rng.choice(stops)[1](rng)
    # split into 1..3 blocks at routine boundaries
    nblocks = min(nrout, rng.choice([2, 3] if wrap else [1, 1, 1, 2, 2, 3]))
    cuts = sorted(rng.sample(range(1, nrout), nblocks - 1)) if nblocks > 1 else []
    groups = []
    cur = []
    for i, it in enumerate(items):
        if it.first and it.kind == 'ins' and it.routine in cuts and cur:
            groups.append(cur)
            cur = []
        cur.append(i)
    groups.append(cur)
    sizes = [sum((items[i].isa['len'] if items[i].kind == 'ins' else len(items[i].data)) for i in g) for g in groups]
    # place the blocks: ascending, not overlapping, inside the address space; sometimes flush with its end
    vec = None
    top = limit
    if cpu == '6800' and rng.random() < 0.25 and not wrap:
        vec = True
        top = 0xfff8
    total = sum(sizes) + 16 * len(groups)
    if total >= top:
        return None
    orgs = []
    style = rng.randrange(4)
    pos = 0
    if style == 0:
        pos = rng.randrange(0, top - total)
    elif style == 1:
        pos = rng.choice([0, 0x100, 0x200, 0x80]) if top - total > 0x200 else 0
    elif style == 2:
        pos = top - total          # last block ends exactly at the top
    else:
        pos = rng.randrange(0, max(1, (top - total) // 256)) * 256 + rng.choice([0, 0xf0, 0xf8, 0xfc])
        pos = min(pos, top - total)
    if wrap:
        style = 2
        pos = 0
    for gi, g in enumerate(groups):
        gap = rng.choice([1, 2, 5, 16]) if gi else 0
        if style == 2 and gi == len(groups) - 1:
            pos = top - sizes[gi]
        else:
            pos += gap if gi else 0
        orgs.append(pos)
        pos += sizes[gi]
    # addresses
    for org, g in zip(orgs, groups):
        a = org
        for i in g:
            items[i].addr = a
            a += items[i].isa['len'] if items[i].kind == 'ins' else len(items[i].data)
        if a > top:
            return None
    for gi in range(1, len(groups)):
        if orgs[gi] < orgs[gi - 1] + sizes[gi - 1]:
            return None
    # targets
    starts = [i for i, it in enumerate(items) if it.kind == 'ins']
    rstarts = [i for i in starts if items[i].first]
    for i in starts:
        it = items[i]
        isa = it.isa
        tk = isa['target']
        if tk is None:
            continue
        a = it.addr
        if tk == 'rel8':
            cand = [j for j in starts if -128 <= items[j].addr - (a + 2) <= 127]
        elif tk == 'page8':
            # the page is that of the instruction following the jump (also when the jump sits in the last bytes of a page)
            cand = [j for j in starts if (items[j].addr >> 8) == ((a + 2) >> 8)]
        else:
            cand = list(starts)
        if isa['flow'] == 'call' and rng.random() < 0.7:
            c2 = [j for j in cand if j in rstarts]
            cand = c2 or cand
        if not cand:
            return None          # no legal target in this layout: the caller draws another program
        it.tidx = rng.choice(cand)
    for n, it in enumerate(items):
        if it.kind == 'ins':
            it.label = 'xi_%d' % n
            isa = it.isa
            it.mn = isa['mn']
            ops = isa['text']('{T}')
            it.text = isa['mn'] + ('\t' + ops if ops else '')
        else:
            it.label = 'xd_%d' % n
            it.text = data_statement(cpu, it.data)
    blocks = list(zip(orgs, groups))
    vectors = []
    if vec:
        # vector table: four big-endian addresses of routine starts
        vs = [rng.choice(rstarts) for _ in range(4)]
        base = 0xfff8
        g = []
        for k, j in enumerate(vs):
            d = Ins()
            d.kind = 'vec'
            d.label = 'xv_%d' % k
            d.text = 'adr\t{T}'
            d.tidx = j
            d.addr = base + 2 * k
            items.append(d)
            g.append(len(items) - 1)
            vectors.append((base + 2 * k, j))
        blocks.append((base, g))
    return blocks, items, vectors, {'wrap': wrap}


DISP8_KEY = [-128, -127, -126, -65, -64, -17, -16, -15, -3, -2, 0, 1, 2, 13, 14, 15, 16, 17, 63, 64, 126, 127]
M68_BRANCHES = ['bra', 'bsr'] + sorted(c15_isa.M68_BCC)
T870_JR = ['z', 'nz', 'cs', 'cc', 'le', 'gt', 't', 'f', 'eq', 'ne', 'lt', 'ge']


def edge_pool(cpu, tier):
    """finite pool of boundary situations; every run walks through all of it
    6800 : ('rel', mnemonic, d)        every displacement of the key set (thorough: -128..127) with rotating mnemonics
    87C00: ('jrs', cond, d)            all 32 displacements for T and F
           ('jr', cond|None, d)        key set / whole range, conditional (rotating) and unconditional
    4004 : ('jcn'|'isz', n, off, tl)   the jump at byte `off` of a page (including the last two bytes and the
                                       straddling position FF), target low byte tl in the page of the following instruction"""
    pool = []
    if cpu == '6800':
        ds = DISP8_KEY if tier == 'quick' else [d for d in range(-128, 128)]
        for i, d in enumerate(ds):
            if d == -1:
                continue            # would point into the branch itself
            for r in range(2):
                pool.append(('rel', M68_BRANCHES[(2 * i + r) % len(M68_BRANCHES)], d))
    elif cpu == '87C00':
        for cond in ('t', 'f'):
            for d in range(-16, 16):
                pool.append(('jrs', cond, d))
        ds = DISP8_KEY if tier == 'quick' else [d for d in range(-128, 128)]
        for i, d in enumerate(ds):
            if d == -1:
                continue
            pool.append(('jr', T870_JR[i % len(T870_JR)], d))
            pool.append(('jr', None, d))
    else:
        offs = [0xfb, 0xfc, 0xfd, 0xfe, 0xff, 0x00, 0x01, 0x80] if tier == 'quick' else \
            list(range(0xf0, 0x100)) + list(range(0x00, 0x10)) + [0x40, 0x80, 0xc0]
        tls = [0x00, 0x01, 0x02, 0x7f, 0x80, 0xfd, 0xfe, 0xff] if tier == 'quick' else \
            [0x00, 0x01, 0x02, 0x03, 0x0f, 0x10, 0x7f, 0x80, 0x81, 0xef, 0xf0, 0xfc, 0xfd, 0xfe, 0xff]
        i = 0
        for off in offs:
            for tl in tls:
                pool.append(('jcn', i % 16, off, tl))
                pool.append(('isz', (i * 7 + 3) % 16, off, tl))
                i += 1
    return pool


def build_edge_program(cpu, rng, specs):
    """four boundary situations per image, each in a routine of its own (an entry point each):
       one-byte no-operation instructions in front of and behind the jump make every address around it an
       instruction boundary, so the jump can be given any displacement; the routine ends in a return"""
    c = CPUS[cpu]
    isa = c15_isa
    items = []
    blocks = []
    limit = c['limit']

    def add(isad, addr, routine, first=False, tidx=None):
        it = Ins()
        it.isa = isad
        it.addr = addr
        it.routine = routine
        it.first = first
        it.tidx = tidx
        items.append(it)
        return len(items) - 1

    if cpu == '4004':
        pages = rng.sample([1, 3, 5, 7, 9, 11, 13], len(specs))
        for r, (spec, page) in enumerate(zip(specs, pages)):
            kind, n, off, tl = spec
            a = (page << 8) | off if off >= 0x80 else ((page + 1) << 8) | off
            t = ((a + 2) & 0xf00) | tl
            if t == a + 1:
                t = a + 2          # the second byte of the jump is no instruction: take the instruction behind it
            np_, nq = rng.randrange(1, 4), rng.randrange(1, 4)
            lo, e = a - np_, a + 2 + nq         # e: address of the return
            if a - 12 <= t < lo:
                lo = t
            if e < t <= e + 12:
                e = t + 1
            cells = {}
            for x in range(lo, e):
                if x not in (a, a + 1):
                    cells[x] = add(isa.i4004_nop(), x, r, first=(x == lo))
            j = add(isa.i4004_jcn(n, rng.choice(['jcn', 'jcm'])) if kind == 'jcn' else isa.i4004_isz(n), a, r, first=(a == lo))
            cells[a] = j
            cells[e] = add(isa.i4004_bbl(rng.randrange(16)), e, r)
            order = sorted(cells)
            blocks.append((lo, [cells[x] for x in order]))
            if t in cells:
                items[j].tidx = cells[t]
            else:
                # the target lies elsewhere in the page: a part of its own (a return)
                k = add(isa.i4004_bbl(rng.randrange(16)), t, r)
                items[j].tidx = k
                blocks.append((t, [k]))
    else:
        nop = isa.m6800_nop if cpu == '6800' else isa.t870_nop
        ret = isa.m6800_rts if cpu == '6800' else isa.t870_ret
        segs = []
        for spec in specs:
            if cpu == '6800':
                jd = isa.m6800_branch(spec[1])
            elif spec[0] == 'jrs':
                jd = isa.t870_jrs(spec[1])
            else:
                jd = isa.t870_jr(spec[1])
            d = spec[-1]
            ln = jd['len']
            rel = 2 + d                     # target - address of the jump
            np_ = (-rel if rel < 0 else 0) + rng.randrange(1, 4)
            nq = (rel - ln + 1 if rel >= ln else 0) + rng.randrange(1, 4)
            segs.append((jd, rel, np_, nq))
        # placement: consecutive parts with or without gaps; sometimes across $00FF/$0100 or up to the last address
        total = sum(np_ + jd['len'] + nq + 1 for jd, rel, np_, nq in segs) + 64 * len(segs)
        style = rng.randrange(4)
        if style == 0:
            pos = limit - total + 64 * len(segs) - 48 * (len(segs) - 1)     # the last routine ends at the last address
        elif style == 1:
            pos = rng.choice([0, 0x80, 0xf0])
        else:
            pos = rng.randrange(0x100, limit - total - 0x100)
        for r, (jd, rel, np_, nq) in enumerate(segs):
            start = pos
            idxs = []
            for x in range(np_):
                idxs.append(add(nop(), pos, r, first=(x == 0)))
                pos += 1
            a = pos
            j = add(jd, a, r)
            idxs.append(j)
            pos += jd['len']
            for x in range(nq):
                idxs.append(add(nop(), pos, r))
                pos += 1
            idxs.append(add(ret(), pos, r))
            pos += 1
            t = a + rel
            for i in idxs:
                if items[i].addr == t:
                    items[j].tidx = i
            assert items[j].tidx is not None
            blocks.append((start, idxs))
            pos += 48 if style == 0 else rng.choice([0, 0, 1, 16, 48])
        # adjacent parts belong to one ORG block
        merged = []
        for org, idxs in blocks:
            if merged and items[merged[-1][1][-1]].addr + 1 == org:
                merged[-1][1].extend(idxs)
            else:
                merged.append((org, list(idxs)))
        blocks = merged
    for n, it in enumerate(items):
        it.label = 'xi_%d' % n
        it.mn = it.isa['mn']
        ops = it.isa['text']('{T}')
        it.text = it.isa['mn'] + ('\t' + ops if ops else '')
    return blocks, items, [], {'wrap': False, 'all_entries': True}


def gold_templates(cpu):
    """instruction lines of the golden sources as templates ('{T}' replaces label / jump-target operands)"""
    c = CPUS[cpu]
    res = []
    for name in c['golden']:
        path = os.path.join(build.REPO, 'tests', name, name + '.asm')
        try:
            with open(path, encoding='latin-1') as f:
                text = f.read()
        except OSError:
            continue
        labels = set(re.findall(r'^([A-Za-z_][A-Za-z0-9_]*):', text, re.M))
        skipping = 0
        for raw in text.split('\n'):
            s = raw.split(';')[0].rstrip()
            if not s.strip():
                continue
            m = re.match(r'^([A-Za-z_][A-Za-z0-9_]*):?\s*(.*)$', s) if not s[0].isspace() else None
            if m:
                s = m.group(2)
                if not s.strip():
                    continue
            parts = s.split(None, 1)
            mn = parts[0].lower()
            if mn == 'expect':
                skipping += 1
                continue
            if mn == 'endexpect':
                skipping = max(0, skipping - 1)
                continue
            if skipping:
                continue
            if (mn in SKIP_GOLD or mn.split('.')[0] in SKIP_GOLD) and not (mn == 'set' and cpu == '87C00' and not m):
                continue          # (SET without a label is the TLCS-870 bit instruction, not the symbol definition)
            ops = parts[1].strip() if len(parts) > 1 else ''
            has_t = False
            if ops:
                def rep(mo):
                    return '{T}' if mo.group(0) in labels else mo.group(0)
                new = re.sub(r'[A-Za-z_][A-Za-z0-9_]*', rep, ops)
                if new != ops:
                    has_t = True
                    ops = new
                elif mn in c['jumps']:
                    # numeric jump target: must point into the image, so it becomes a label of the program
                    ol = [o.strip() for o in ops.split(',')]
                    if re.match(r'^(?:\$[0-9A-Fa-f]+|[0-9][0-9A-Fa-f]*[hH]?)$', ol[-1]):
                        ol[-1] = '{T}'
                        ops = ','.join(ol)
                        has_t = True
            if ops.count('{T}') > 1:
                continue
            res.append((mn, mn + ('\t' + ops if ops else ''), has_t))
    return res


def boot_templates(cpu, ctx, rng, out):
    """disassemble random bytes; the instruction lines become templates"""
    c = CPUS[cpu]
    k = 28
    base = rng.choice([0x200, 0x400, 0x800]) if cpu == '4004' else rng.choice([0x2000, 0x4100, 0x8000, 0xc000])
    firsts = rng.sample(range(256), k)
    runs = []
    for j in range(k):
        b = [firsts[j]] + [rng.randrange(256) for _ in range(5)]
        if cpu == '87C00' and rng.random() < 0.5:
            b[0] = rng.choice([0xe0, 0xe1, 0xe2, 0xe3, 0xe4, 0xe5, 0xe6, 0xe7, 0xe8, 0xe9, 0xea, 0xeb, 0xec, 0xed, 0xee, 0xef,
                               0xf0, 0xf1, 0xf2, 0xf3, 0xf4, 0xf5, 0xf6, 0xf7])
        if cpu == '87C00':
            # register prefix of an 8-bit register that has no 16-bit pair (E, D, L, H) followed by a 16-bit
            # operation is not an instruction of the TLCS-870 (dasl's decoder loops forever on it: a matter of
            # robustness against invalid input, property C03, not of the round trip of valid programs)
            for q in range(5):
                while 0xec <= b[q] <= 0xef and (b[q + 1] in (0x02, 0x03, 0x04, 0x06, 0x07) or 0x10 <= b[q + 1] <= 0x17
                                                or 0x30 <= b[q + 1] <= 0x3f or 0xfa <= b[q + 1] <= 0xfe):
                    b[q + 1] = rng.randrange(256)
            if 0xec <= b[5] <= 0xef:
                b[5] = 0
        # one-byte no-operation instructions behind the random bytes: whatever the random bytes decode to, the
        # decoding ends inside the slot
        b += [NOP[cpu]] * 5
        runs.append((base + 16 * j, bytes(b)))
    ctx.write('boot.hex', ihex_write(runs, 16))
    args = ['-cpu', c['dasl'][0], '-hexfile', 'boot.hex']
    for s, _ in runs:
        args += ['-entryaddress', '%d' % s]
    r, text = run_dasl(ctx, args, 'boot.out', cpu_seconds=2)
    out.obs['boot_dasl_runs'] += 1
    if r.timed_out or r.rc != 0:
        # random bytes are not a valid program: whatever dasl does with them is not judged here
        out.obs['boot_dasl_unusable'] += 1
        out.sets['boot_dasl_unusable_how'].add('%s rc=%s sig=%s %s' % (cpu, r.rc, r.sig, r.san))
        return []
    lines, areas, junk, header = parse_dasl(text)
    by_addr = {d.addr: d for d in lines}
    res = []
    for s, _ in runs:
        d = by_addr.get(s)
        if d is None:
            continue
        t = d.text.split(';')[0].strip()
        parts = t.split(None, 1)
        mn = parts[0].lower()
        if mn in DATA_MNEMONICS or 'ouch' in d.text:
            continue
        ops = parts[1].strip() if len(parts) > 1 else ''
        new = LABEL_RE.sub('{T}', ops)
        if new.count('{T}') > 1:
            continue
        res.append((mn, mn + ('\t' + new if new else ''), '{T}' in new))
    return res


def validate_templates(cpu, ctx, tmpls, out, include):
    """keep the templates asl accepts (each assembled with itself as target)"""
    if not tmpls:
        return []
    src = ['\tcpu\t%s' % CPUS[cpu]['asl']]
    if include:
        src.append('\tinclude\tstddef87.inc')
    src.append('\torg\t%d' % (0x300 if cpu == '4004' else 0x4000))
    lineof = {}
    for k, (mn, text, has_t) in enumerate(tmpls):
        src.append('xt_%d:' % k)
        src.append('\t' + text.replace('{T}', 'xt_%d' % k))
        lineof[len(src)] = k
    ctx.write('val.asm', '\n'.join(src) + '\n')
    a = asl.assemble(ctx, 'val.asm', ['-n'] + (['-i', corpus.include_dir()] if include else []), out='val.p')
    if a.run.timed_out or a.run.san:
        return []
    bad = set()
    for m in re.finditer(r'^> > > val\.asm\((\d+)\)(?::\d+)?: (?:error|fatal error)([^\n]*)', a.run.text(), re.M):
        k = lineof.get(int(m.group(1)))
        if k is not None:
            bad.add(k)
            # a template is a line dasl printed.  Whatever the bytes were, a number in it has to be written the way asl reads numbers:
            # 'symbol undefined' for a token that is a hexadecimal constant without its leading digit is dasl's fault, not the bytes'
            hexish = [t for t in re.findall(r'(?<![\w$])[A-Fa-f][0-9A-Fa-f]*[hH](?!\w)', tmpls[k][1].replace('{T}', ''))]
            if '#1010' in m.group(2) and hexish:
                out.violate('reasm:%s:hex-constant-without-leading-digit' % cpu,
                            "%s: dasl printed '%s'; asl reads '%s' as a symbol (a hexadecimal constant has to start with a digit): error 1010" % (cpu, tmpls[k][1].replace('\t', ' '), hexish[0]))
    if a.rc not in (0, 2):
        return []
    if a.rc == 2 and not bad:
        return []
    return [t for k, t in enumerate(tmpls) if k not in bad]


def build_template_program(cpu, rng, tmpls):
    """structure without layout knowledge: near targets for everything that is not an absolute jump"""
    c = CPUS[cpu]
    nrout = rng.randrange(1, 6)
    # TLCS-870: CALLP reaches only the page $FFxx, so some programs live there
    ffpage = cpu == '87C00' and rng.random() < 0.15
    if ffpage:
        nrout = 1
    # 'wrap' as in the ISA programs (not for the 4004: moving a block changes which page-relative jumps are legal)
    wrap = cpu != '4004' and not ffpage and rng.random() < 0.08
    if wrap:
        nrout = max(2, nrout)
    items = []
    for r in range(nrout):
        body = rng.randrange(2, 14)
        first = True
        for _ in range(body):
            mn, text, has_t = rng.choice(tmpls)
            it = Ins()
            it.mn, it.text = mn, text
            it.absolute = has_t and mn in c['absolute']
            it.near = has_t and not it.absolute
            it.routine = r
            it.first = first
            first = False
            items.append(it)
        etext, eabs = rng.choice(c['enders'])
        it = Ins()
        it.mn, it.text = etext.split('\t')[0], etext
        it.absolute = eabs
        it.near = ('{T}' in etext) and not eabs
        it.routine = r
        it.first = first
        items.append(it)
        if rng.random() < 0.6:
            d = Ins()
            d.kind = 'data'
            d.data = bytes(rng.randrange(256) for _ in range(rng.randrange(1, 7)))
            d.routine = r
            items.append(d)
    if wrap:
        if items[-1].kind == 'data':
            items.pop()
        etext = rng.choice([e for e, _ in c['enders'] if '{T}' not in e])       # RTS/RTI, RET/RETI: one byte
        items[-1].mn, items[-1].text, items[-1].absolute, items[-1].near = etext, etext, False, False
    starts = [i for i, it in enumerate(items) if it.kind == 'ins']
    rstarts = [i for i in starts if items[i].first]
    for pos, i in enumerate(starts):
        it = items[i]
        if it.absolute:
            it.tidx = rng.choice(rstarts if rng.random() < 0.6 else starts)
        elif it.near:
            lo, hi = max(0, pos - 3), min(len(starts) - 1, pos + 3)
            cand = [starts[p] for p in range(lo, hi + 1) if items[starts[p]].routine == it.routine]
            it.tidx = rng.choice(cand or [i])
    for n, it in enumerate(items):
        it.label = ('xi_%d' if it.kind == 'ins' else 'xd_%d') % n
        if it.kind == 'data':
            it.text = data_statement(cpu, it.data)
    # blocks at routine boundaries
    nblocks = min(nrout, rng.choice([2, 3] if wrap else [1, 1, 1, 2, 2, 3]))
    cuts = sorted(rng.sample(range(1, nrout), nblocks - 1)) if nblocks > 1 else []
    groups, cur = [], []
    for i, it in enumerate(items):
        if it.first and it.kind == 'ins' and it.routine in cuts and cur:
            groups.append(cur)
            cur = []
        cur.append(i)
    groups.append(cur)
    limit = c['limit']
    vec = bool(c['vectors']) and rng.random() < 0.25 and not ffpage and not wrap
    top = (min(c['vectors']) & ~0xff) if vec else limit
    if ffpage:
        base = 0xff00 + rng.choice([0, 0x10, 0x40])
    elif cpu == '4004':
        # keep a block inside few pages so that page-relative jumps find their targets
        base = rng.randrange(0, (top - 0x200 * len(groups)) // 0x100) * 0x100
    else:
        base = rng.randrange(0x10 if wrap else 0, top - 0x200 * len(groups) - 0x100 - (0x300 if wrap else 0))
        if rng.random() < 0.3:
            base &= ~0xff
            base = max(base, 0x100) if wrap else base
    orgs = []
    pos = base
    for g in groups:
        orgs.append(pos)
        # upper bound of the block size: no instruction of the three ISAs is longer than 5 bytes
        pos += sum(5 if items[i].kind == 'ins' else len(items[i].data) for i in g) + rng.choice([1, 7, 0x40])
    meta = {'wrap': wrap}
    if wrap:
        # provisional place of the last block; run_case moves it so that it ends at the last address
        orgs[-1] = limit - 0x300
        meta['flush'] = len(orgs) - 1
    blocks = list(zip(orgs, groups))
    if wrap:
        d = Ins()
        d.kind = 'data'
        d.data = bytes(rng.randrange(256) for _ in range(rng.randrange(1, 7)))
        d.label = 'xd_%d' % len(items)
        d.text = data_statement(cpu, d.data)
        items.append(d)
        blocks.append((0, [len(items) - 1]))
    vectors = []
    if vec:
        g = []
        for k, va in enumerate(sorted(rng.sample(c['vectors'], rng.randrange(1, len(c['vectors']) + 1)))):
            j = rng.choice(rstarts)
            d = Ins()
            d.kind = 'vec'
            d.label = 'xv_%d' % k
            d.text = '%s\t{T}' % c['word']
            d.tidx = j
            d.addr = va
            items.append(d)
            vectors.append((va, j, len(items) - 1))
        # each vector is its own tiny block (the table may have holes)
        for va, j, idx in vectors:
            blocks.append((va, [idx]))
        vectors = [(va, j) for va, j, idx in vectors]
    if cpu == '87C00' and not ffpage and not wrap:
        # CALLV n goes through the word at $FFC0+2n: give some of them a real routine to go to
        seen = set()
        for it in list(items):
            mo = re.match(r'^callv\s+(\d+)$', it.text) if it.kind == 'ins' else None
            if mo and int(mo.group(1)) < 16 and int(mo.group(1)) not in seen and rng.random() < 0.5:
                n = int(mo.group(1))
                seen.add(n)
                d = Ins()
                d.kind = 'vec'
                d.label = 'xv_%d' % (100 + n)
                d.text = 'dw\t{T}'
                d.tidx = rng.choice(rstarts)
                items.append(d)
                blocks.append((0xffc0 + 2 * n, [len(items) - 1]))
    return blocks, items, vectors, meta


# ---------------------------------------------------------------------------

ERR_RE = re.compile(r'^> > > (\S+?)\((\d+)\)(?::\d+)?: (error|fatal error|warning) #(\d+)', re.M)


def assemble_program(cpu, ctx, blocks, items, include, out):
    """assemble; drop instruction lines asl rejects (only possible for template programs); returns Asm or None"""
    for attempt in range(7):
        src = source_text(cpu, blocks, items, include)
        ctx.write('prog.asm', src)
        a = asl.assemble(ctx, 'prog.asm', ['-n'] + (['-i', corpus.include_dir()] if include else []), out='prog.p', trace=True)
        if a.run.timed_out:
            out.inconc('timeout: asl on the generated program')
            return None, src
        if a.run.san:
            out.inconc('asl-crash-on-generated-program: %s (property C03)' % a.run.san)
            return None, src
        if a.rc == 0 and a.p is not None:
            return a, src
        lines = src.split('\n')
        # map line number -> item
        lineitem = {}
        ln = 1 + (1 if include else 0)
        for org, idxs in blocks:
            ln += 1
            for i in idxs:
                ln += 1
                if not items[i].dropped:
                    ln += 1
                    lineitem[ln] = i
        bad = set()
        for m in ERR_RE.finditer(a.run.text()):
            if m.group(3) != 'warning' and m.group(1) == 'prog.asm':
                i = lineitem.get(int(m.group(2)))
                if i is not None:
                    bad.add(i)
        if not bad:
            return None, src
        for i in bad:
            if items[i].kind != 'ins' or items[i].isa is not None:
                return None, src          # data / ISA instructions must never be rejected
            items[i].dropped = True
        out.obs['template_lines_dropped'] += len(bad)
    return None, src


def run_case(case, ctx):
    out = ctx.out
    rng = ctx.rng
    cpu = case['cpu']
    srcname = case['src']
    c = CPUS[cpu]
    include = False
    tag = '%s/%s #%d' % (cpu, srcname, ctx.idx)
    out.sample = {'cpu': cpu, 'source': srcname, 'case': ctx.idx}

    # ---- 1. the program
    built = None
    if srcname == 'edge':
        pool = edge_pool(cpu, ctx.tier if ctx.tier in ('quick', 'thorough') else 'quick')
        core.case_rng(ctx.seed, ID, 0, 'edge-' + cpu).shuffle(pool)
        k = case['k']
        specs = [pool[(4 * k + q) % len(pool)] for q in range(4)]
        built = build_edge_program(cpu, rng, specs)
        out.sample['boundary_situations'] = [list(map(str, sp)) for sp in specs]
        for sp in specs:
            out.sets['boundary_situations_%s' % cpu].add(' '.join(map(str, sp)))
        srcname = 'isa'          # from here on an ISA program like the others (layout known, second opinion on the image)
        out.sets['program_sources'].add('%s/edge' % cpu)
    elif srcname == 'isa':
        for _ in range(20):
            built = build_isa_program(cpu, rng, out)
            if built:
                break
        if not built:
            out.inconc('generator: no layout found')
            return
    else:
        if srcname == 'gold':
            include = c['include']
            pool = gold_templates(cpu)
            pool = rng.sample(pool, min(len(pool), 70))
        else:
            pool = boot_templates(cpu, ctx, rng, out)
        pool = validate_templates(cpu, ctx, pool, out, include)
        out.obs['templates_accepted_by_asl'] += len(pool)
        if len(pool) < 3:
            out.inconc('generator-%s-%s: fewer than 3 usable instruction templates' % (cpu, srcname))
            return
        built = build_template_program(cpu, rng, pool)
    blocks, items, vectors, meta = built
    a, src = assemble_program(cpu, ctx, blocks, items, include, out)
    if a is not None and meta.get('flush') is not None:
        # second placement: the last block is moved so that its last byte is the last address of the CPU
        try:
            m0 = {}
            for (hdr, seg), m in pfile.image(pfile.parse(a.p)).items():
                if seg == 1:
                    m0.update(m)
            prov = blocks[meta['flush']][0]
            size = 0
            while (prov + size) in m0:
                size += 1
            if 0 < size < 0x300:
                blocks[meta['flush']] = (c['limit'] - size, blocks[meta['flush']][1])
                a, src = assemble_program(cpu, ctx, blocks, items, include, out)
        except pfile.FormatError:
            pass
    if meta.get('wrap'):
        out.obs['programs_using_both_ends_of_the_address_space'] += 1
    out.files['prog.asm'] = src.encode('latin-1')
    if a is None:
        if not out.inconclusive:
            if srcname == 'isa':
                # a program valid by the ISA tables that asl rejects is a matter of the encoding property (C14), not of the round trip
                out.inconc('isa-program-rejected-by-asl')
                out.obs['isa_programs_rejected_by_asl'] += 1
            else:
                out.inconc('generator: could not reach an accepted program')
        return
    try:
        recs = pfile.parse(a.p)
    except pfile.FormatError as e:
        out.inconc('code file of the generated program unreadable (property C04): %s' % e)
        return
    mem = {}
    for (hdr, seg), m in pfile.image(recs).items():
        if seg == 1:
            mem.update(m)
    if not mem:
        out.inconc('generator: empty image')
        return
    syms = {}
    for (name, sect), (typ, val) in asl.symbols(a.trace).items():
        if typ == 'I' and re.match(r'^X[IDV]_\d+$', name):
            try:
                syms[name.lower()] = int(val, 16)
            except ValueError:
                pass
    # ground truth: instruction boundaries and their statements
    gt = {}
    for it in items:
        if it.dropped or it.label not in syms:
            continue
        it.addr = syms[it.label]
        if it.kind == 'ins':
            gt[it.addr] = it
    if not gt:
        out.inconc('generator: no instruction left')
        return
    # second opinion on the image (ISA programs only)
    if srcname == 'isa':
        for it in items:
            if it.kind != 'ins':
                continue
            exp = it.isa['code'](it.addr, items[it.tidx].addr if it.tidx is not None else None)
            got = bytes(mem.get(it.addr + k, 0) for k in range(len(exp)))
            if exp != got or any((it.addr + k) not in mem for k in range(len(exp))):
                out.obs['isa_model_disagrees_with_asl'] += 1
                out.inconc('isa-model-disagrees-with-asl: %s at %x: ISA %s, asl %s (encoding property C14, not judged here)'
                           % (it.text, it.addr, exp.hex(), got.hex()))
                return
            out.obs['isa_instructions_confirmed'] += 1
            out.sets['isa_forms_%s' % cpu].add('%s/%s' % (it.isa['mn'], it.isa['mode']))
    runs = runs_of(mem)
    out.obs['program_instructions'] += len(gt)
    out.obs['images'] += 1
    out.obs['image_bytes'] += len(mem)
    out.sets['program_sources'].add('%s/%s' % (cpu, srcname))

    # ---- 2. entry addresses
    rstarts = [it for it in items if it.kind == 'ins' and it.first and not it.dropped and it.addr is not None]
    if not rstarts:
        rstarts = [gt[min(gt)]]
    nent = rng.randrange(1, 5)
    chosen = [rstarts[0]] + rng.sample(rstarts[1:], min(len(rstarts) - 1, nent - 1)) if rng.random() < 0.8 else \
        rng.sample(rstarts, min(len(rstarts), nent))
    if meta.get('all_entries'):
        chosen = rstarts[:4]
    entries = []      # (argument string, form)
    k = 0
    for it in chosen:
        form = rng.choice(['dec', 'hex', 'named'])
        if form == 'dec':
            entries.append(('%d' % it.addr, 'plain'))
        elif form == 'hex':
            entries.append(('0x%x' % it.addr, 'plain'))
        else:
            entries.append(('%d,ent_%d' % (it.addr, k), 'named'))
        k += 1
    for va, j in vectors:
        if rng.random() < 0.7 and len(entries) < 4 or not entries:
            endian = 'MSB' if c['wordmsb'] else 'LSB'
            if rng.random() < 0.5:
                entries.append(('(0x%x,2,%s),ent_%d' % (va, endian, k), 'vector-named'))
            else:
                # without a name; the default byte order is MSB first
                entries.append(('(0x%x,2,%s)' % (va, endian) if (not c['wordmsb'] or rng.random() < 0.5) else '(0x%x,2)' % va, 'vector'))
            k += 1
    entries = entries[:4]
    rng.shuffle(entries)
    out.sample.update(entries=[e for e, _ in entries], blocks=['%X+%d' % (s, len(d)) for s, d in runs], instructions=len(gt),
                      first_statements=[it.text.replace('{T}', items[it.tidx].label if it.tidx is not None else '') for it in items[:6]])

    # ---- 3. load routes
    for route in ('bin', 'hex'):
        args = ['-cpu', rng.choice(c['dasl'])]
        seams = []
        if route == 'bin':
            parts = list(runs)
            if rng.random() < 0.3:
                # one contiguous run delivered as two adjacent files (two ROMs): the same image
                cand = [k for k, (s, d) in enumerate(parts) if len(d) >= 2]
                if cand:
                    k = rng.choice(cand)
                    s, d = parts[k]
                    cut = rng.randrange(1, len(d))
                    parts[k:k + 1] = [(s, d[:cut]), (s + cut, d[cut:])]
                    seams.append(s + cut)
                    out.obs['images_split_into_adjacent_files'] += 1
            for n, (s, d) in enumerate(parts):
                ctx.write('img%d.bin' % n, d)
                args += ['-binfile', 'img%d.bin@%s' % (n, ('%d' % s) if rng.random() < 0.5 else ('0x%x' % s))]
        else:
            how = rng.choice(['own', 'p2hex'])
            if how == 'p2hex':
                r = ctx.run('p2hex', ['prog.p', 'img.hex', '-F', 'Intel', '-l', str(rng.choice([8, 16, 32, 254])), '-q'])
                got = ihex_read((ctx.read('img.hex') or b'').decode('latin-1')) if (r.rc == 0 and not r.timed_out) else None
                if got != mem:
                    # what p2hex writes is judged by C06; here it only has to carry the image
                    out.obs['p2hex_output_not_usable'] += 1
                    how = 'own'
            if how == 'own':
                ctx.write('img.hex', ihex_write(runs, rng.choice([1, 7, 16, 32, 255])))
            out.sets['hex_writers'].add(how)
            args += ['-hexfile', 'img.hex']
        lower = rng.random() < 0.2
        for arg, form in entries:
            args += ['-entryaddress', arg]
        if lower:
            args += ['-h']
        judge(ctx, cpu, tag + ' ' + route, route, args, entries, mem, gt, items, lower, seams)
    out.nontrivial = out.obs.get('areas_code', 0) > 0


def judge(ctx, cpu, tag, route, args, entries, mem, gt, items, lower, seams=()):
    out = ctx.out
    c = CPUS[cpu]
    r, text = run_dasl(ctx, args, 'dasl.%s.out' % route)
    cmd = 'dasl ' + ' '.join(args)
    out.obs['dasl_runs'] += 1
    out.sets['entry_forms'].update(f for _, f in entries)
    out.sets['options'].add('-h' if lower else 'default-case')
    out.sets['routes'].add(route)
    if r.timed_out:
        out.inconc('timeout: dasl')
        return
    if r.sig == 25:
        out.violate('dasl:%s:endless-listing' % cpu, '%s: %s wrote more than %d KiB of listing for a %d-byte image (killed by the file size limit); tail: %r'
                    % (tag, cmd, OUT_LIMIT_BLOCKS // 2, len(mem), text[-300:]))
        return
    if r.sig in (24, 9):
        out.inconc('timeout: dasl used more than its CPU-time limit')
        return
    if r.san:
        out.violate(r.san, '%s: %s: %s' % (tag, cmd, r.err.decode('latin-1')[-800:]))
        return
    err = r.err.decode('latin-1')
    if r.rc != 0:
        first = (err.strip().split('\n') or [''])[0]
        m = re.match(r'^(.*):([^:]*)$', first)
        what = re.sub(r'[^a-z0-9]+', '-', (m.group(2) if m else first).lower()).strip('-')[:40]
        form = ''
        if m:
            for arg, f in entries:
                if arg == m.group(1).strip():
                    form = f + '-entry:'
        opt = re.search(r'invalid option: (\S+)', err)
        if route == 'hex' and opt and opt.group(1).lower() == '-hexfile':
            # which kind of hex file?  (the longest record decides whether a line fits a small line buffer)
            longest = max([len(ln.strip()) for ln in (ctx.read('img.hex') or b'').decode('latin-1').split('\n')] or [0])
            what += ':longest-line-%s-300-characters' % ('under' if longest < 299 else 'over')
        out.violate('dasl-rejects:%s%s%s' % (form, (opt.group(1) + ':') if opt else '', what),
                    '%s: %s exits with status %s: %s' % (tag, cmd, r.rc, err.strip()[:300]))
        return
    lines, areas, junk, header = parse_dasl(text)
    if not header:
        out.violate('areas:%s:list-missing' % cpu, '%s: %s printed no "disassembled area" list; output tail %r' % (tag, cmd, text[-200:]))
        return
    # ---- areas: disjoint, inside the image
    spans = []
    area_findings = []
    ok_areas = True
    for s, e, kind in areas:
        out.obs['areas_' + kind] += 1
        if e < s:
            out.violate('areas:%s:end-before-start' % cpu, '%s: %s lists area %X...%X' % (tag, cmd, s, e))
            ok_areas = False
            continue
        missing = [x for x in range(s, e + 1) if x not in mem]
        if missing:
            area_findings.append(('areas:%s:%s-area-outside-image' % (cpu, kind), missing[0],
                                  '%s: %s lists %s area %X...%X but address %X is not part of the loaded image' % (tag, cmd, kind, s, e, missing[0])))
            ok_areas = False
        for s2, e2, k2 in spans:
            if s <= e2 and s2 <= e:
                area_findings.append(('areas:%s:overlap-%s' % (cpu, '-'.join(sorted([kind, k2]))), max(s, s2),
                                      '%s: %s lists overlapping areas %X...%X (%s) and %X...%X (%s)' % (tag, cmd, s2, e2, k2, s, e, kind)))
                ok_areas = False
        spans.append((s, e, kind))
    # every source line must lie in a listed area and the lines must tile the areas (sanity of the attribution only)
    covered = set()
    for d in lines:
        covered.update(range(d.addr, d.addr + d.n))
    listed = set()
    for s, e, kind in spans:
        listed.update(range(s, e + 1))
    attribution_ok = (covered == listed)
    if not attribution_ok:
        out.obs['listing_and_area_list_disagree'] += 1
    if not spans:
        out.obs['runs_without_any_area'] += 1
    # ---- ground truth classification of the lines
    line_at = {}
    for d in lines:
        line_at[d.no] = d
    prev_gt = None
    culprit = {}
    last_end = None
    block_of = {}
    nblock = 0
    for d in lines:
        if last_end is None or d.addr != last_end:
            prev_gt = None
            nblock += 1
        block_of[d.no] = nblock
        last_end = d.addr + d.n
        in_code_area = any(s <= d.addr <= e and k == 'code' for s, e, k in spans)
        d.kind = 'data' if not in_code_area else ('gt' if d.addr in gt else 'stray')
        if d.kind == 'gt':
            prev_gt = d
            out.obs['program_instructions_listed_%s' % route] += 1
        elif d.kind == 'stray':
            culprit[d.no] = prev_gt
            out.obs['lines_outside_the_programs_instructions'] += 1

    def load_key(d):
        """the hex dump of the line differs from the image at that address: dasl did not see the bytes that were loaded"""
        if all(mem.get(d.addr + k) == b for k, b in enumerate(d.dump)):
            return None
        if any(d.addr < x < d.addr + d.n for x in seams):
            return 'load:%s:instruction-across-two-adjacent-files-read-wrongly' % route
        return 'load:%s:dasl-works-on-other-bytes-than-the-loaded-image' % route

    def stray_key(d, depth=0):
        p = culprit.get(d.no)
        # first line of this run of lines that are no instructions of the program
        run = [y for y in lines if block_of[y.no] == block_of[d.no] and y.kind == 'stray' and y.addr <= d.addr
               and (p is None or y.addr > p.addr)]
        first_stray = min(run, key=lambda y: y.addr) if run else d
        if depth < 4:
            lo = p.addr if p is not None else first_stray.addr - 1
            for y in lines:
                if y.kind != 'stray' or y in run:
                    continue
                mo = LABEL_RE.search(y.text)
                if mo:
                    try:
                        x = int(mo.group(0).split('_')[1], 16)
                    except ValueError:
                        continue
                    if lo < x <= first_stray.addr:
                        return stray_key(y, depth + 1)      # sent here by a line that is itself astray: name its origin
        if p is None:
            first = min((y for y in lines if block_of[y.no] == block_of[d.no]), key=lambda y: y.addr)
            if first.addr == 0 and (c['limit'] - 1) in gt and any(y.kind == 'gt' and y.addr + y.n == c['limit'] - 1 for y in lines):
                # an instruction of the program is followed by the one at the last address; dasl went to address 0 instead
                return 'successor:%s:last-address-of-memory-taken-for-0' % cpu
        if p is not None:
            return 'overtrace:%s:continues-after:%s' % (cpu, shape(cpu, gt[p.addr].text.replace('{T}', 'lab_0000')))
        return 'overtrace:%s:origin-unknown' % cpu

    # ---- does dasl work on the bytes that were loaded?  (its hex dump of every line against the image)
    for d in lines:
        lk = load_key(d)
        if lk:
            orig = ' '.join('%02X' % mem[y] if y in mem else '--' for y in range(d.addr, d.addr + d.n))
            out.violate(lk, '%s: %s shows %r with bytes %s at %X, the loaded image has %s there' % (
                tag, cmd, d.text, d.dump.hex(' ').upper(), d.addr, orig))
            return              # everything else would only restate this
    # ---- every entry address that holds an instruction of the program must be disassembled
    for arg, form in entries:
        mo = re.match(r'^\((\w+)', arg)
        if mo:
            v = parse_number(mo.group(1))
            w = [mem.get(v), mem.get(v + 1)]
            e = None if None in w else (((w[0] << 8) | w[1]) if c['wordmsb'] else ((w[1] << 8) | w[0]))
        else:
            e = parse_number(arg.split(',')[0])
        if e is not None and e in gt and not any(s0 <= e <= e0 and k0 == 'code' for s0, e0, k0 in spans):
            out.violate('entry:%s:nothing-disassembled-at-entry-address' % route,
                        '%s: %s lists no code area containing the entry address %X (argument %s), where the program has %r; stderr: %s' % (
                            tag, cmd, e, arg, gt[e].text, err.strip()[:200]))
            return
    for key, x, msg in area_findings:
        cover = [y for y in lines if y.addr <= x < y.addr + y.n and y.kind == 'stray']
        if cover:
            # dasl was decoding something that is not an instruction of the program: name what sent it there
            key, msg = stray_key(cover[0]), msg + '; line there: %r' % cover[0].text
        out.violate(key, msg)
    if not spans:
        return
    names = {}
    vector_names = set()
    for arg, form in entries:
        mo = re.match(r'^(?:\((\w+)[^)]*\)|(\w+)),(ent_\d+)$', arg)
        if mo:
            names[mo.group(3)] = mo.group(1) or mo.group(2)
            if mo.group(1):
                vector_names.add(mo.group(3))

    def undefined_label_cause(d):
        """an undefined-symbol error on a line of the program: why is the label it refers to not defined?"""
        mo = LABEL_RE.search(d.text)
        x = None
        if mo:
            try:
                x = int(mo.group(0).split('_')[1], 16)
            except ValueError:
                return None
        else:
            mo = re.search(r'\bent_\d+', d.text.split(';')[0])
            if mo and mo.group(0) in names:
                x = parse_number(names[mo.group(0)])
                if mo.group(0) in vector_names:
                    # the name of an indirect entry stands for the address found in the vector
                    w = [mem.get(x), mem.get(x + 1)]
                    x = None if None in w else ((w[0] << 8) | w[1]) if c['wordmsb'] else ((w[1] << 8) | w[0])
        if x is None:
            return None
        at = [y for y in lines if y.addr <= x < y.addr + y.n]
        if not at:
            if x in gt and d.kind == 'gt':
                return 'successor-not-traced:%s:%s' % (cpu, shape(cpu, d.text))
            return None
        y = at[0]
        if y.addr == x:
            if re.search(r'\b%s%s' % (re.escape(mo.group(0)), r'[0-9A-Za-z_]'), d.text):
                return None          # the reference carries extra characters: a matter of the referring line
            return 'label-not-defined-at-its-line:%s' % cpu
        if y.kind == 'stray':
            return stray_key(y)     # a line that is not an instruction of the program swallowed the target
        return None

    # ---- reassembly
    src_lines = text.split('\n')
    head = '\tcpu\t%s\n' % c['asl']
    patched = list(src_lines)
    reported = set()
    final = None
    for attempt in range(8):
        ctx.write('re.asm', head + '\n'.join(patched))
        a = asl.assemble(ctx, 're.asm', ['-n'], out='re.p')
        out.obs['reassemblies'] += 1
        if a.run.timed_out:
            out.inconc('timeout: asl on the disassembly')
            return
        if a.run.san:
            out.violate(a.run.san, '%s: asl crashes on the output of %s: %s' % (tag, cmd, a.run.err.decode('latin-1')[-600:]))
            return
        if a.rc == 0 and a.p is not None:
            final = a
            break
        errs = [(int(m.group(2)) - 1, m.group(4)) for m in ERR_RE.finditer(a.run.text())
                if m.group(3) != 'warning' and m.group(1) == 're.asm']
        if not errs:
            out.violate('reasm:%s:rejected-without-located-error' % cpu,
                        '%s: asl exits with %s on the output of %s: %s' % (tag, a.rc, cmd, a.run.text()[-400:]))
            return
        progress = False
        blocks_with_error = set()
        for no, num in sorted(errs):
            raw = src_lines[no - 1] if 0 < no <= len(src_lines) else ''
            d = line_at.get(no)
            if d is not None:
                # a rejected statement emits no code, which moves everything behind it in the same ORG block:
                # only the first error of a block is judged in this round, the rest after it has been replaced
                if block_of[d.no] in blocks_with_error:
                    continue
                blocks_with_error.add(block_of[d.no])
            if d is not None:
                lost = undefined_label_cause(d) if num == '1010' else None
                if load_key(d):
                    key = load_key(d)
                elif lost is not None:
                    key = lost
                elif d.kind == 'stray':
                    key = stray_key(d)
                elif d.kind == 'data':
                    key = 'reasm:%s:data-line:%s:E%s' % (cpu, shape(cpu, d.text), num)
                else:
                    key = 'reasm:%s:%s:E%s' % (cpu, shape(cpu, d.text), num)
                msg = '%s: asl rejects line %d of the output of %s with error %s: %r (image bytes %s at %X%s)' % (
                    tag, no, cmd, num, raw.strip(), d.dump.hex(), d.addr,
                    '; program statement there: %r' % gt[d.addr].text if d.addr in gt else '; no instruction of the program starts there')
                # replace the statement by its bytes so that the rest of the listing can still be judged
                rep = data_statement(cpu, d.dump)
                new = ('%s:\t' % d.label if d.label else '\t') + rep
            elif ORG_RE.match(raw):
                key = 'reasm:%s:org-statement:E%s' % (cpu, num)
                msg = '%s: asl rejects the ORG statement %r in the output of %s with error %s' % (tag, raw.strip(), cmd, num)
                v = parse_number(ORG_RE.match(raw).group(1))
                new = '\torg\t%d' % v if v is not None else ';'
            else:
                cls = re.sub(r'[0-9A-Fa-fx]*\d[0-9A-Fa-fx]*', 'N', ' '.join(raw.split()[:3]))
                cls = re.sub(r'[^A-Za-z]+', '-', cls).strip('-').lower()
                key = 'stdout:%s:not-a-source-line:%s' % (cpu, cls)
                if cls.startswith('indirect-address'):
                    key = 'stdout:not-a-source-line:indirect-address'       # written by das.c for every CPU
                mo = re.search(r'opcode 0x[0-9A-Fa-f]+ @ ([0-9A-Fa-f]+)', raw)
                if mo and int(mo.group(1), 16) not in gt:
                    # dasl looked for an instruction where the program has none: who sent it there?
                    xa = int(mo.group(1), 16)
                    refs = [y for y in lines if y.kind == 'stray' and re.search(r'_%04X(?![0-9A-Fa-f])' % xa, y.text, re.I)]
                    cover = [y for y in lines if y.addr <= xa < y.addr + y.n and y.kind == 'stray']
                    key = stray_key((refs or cover)[0]) if (refs or cover) else 'overtrace:%s:origin-unknown' % cpu
                msg = '%s: stdout of %s contains %r, which asl rejects (error %s)' % (tag, cmd, raw.strip(), num)
                new = ';'
            if key not in reported:
                reported.add(key)
                out.violate(key, msg)
            if patched[no - 1] != new:
                patched[no - 1] = new
                progress = True
        if not progress:
            return
    if final is None:
        return
    try:
        recs = pfile.parse(final.p)
    except pfile.FormatError as e:
        out.inconc('code file of the reassembly unreadable (property C04): %s' % e)
        return
    mem2 = {}
    for (hdr, seg), m in pfile.image(recs).items():
        if seg == 1:
            mem2.update(m)
    # ---- bytes over the listed areas, attributed to lines
    blocks_seen_bad = set()
    last_end = None
    blk = 0
    for d in lines:
        if last_end is None or d.addr != last_end:
            blk += 1
        last_end = d.addr + d.n
        if blk in blocks_seen_bad:
            continue
        if patched[d.no - 1] != src_lines[d.no - 1]:
            continue          # already reported and replaced by its bytes
        diff = [x for x in range(d.addr, d.addr + d.n) if x in mem and mem2.get(x) != mem[x]]
        if diff:
            blocks_seen_bad.add(blk)      # a length change shifts everything behind it: one report per contiguous run
            x = diff[0]
            got = bytes(mem2.get(y, 0) for y in range(d.addr, d.addr + d.n) if y in mem2)
            if load_key(d):
                key = load_key(d)
            elif d.kind == 'stray':
                key = stray_key(d)
            elif d.kind == 'data':
                key = 'bytes:%s:data-line:%s' % (cpu, shape(cpu, d.text))
            else:
                key = 'bytes:%s:%s' % (cpu, shape(cpu, d.text))
            if key not in reported:
                reported.add(key)
                orig = bytes(mem[y] for y in range(d.addr, d.addr + d.n) if y in mem)
                out.violate(key, '%s: %r (line %d of the output of %s, hex dump %s) stands for image bytes %s at %X but assembles to %s%s' % (
                    tag, d.text, d.no, cmd, d.dump.hex(), orig.hex(), d.addr, got.hex() or 'nothing',
                    '; program statement: %r' % gt[d.addr].text if d.addr in gt else ''))
        else:
            out.obs['lines_reproduced'] += 1
            out.obs['bytes_compared'] += d.n
            if d.kind == 'gt':
                sh = shape(cpu, d.text)
                out.sigs.add('%s|%s|%s' % (cpu, sh, route))
                out.sets['mnemonics_%s' % cpu].add(d.text.split()[0].lower())
    # areas not attributed to any line (cannot happen when listing and area list agree)
    if not attribution_ok:
        for s, e, kind in spans:
            for x in range(s, e + 1):
                if x in mem and x not in covered and mem2.get(x) != mem[x]:
                    out.violate('bytes:%s:area-byte-without-source-line' % cpu,
                                '%s: %s lists %X...%X (%s) but no source line covers %X, and the reassembly does not reproduce it' % (tag, cmd, s, e, kind, x))
                    break
    out.obs['round_trips_completed'] += 1
