"""C16 — spelling the manual declares irrelevant does not change the code.

Metamorphic monitor against TRUSTED RECORDED OUTPUT: every golden source is
rewritten in ways the manual defines as immaterial, assembled with the
sanitised binary, converted with p2bin exactly as the golden test does, and
compared with the recorded tests/<t>/<t>.ori image.
"""
import os
import re

from .. import corpus

ID = 'C16'
LEVEL = 'exploration'
RULE = ('201 golden programs x rewrite classes {opcase, symcase, blanks, comments, crlf, colon, include, macrowrap, mixed}; quick: 1 seeded variant per '
        '(program, class), thorough: 12; a case is non-trivial if the rewrite changed at least one line; distinct = distinct (program, class, variant)')
ASSUMPTIONS = ['tests/<t>/<t>.ori is trusted recorded output',
               'lines the rewriter does not understand with certainty are left alone (quotes, preprocessor lines, continuation lines, macro bodies for symbol case)']
MANIFEST = dict(
    category='exploration', design_ref='DESIGN.md §4 C16',
    technique='metamorphic runtime monitor against recorded golden images: meaning-preserving source rewrites, assembled by the sanitised asl + p2bin, byte-compared with tests/*/*.ori',
    text='Held on the executions of this run: each of the 201 golden programs (all code generators) was rewritten per line with seeded random choices in 9 rewrite classes '
         'and must still assemble without error to exactly its recorded .ori image.',
    note='The oracle is the recorded image, not the current binary. Rewrites are applied only where the manual states the spelling is immaterial; excluded line kinds are listed in the module.')

CLASSES = ['opcase', 'symcase', 'blanks', 'comments', 'crlf', 'colon', 'include', 'macrowrap', 'mixed']

# programs whose meaning depends on the physical line/file layout
LAYOUT_SENSITIVE = re.compile(r'\b(MOMLINE|MOMFILE|MOMPASS)\b', re.I)
BODY_OPEN = re.compile(r'^\S*\s+(macro|rept|irp|irpn|irpc|while)\b', re.I)
BODY_CLOSE = re.compile(r'^\S*\s+endm\b', re.I)
NO_COLON_OPS = {'equ', 'set', '=', ':=', 'macro', 'function', 'struct', 'union', 'endstruct', 'ends', 'endunion', 'endu', 'eval', 'charset',
                'enum', 'nextenum', 'reg', 'namereg', 'sfr', 'sfrb', 'xsfr', 'ysfr', 'bit', 'dbit', 'port', 'label', 'defbit', 'defbitb', 'defbitfield',
                'liv', 'riv', 'constant', 'section', 'endsection', 'endm', 'rept', 'irp', 'irpc', 'irpn', 'while', 'if', 'else', 'endif', 'switch', 'case',
                'elsecase', 'endcase', 'ifdef', 'ifndef', 'elseif', 'exitm', 'shift', 'endexpect', 'expect'}


SUPP_DIR = os.path.join(os.path.dirname(os.path.dirname(os.path.dirname(os.path.abspath(__file__)))), 'corpus', 'c16')


def supplements():
    return sorted(n[:-4] for n in os.listdir(SUPP_DIR) if n.endswith('.asm'))


def plan(tier, seed):
    k = 1 if tier == 'quick' else 12
    cases = [{'prog': n, 'cls': c, 'k': k} for n in corpus.names() for c in CLASSES]
    # supplementary sources with label kinds the golden corpus lacks (dot-locals under mixed-case globals, temporaries, structures,
    # macro-local labels, conditionals); no recorded image exists for them, the unrewritten source assembled by the same binary is the reference
    cases += [{'supp': n, 'cls': c, 'k': 3 * k} for n in supplements() for c in CLASSES + ['wrap+symcase']]
    return cases


class SuppProg:
    def __init__(self, name):
        self.name = name
        self.dir = SUPP_DIR
        self.asm = os.path.join(SUPP_DIR, name + '.asm')
        self.flags = []

    def source(self):
        with open(self.asm, 'rb') as f:
            return f.read()

    def stage(self, dest):
        import shutil
        shutil.copy(self.asm, os.path.join(dest, self.name + '.asm'))


def plain(line):
    """True if the rewriter understands the line well enough to touch it"""
    if not line.strip():
        return False
    if line.lstrip().startswith(('#', ';', '*')):
        return False
    if '"' in line or "'" in line or '\\' in line or '`' in line:
        return False
    return True


def closed_quotes(line):
    """True for a line whose string and character constants are all closed before its end (backslash escapes honoured) and that is not
    a special line: a comment appended to it starts outside any constant"""
    if not line.strip() or line.lstrip().startswith(('#', ';', '*')) or '`' in line:
        return False
    if line.rstrip().endswith('\\'):
        return False
    q = None
    i = 0
    n = 0
    while i < len(line):
        ch = line[i]
        if q:
            if ch == '\\':
                i += 2
                continue
            if ch == q:
                q = None
                n += 1
        elif ch in '"\'':
            q = ch
        elif ch == ';':
            return False          # already carries a comment: the scanner above does not know this target's rules for ticks in comments
        i += 1
    return q is None and n > 0


def fields(line):
    """(label, ws1, op, ws2, rest) for a plain line without comment part handling; None if not parseable"""
    m = re.match(r'^(\S*)(\s+)(\S+)(\s*)(.*)$', line)
    return m.groups() if m else None


def cut_comment(line):
    """position of the comment start (';' outside quotes) or len(line)"""
    q = None
    for i, ch in enumerate(line):
        if q:
            if ch == q:
                q = None
        elif ch in '"\'':
            q = ch
        elif ch == ';':
            return i
    return len(line)


def rcase(rng, s):
    k = rng.randrange(3)
    if k == 0:
        return s.upper()
    if k == 1:
        return s.lower()
    return ''.join(c.upper() if rng.random() < 0.5 else c.lower() for c in s)


IDENT = re.compile(r'(?<![\w$.@#%])[A-Za-z_][A-Za-z0-9_]*(?![\w\'"])')


def rewrite(lines, cls, rng, in_macro_flags, symbols=frozenset()):
    out = []
    changed = 0
    for i, line in enumerate(lines):
        new = line
        body = in_macro_flags[i]
        c = cls if cls != 'mixed' else rng.choice(['opcase', 'blanks', 'comments', 'colon'])
        if c == 'opcase' and plain(line) and rng.random() < 0.7:
            cp = cut_comment(line)
            f = fields(line[:cp])
            if f and f[2] and not f[2].startswith(('.', '=')):
                lab, w1, op, w2, rest = f
                new = lab + w1 + rcase(rng, op) + w2 + rest + line[cp:]
        elif c == 'symcase' and plain(line) and not body and rng.random() < 0.6:
            cp = cut_comment(line)
            f = fields(line[:cp])
            if f and f[2].lower() not in ('irpc', 'irp', 'irpn', 'macro', 'function', 'cpu', 'include', 'binclude', 'title', 'message', 'error',
                                          'warning', 'fatal', 'charset', 'codepage', 'segment', 'assume', 'ifdef', 'ifndef', 'shared', 'page', 'listing',
                                          'relaxed', 'intsyntax', 'struct', 'endstruct', 'padding', 'supmode', 'fpu', 'pmmu', 'macexp', 'macexp_dft',
                                          'macexp_ovr', 'read', 'z80syntax', 'compmode', 'maxmode', 'extmode', 'srcmode', 'bigendian', 'packing', 'fullpmmu',
                                          'lwordmode', 'wrapmode', 'custom', 'emulated', 'branchext', 'dottedstructs', 'prtinit', 'prtexit', 'end', 'phase',
                                          'public', 'global', 'forward'):
                lab, w1, op, w2, rest = f
                rest2 = IDENT.sub(lambda m: rcase(rng, m.group(0)) if m.group(0).upper() in symbols else m.group(0), rest)
                if lab.rstrip(':').upper() in symbols and re.match(r'^[A-Za-z_][A-Za-z0-9_]*:?$', lab):
                    lab = rcase(rng, lab)
                new = lab + w1 + op + w2 + rest2 + line[cp:]
        elif c == 'blanks' and plain(line) and rng.random() < 0.7:
            cp = cut_comment(line)
            f = fields(line[:cp])
            if f:
                lab, w1, op, w2, rest = f
                ws = lambda: rng.choice(['\t', ' ', '  ', '\t\t', ' \t', '        ', '\t '])
                if rng.random() < 0.5:
                    # white space that separates parts inside the argument field (a prefixed statement such as 'rptc #5 addx ...'): its kind is as immaterial as its amount
                    rest = re.sub(r'[ \t]+', lambda m: rng.choice([' ', '\t', '  ', m.group(0)]), rest.rstrip()) + rest[len(rest.rstrip()):]
                new = lab + ws() + op + (ws() if w2 else '') + rest + line[cp:]
        elif c == 'comments' and not line.lstrip().startswith('#') and not line.rstrip().endswith('\\'):
            k = rng.randrange(4)
            cp = cut_comment(line)
            if k == 0 and (plain(line) or closed_quotes(line)):
                new = line.rstrip() + rng.choice(['\t; added', ' ;', ';x', '\t\t; a comment, with "quotes" and \'ticks\''])
            elif k == 1 and cp < len(line) and plain(line[:cp]) and line[:cp].strip():
                new = line[:cp].rstrip()
            elif k == 2 and not body and not (out and out[-1].rstrip().endswith('\\')):
                out.append(rng.choice(['', '; inserted comment line', '\t', '   ; indented comment']))
                changed += 1
        elif c == 'colon' and plain(line) and not body:
            cp = cut_comment(line)
            f = fields(line[:cp])
            if f and f[0] and re.match(r'^[A-Za-z_][A-Za-z0-9_]*:?$', f[0]) and f[2].lower() not in NO_COLON_OPS \
                    and not f[2].startswith(('=', ':')) and rng.random() < 0.7:
                lab, w1, op, w2, rest = f
                lab = lab[:-1] if lab.endswith(':') else lab + ':'
                new = lab + w1 + op + w2 + rest + line[cp:]
        if new != line:
            changed += 1
        out.append(new)
    return out, changed


def macro_flags(lines):
    depth = 0
    flags = []
    for l in lines:
        s = l[:cut_comment(l)]
        if BODY_CLOSE.match(s):
            depth = max(0, depth - 1)
            flags.append(True)
            continue
        flags.append(depth > 0)
        if BODY_OPEN.match(s):
            depth += 1
    return flags


def run_case(case, ctx):
    out = ctx.out
    cls = case['cls']
    if 'supp' in case:
        prog = SuppProg(case['supp'])
        prog.stage(ctx.dir)
        r0 = ctx.run('asl', [prog.name + '.asm', '-o', prog.name + '.p', '-q'], timeout=60)
        r1 = ctx.run('p2bin', [prog.name, '-q', '-k', '-l', '0', '-r', '0x-0x'], timeout=60)
        ori = ctx.read(prog.name + '.bin')
        if r0.rc != 0 or r1.rc != 0 or not ori:
            out.violate('supplementary-source-fails:' + prog.name, 'rc=%s %s' % (r0.rc, r0.text()[-300:]))
            return
    else:
        prog = corpus.Prog(case['prog'])
        ori = prog.ori_bytes()
    raw = prog.source()
    text = raw.decode('latin-1')
    out.sample = {'program': prog.name, 'class': cls}
    if LAYOUT_SENSITIVE.search(text) and cls in ('comments', 'include', 'macrowrap', 'mixed'):
        out.obs['skipped_layout_sensitive'] += 1
        return
    lines = text.replace('\r\n', '\n').split('\n')
    if lines and lines[-1] == '':
        lines.pop()
    flags = macro_flags(lines)
    symbols = frozenset()
    if cls in ('symcase', 'wrap+symcase'):
        # which identifiers are symbols (and not register names, keywords, ...) is taken from the
        # final symbol table of the unmodified program (hook trace 'S' events)
        from .. import asl as _asl
        prog.stage(ctx.dir)
        a0 = _asl.assemble(ctx, prog.name + '.asm', list(prog.flags) + ['-i', corpus.include_dir()], out='orig.p', trace=True, timeout=120)
        if a0.rc != 0 or not a0.trace:
            out.inconc('baseline for symbol names failed')
            return
        symbols = frozenset(e['name'].upper() for e in a0.trace if e['k'] == 'S' and e['typ'] == 'I' and len(e['name']) > 2
                            and not e['name'].startswith('__'))
    if cls == 'macrowrap':
        alltext = text
        for n in os.listdir(prog.dir):
            if n.endswith('.inc'):
                alltext += open(os.path.join(prog.dir, n), encoding='latin-1').read()
        for m in re.finditer(r'^\s+include\s+"?([\w./]+)', text, re.I | re.M):
            pth = os.path.join(corpus.include_dir(), m.group(1))
            if os.path.exists(pth):
                alltext += open(pth, encoding='latin-1').read()
        # inside a macro expansion labels are private to the expansion, not to the enclosing SECTION; literal pools,
        # PROC/ENDP helper macros, {..} operation expansion and dotted bit syntax interact with that: manual silent -> not generated
        if re.search(r'\b(section|endsection|ltorg|proc|endp|attribute|argcount|allargs|__label__|shift|exitm)\b|\{|\w\.\d', alltext, re.I):
            out.obs['macrowrap_not_applicable'] += 1
            return
    for v in range(case['k']):
        rng = ctx.rng
        prog.stage(ctx.dir)
        main = prog.name + '.asm'
        nchg = 0
        if cls == 'crlf':
            data = ('\r\n'.join(lines) + '\r\n').encode('latin-1')
            nchg = len(lines)
        elif cls == 'include':
            ctx.write('zz_body.inc', ('\n'.join(lines) + '\n').encode('latin-1'))
            data = b'\tinclude\t"zz_body.inc"\n'
            nchg = len(lines)
        elif cls == 'wrap+symcase':
            new, nchg = rewrite(lines, 'symcase', rng, flags, symbols)
            data = ('zzwrap\tmacro\n' + '\n'.join(new) + '\n\tendm\n\tzzwrap\n').encode('latin-1')
            nchg += 1
        elif cls == 'macrowrap':
            if re.search(r'^\S*\s+(end)\b', text, re.I | re.M):
                # END inside a macro body would end the assembly inside the expansion: manual silent -> not generated
                body = [l for l in lines if not re.match(r'^\S*\s+end\s*(;.*)?$', l, re.I)]
                if len(body) != len(lines) and any(re.match(r'^\S*\s+end\s+\S', l, re.I) for l in lines):
                    out.obs['skipped_end_with_entry'] += 1
                    return
            else:
                body = lines
            data = ('zzwrap\tmacro\n' + '\n'.join(body) + '\n\tendm\n\tzzwrap\n').encode('latin-1')
            nchg = len(lines)
        else:
            new, nchg = rewrite(lines, cls, rng, flags, symbols)
            data = ('\n'.join(new) + '\n').encode('latin-1')
        ctx.write(main, data)
        try:
            os.unlink(ctx.path(prog.name + '.p'))
        except OSError:
            pass
        r = ctx.run('asl', [main, '-o', prog.name + '.p'] + list(prog.flags) + ['-i', corpus.include_dir(), '-q'], timeout=120)
        out.obs['variants'] += 1
        tag = '%s/%s#%d' % (prog.name, cls, v)
        if r.timed_out:
            out.inconc('timeout: ' + tag)
            continue
        if r.san:
            out.violate(r.san, tag + ': ' + r.err.decode('latin-1')[-500:])
            continue
        if r.rc != 0:
            out.violate('rewrite-rejected:%s' % cls, '%s: rewritten source fails with status %s: %s' % (tag, r.rc, first_diff_hint(lines, data, r)))
            continue
        r2 = ctx.run('p2bin', [prog.name, '-q', '-k', '-l', '0', '-r', '0x-0x'], timeout=60)
        got = ctx.read(prog.name + '.bin')
        if r2.rc != 0 or got is None:
            out.violate('p2bin-fails-after-rewrite:%s' % cls, '%s: p2bin rc=%s %s' % (tag, r2.rc, r2.text()[-200:]))
            continue
        if got != ori:
            pos = next((i for i, (a, b) in enumerate(zip(got, ori)) if a != b), min(len(got), len(ori)))
            out.violate('image-differs:%s' % cls, '%s: image differs from recorded .ori at offset %d (sizes %d/%d)' % (tag, pos, len(got), len(ori)))
            continue
        out.obs['images_equal_to_ori'] += 1
        out.obs['lines_rewritten'] += nchg
        if nchg:
            out.sigs.add(tag)
    out.nontrivial = True
    out.sets['classes'].add(cls)


def first_diff_hint(lines, data, r):
    msg = (r.out + r.err).decode('latin-1')
    m = re.search(r'\((\d+)\)', msg)
    hint = msg[:300].replace('\n', ' | ')
    if m:
        n = int(m.group(1))
        new = data.decode('latin-1').split('\n')
        if 0 < n <= len(new):
            hint += ' || rewritten line %d: %r' % (n, new[n - 1][:120])
    return hint
