"""C17 — code output is deterministic and independent of reporting options.

Metamorphic monitor: for one program, the sha of the code file must not
change between the plain run and runs that differ only in repetition, report
options, locale, working directory, output path or option carrier; listing,
MAP and share outputs of two identical runs must agree after masking the
time stamp.
"""
import hashlib
import os
import re
import shutil

from .. import corpus, asl, gen_prog

ID = 'C17'
LEVEL = 'exploration'
RULE = ('case = one golden-corpus or generated program x K configurations; a configuration is a random subset '
        'of report options + locale + (cwd | output path | option carrier) variation; each configuration is run '
        'twice (reproducibility of listing/MAP/share); distinct_nontrivial counts distinct (program, sorted option '
        'set, locale, variation) tuples whose baseline assembled successfully')
ASSUMPTIONS = ['the plain run (corpus asflags, -q) is the reference; sha-256 collisions ignored',
               'time stamps are masked by regular expressions for dates, times and the assembly-time summary line']

MANIFEST = dict(
    category='exploration', design_ref='DESIGN.md §4 C17',
    technique='metamorphic runtime monitor: sha-256 of the code file across repeated / re-optioned / re-located executions of the sanitised binary; plus valgrind memcheck on the uninstrumented hook build (no byte written to a file and no decision may stem from uninitialised memory)',
    text='Held on the executions of this run: every golden-corpus program and generated programs were assembled under K sampled configurations '
         '(report-option subsets, locale, cwd, output path, option carrier), each twice; code files must be byte-identical to the plain run and '
         'listing/MAP/share outputs reproducible after masking the time stamp. Sampling, not exhaustive over option subsets.',
    note='Trusts the plain run of the same binary as reference (a defect that changes code identically under all configurations is invisible here; '
         'C16 compares against recorded .ori images). Time-stamp masking by regular expression.')

REPORT_OPTS = [
    ['-L'], ['-l'], ['-L', '-OLIST', 'other.lst'], ['-u'], ['-C'], ['-s'], ['-I'],
    ['-g', 'MAP'], ['-g', 'NOICE'], ['-g', 'ATMEL'], ['-g'],
    ['-t', '0'], ['-t', '1'], ['-t', '255'], ['-t', '85'], ['+t', '32'], ['+t', '63'], ['+t', '34'], ['-x'], ['-x', '-x'], ['-n'], ['-A'],
    ['-r'], ['-r', '2'], ['-E', 'err.log'], ['-E', '!1'], ['-E', '!2'], ['-E'], ['-gnuerrors'],
    ['-LISTRADIX', '2'], ['-LISTRADIX', '8'], ['-LISTRADIX', '10'], ['-LISTRADIX', '16'], ['-LISTRADIX', '36'],
    ['-P'], ['-M'], ['-h'], ['-SPLITBYTE', ':'], ['-SPLITBYTE', '.'],
]
STRINGIFY_SENSITIVE = (['-h'], ['-SPLITBYTE', ':'], ['-SPLITBYTE', '.'])
LOCALES = [None, {'LANG': 'de_DE', 'LC_ALL': 'de_DE'}, {'LANG': 'en_US', 'LC_ALL': 'en_US'},
           {'LANG': 'de_DE.UTF-8', 'LC_ALL': 'de_DE.UTF-8', 'LC_MESSAGES': 'de_DE'}, {'LANG': 'C', 'LC_ALL': 'C'}]
VARIATIONS = ['none', 'cwd-parent', 'outpath', 'ascmd', 'keyfile', 'keyfile-nonl', 'ascmd-keyfile', 'repeat', 'otherdir']


FLAVOURS = ('val',)
# memcheck workload: operand mutations (c03.mutate_line operator numbers relative to the boundary-number operators) that keep a statement
# plausible: delete first / delete last / duplicate last / reverse / '#' prefix / parenthesise
MEM_OPS = [0, 1, 2, 5, 10, 11]


def plan(tier, seed):
    k = 3 if tier == 'quick' else 25
    cases = [{'prog': n, 'k': k} for n in corpus.names()]
    ngen = 60 if tier == 'quick' else 200
    for i in range(ngen):
        cases.append({'gen': i, 'k': k})
    # the uninstrumented build under valgrind memcheck: no byte that reaches a file, and no decision, may come from uninitialised memory
    import random
    rng = random.Random(seed * 31337 + 5)
    names = corpus.names()
    mem = [(n, -1, 0) for n in names] + [(n, o, rng.randrange(12)) for n in names for o in MEM_OPS]
    if tier == 'quick':
        mem = rng.sample(mem, 10)
    cases += [{'memcheck': m} for m in mem]
    # ... and every statement of the golden programs as a one-statement program (c03 pool I), in batches; only statements that assemble
    # without any message are judged
    from . import c03
    stm = list(c03.pool_i())
    rng.shuffle(stm)
    if tier == 'quick':
        stm = stm[:160]
    cases += [{'memstmt': stm[i:i + 40]} for i in range(0, len(stm), 40)]
    # ... and the assembler's own options (c03 pool H, single options) on a small valid source
    opts = [(oi, vi) for oi, (o, vals) in enumerate(c03.H_OPTS['asl']) for vi in range(len(vals))]
    if tier == 'quick':
        opts = rng.sample(opts, 12)
    cases += [{'memopt': opts[i:i + 6]} for i in range(0, len(opts), 6)]
    only = os.environ.get('VERIF_C17_ONLY')       # development aid
    if only:
        cases = [c for c in cases if any(only in k for k in c)]
    return cases


_MASKS = [
    (re.compile(rb'\d{1,2}[./]\d{1,2}[./]\d{2,4}'), b'<date>'),
    (re.compile(rb'\d{1,2}:\d{2}:\d{2}'), b'<time>'),
    (re.compile(rb'[ 0-9.,]+(seconds?|Sekunden?) (assembly time|Assemblierzeit)'), b'<asmtime>'),
    (re.compile(rb'^.*(available memory|verf.gbarer Restspeicher|available stack|verf.gbarer Stack).*$', re.M), b'<mem>'),
]


def mask(b):
    for rx, rep in _MASKS:
        b = rx.sub(rep, b)
    return b


def sha(b):
    return None if b is None else hashlib.sha256(b).hexdigest()[:16]


VG_FRAME = re.compile(r'^==\d+==\s+(?:at|by) 0x[0-9A-F]+: (\w+) \((?:in [^)]*/(?:asl|p2bin|p2hex)|(\w+\.c):\d+)\)', re.M)
VG_SKIP = ('fflush', 'fwrite', 'write', 'fclose', 'memcpy', 'NewRecord', 'CloseFile', 'FlushBuffer', 'WriteBytes', 'WriteCode')


def run_memcheck(case, ctx):
    from . import c03
    out = ctx.out
    pname, op, off = case['memcheck']
    prog = corpus.Prog(pname)
    prog.stage(ctx.dir)
    src = prog.name + '.asm'
    tag = '%s (unmodified)' % pname
    if op >= 0:
        lines = prog.source().decode('latin-1').split('\n')
        ops = []
        for l in lines:
            p_ = c03.split_line(l) if l.strip() and not l.lstrip().startswith(';') else None
            ops.append(p_[1] if p_ else None)
        n = 0
        for idx in range(off, len(lines), c03.STRIDE):
            m = c03.mutate_line(lines[idx], len(c03.BOUNDARY_NUMS) + op, None)
            if m is not None and m != lines[idx]:
                lines[idx] = m
                n += 1
        if not n:
            out.obs['memcheck_members_without_applicable_line'] += 1
            return
        ctx.write(src, '\n'.join(lines))
        tag = '%s with operand mutation %d on every 12th line from %d (%d lines)' % (pname, op, off, n)
    out.sample = {'memcheck': tag}
    flags = list(prog.flags) + ['-i', corpus.include_dir()]
    r = ctx.run('valgrind', ['-q', '--error-exitcode=77', '--leak-check=no', ctx.bins['val:asl'], src, '-o', 'x.p', '-L'] + flags + ['-q'],
                env={'ASL_VERIF_MAX_LINES': '300000', 'ASL_VERIF_MAX_PASSES': '30'}, timeout=900, retry=False)
    if r.timed_out:
        out.inconc('timeout: memcheck')
        return
    err = r.err.decode('latin-1')
    out.obs['memcheck_runs'] += 1
    if (r.rc in (2, 3) or (r.rc == 77 and re.search(r'^> > > .*: (error|fatal)', err, re.M))) and not os.path.exists(ctx.path('x.p')):
        # (valgrind replaces asl's exit status by 77 as soon as it has something to report: the messages tell that asl rejected the program)
        # the program was rejected: no code file; what the listing shows for a rejected statement is not part of this property
        out.obs['memcheck_runs_of_rejected_programs_not_judged'] += 1
        return
    if r.rc == 77 or 'uninitialised' in err:
        kind = 'write-to-file' if 'Syscall param write' in err else ('decision' if 'Conditional jump' in err else 'use')
        fn = '?'
        for m in VG_FRAME.finditer(err):
            if m.group(1) not in VG_SKIP and not m.group(1).startswith('_IO_') and (m.group(2) or '').split('.')[0] not in ('fileops', 'iofflush', 'iofwrite', 'genops'):
                fn = '%s@%s' % (m.group(1), m.group(2) or 'asl')
                break
        vg = err[err.find('=='):] if '==' in err else err
        out.violate('uninitialised-%s:%s' % (kind, fn), '%s: %s' % (tag, vg[:1500].replace('\n', ' | ')))
        return
    if r.rc not in (0, 2, 3, 96, 97):
        out.inconc('memcheck run ended with status %s' % r.rc)
        return
    out.nontrivial = True
    out.sig = ('memcheck', pname, op, off)


def run_memstmt(case, ctx):
    from . import c03, c18
    out = ctx.out
    for member in case['memstmt']:
        _, pname, cpu, li = member
        line = c18.vocabulary(corpus.Prog(pname))[cpu][li]
        ctx.write('s.asm', '\tcpu\t%s\n%s\n' % (cpu, line))
        r0 = ctx.run('asl', ['s.asm', '-o', 'x.p', '-q'], env={'ASL_VERIF_MAX_LINES': '100000', 'ASL_VERIF_MAX_PASSES': '30'}, timeout=40, retry=False)
        if r0.rc != 0 or r0.err.strip() or r0.out.strip():
            out.obs['memcheck_statements_not_clean_alone'] += 1
            continue
        r = ctx.run('valgrind', ['-q', '--error-exitcode=77', '--leak-check=no', ctx.bins['val:asl'], 's.asm', '-o', 'x.p', '-L', '-q'],
                    env={'ASL_VERIF_MAX_LINES': '100000', 'ASL_VERIF_MAX_PASSES': '30'}, timeout=300, retry=False)
        if r.timed_out:
            out.inconc('timeout: memcheck')
            continue
        err = r.err.decode('latin-1')
        out.obs['memcheck_statement_runs'] += 1
        if r.rc == 77 or 'uninitialised' in err:
            kind = 'write-to-file' if 'Syscall param write' in err else ('decision' if 'Conditional jump' in err else 'use')
            fn = '?'
            for m in VG_FRAME.finditer(err):
                if m.group(1) not in VG_SKIP and not m.group(1).startswith('_IO_') and (m.group(2) or '').split('.')[0] not in ('fileops', 'iofflush', 'iofwrite', 'genops'):
                    fn = '%s@%s' % (m.group(1), m.group(2) or 'asl')
                    break
            out.violate('uninitialised-%s:%s' % (kind, fn), 'cpu %s / %r: %s' % (cpu, line.strip(), err[:1200].replace('\n', ' | ')))
        else:
            out.sigs.add('memstmt:%s:%s:%d' % (pname, cpu, li))
    out.nontrivial = True


def run_memopt(case, ctx):
    from . import c03
    out = ctx.out
    os.makedirs(ctx.path('inc1'), exist_ok=True)
    os.makedirs(ctx.path('inc2'), exist_ok=True)
    ctx.write('inc1/a.inc', '\tnop\n')
    ctx.write('inc2/a.inc', '\tnop\n\tnop\n')
    ctx.write('a.inc', '\tbyt\t1\n')
    ctx.write('in.asm', c03.H_ASL_SOURCE)
    for oi, vi in case['memopt']:
        o, vals = c03.H_OPTS['asl'][oi]
        args = ['-i', 'inc1', '-i', 'inc2', o] + ([vals[vi]] if vals[vi] is not None else [])
        r = ctx.run('valgrind', ['-q', '--error-exitcode=77', '--leak-check=no', ctx.bins['val:asl'], 'in.asm'] + args, timeout=300, retry=False)
        if r.timed_out:
            out.inconc('timeout: memcheck')
            continue
        err = r.err.decode('latin-1')
        out.obs['memcheck_option_runs'] += 1
        if r.rc == 77 or 'uninitialised' in err or 'Invalid read' in err or 'Invalid write' in err:
            fn = '?'
            for m in VG_FRAME.finditer(err):
                if m.group(1) not in VG_SKIP and not m.group(1).startswith('_IO_') and (m.group(2) or '').split('.')[0] not in ('fileops', 'iofflush', 'iofwrite', 'genops'):
                    fn = '%s@%s' % (m.group(1), m.group(2) or 'asl')
                    break
            vg = err[err.find('=='):] if '==' in err else err
            out.violate('uninitialised-option:%s' % fn, 'asl in.asm %s: %s' % (' '.join(args), vg[:1200].replace('\n', ' | ')))
        else:
            out.sigs.add('memopt:%d:%d' % (oi, vi))
    out.nontrivial = True


def run_case(case, ctx):
    if 'memopt' in case:
        return run_memopt(case, ctx)
    if 'memcheck' in case:
        return run_memcheck(case, ctx)
    if 'memstmt' in case:
        return run_memstmt(case, ctx)
    out = ctx.out
    rng = ctx.rng
    src_dir = ctx.path('s')
    os.makedirs(src_dir)
    if 'prog' in case:
        prog = corpus.Prog(case['prog'])
        prog.stage(src_dir)
        name = prog.name
        flags = list(prog.flags)
        all_src = b''.join(open(os.path.join(src_dir, n), 'rb').read() for n in os.listdir(src_dir)
                           if n.endswith(('.asm', '.inc')))
    else:
        name = 'g%d' % case['gen']
        text = gen_prog.mixed_program(rng)
        # code that depends on symbols defined on the command line
        gcpu = text.split('\n')[0].split('\t')[2]
        gbop = gen_prog.CPU_TABLE[gcpu][0]
        text = text.replace('\tend\n', '\tifdef\tTURBO\n\t%s\tREV,77\n\tendif\n\tend\n' % gbop)
        text = text.replace('konst\tequ\t', 'konst\tequ\tREV+')
        # preprocessor definitions that change along the file (the table of #define's is per-pass state)
        w1, w2 = rng.sample(range(1, 200), 2)
        text = text.replace('\tend\n', '#define GWIDTH %d\n\t%s\tGWIDTH\n#undef GWIDTH\n#define GWIDTH %d\n\t%s\tGWIDTH,GWIDTH\n%s\tend\n' % (
            w1, gbop, w2, gbop, '#undef GWIDTH\n' if rng.random() < 0.5 else ''))
        # symbols that are defined but (not yet) referenced, probed by IFDEF / IFUSED / IFNUSED: cross-reference bookkeeping (-C, -u) must not
        # count as a use; and many openings of an include file (the include bookkeeping of -I must not decide how many are possible)
        ninc = rng.choice([3, 40, 120, 210])
        probe = ('gunus\tequ\t%d\n\tifdef\tgunus\n\t%s\t3\n\tendif\n\tifused\tgunus\n\t%s\t1\n\tendif\n\tifnused\tgunus\n\t%s\t2,2\n\tendif\n'
                 '\trept\t%d\n\tinclude\t"%s.inc"\n\tendm\n' % (rng.randrange(1, 99), gbop, gbop, gbop, ninc, name))
        # include files named relative to the including file ('./', '../': "relative to this file's directory, not to the directory the
        # assembler was called from"), with decoys of the same name where a wrong base directory would find them; one include file that
        # is only found through the -i path; an exported macro (-M writes it to a file while assembling)
        incv = rng.randrange(256)
        probe += '\tinclude\t"./%s_r.inc"\n\tinclude\t"../s/%s_r.inc"\n\tinclude\t"%s_p.inc"\n' % (name, name, name)
        probe += 'gexp\tmacro\t{EXPORT},qa\n\t%s\tqa\n\tendm\n\tgexp\t%d\n' % (gbop, rng.randrange(256))
        text = text.replace('\tend\n', probe + '\tend\n')
        with open(os.path.join(src_dir, name + '.inc'), 'w', encoding='latin-1') as f:
            f.write('\t%s\t%d\n' % (gbop, rng.randrange(256)))
        with open(os.path.join(src_dir, name + '_r.inc'), 'w', encoding='latin-1') as f:
            f.write('\t%s\t%d\n' % (gbop, incv))
        for decoy_dir in (ctx.dir, os.path.dirname(ctx.dir.rstrip('/'))):
            try:
                with open(os.path.join(decoy_dir, name + '_r.inc'), 'w', encoding='latin-1') as f:
                    f.write('\t%s\t%d,%d\n' % (gbop, incv ^ 0x55, incv))
            except OSError:
                pass
        os.makedirs(os.path.join(ctx.dir, 'ipath'), exist_ok=True)
        with open(os.path.join(ctx.dir, 'ipath', name + '_p.inc'), 'w', encoding='latin-1') as f:
            f.write('\t%s\t%d\n' % (gbop, rng.randrange(256)))
        with open(os.path.join(src_dir, name + '.asm'), 'w', encoding='latin-1') as f:
            f.write(text)
        flags = ['-D', 'REV=%d' % rng.randrange(1, 9), '-D', 'TURBO', '-i', os.path.join(ctx.dir, 'ipath')]
        all_src = text.encode('latin-1')
    out.sets['programs'].add(name)
    base_args = ['-q', '-i', corpus.include_dir()]
    base = asl.assemble(ctx, name + '.asm', flags + base_args, out='base.p', cwd=src_dir)
    out.sample = {'program': name, 'baseline_rc': base.rc}
    if base.run.timed_out:
        out.inconc('timeout: baseline')
        return
    if base.rc != 0 or base.p is None:
        # a program that does not assemble has no code file to compare; the same must
        # then hold for every variant (exit status is compared instead)
        if 'prog' in case:
            out.violate('corpus-baseline-fails:' + name, 'golden program does not assemble: rc=%s %s' % (base.rc, base.run.text()[-300:]))
            return
        # a generated program is valid by construction: if it is rejected the generator (or the tree) is wrong - never compare silently less
        out.inconc('generated program %s does not assemble: rc=%s %s' % (name, base.rc, base.run.text()[-200:].replace('\n', ' | ')))
        return
    base_sha = sha(base.p)
    configs = []
    # configuration 0: every report option at once (one representative of each option that takes a value), so that
    # the effect of any single option on the code is seen for every program in every run; the culprit is isolated afterwards
    allopts = [['-L'], ['-u'], ['-C'], ['-s'], ['-I'], ['-g', 'MAP'], ['-t', '255'], ['-x', '-x'], ['-n'], ['-A'], ['-r'],
               ['-gnuerrors'], ['-LISTRADIX', rng.choice(['8', '2', '36'])], ['-P'], ['-M'], ['-E', 'err.log'], ['-h'],
               ['-SPLITBYTE', rng.choice([':', '.'])]]
    if b'\\{' in all_src:
        allopts = [o for o in allopts if o[0] not in ('-h', '-SPLITBYTE')]
    configs.append((allopts, rng.choice(LOCALES), 'none'))
    # configuration 1: a listing with parts of it masked out (+t clears mask bits, -t sets them)
    configs.append(([['-L'], ['+t', str(rng.choice([32, 63, 255, rng.randrange(1, 256), 1 << rng.randrange(8)]))]], rng.choice(LOCALES), rng.choice(VARIATIONS)))
    # configuration 2: ONE report option all by itself (other options may mask its side effects), rotating over the list
    solo_opt = REPORT_OPTS[(ctx.idx * 7 + ctx.seed) % len(REPORT_OPTS)]
    if not (b'\\{' in all_src and solo_opt in STRINGIFY_SENSITIVE):
        configs.append(([solo_opt], None, rng.choice(['none', 'cwd-parent', 'otherdir', 'outpath'])))
    for ci in range(max(0, case['k'] - 3)):
        nopt = rng.choice([1, 2, 3, 4, 6])
        opts = rng.sample(REPORT_OPTS, nopt)
        if b'\\{' in all_src:
            opts = [o for o in opts if o not in STRINGIFY_SENSITIVE]
        loc = rng.choice(LOCALES)
        var = rng.choice(VARIATIONS)
        configs.append((opts, loc, var))
    for ci, (opts, loc, var) in enumerate(configs):
        diff = _run_variant(ctx, src_dir, name, base_args, opts, loc, var, base, 'v%d' % ci, flags=flags)
        out.obs['configurations'] += 1
        out.sig = None
        key_sig = (name, sorted(' '.join(o) for o in opts), sorted((loc or {}).items()), var)
        if base.p is not None:
            out.sigs.add(repr(key_sig))
        if diff:
            # which single ingredient is responsible?
            culprit = None
            for o in opts:
                if _run_variant(ctx, src_dir, name, base_args, [o], None, 'none', base, 'r', repro=False, flags=flags):
                    culprit = 'option ' + ' '.join(o)
                    break
            if culprit is None and loc and _run_variant(ctx, src_dir, name, base_args, [], loc, 'none', base, 'r', repro=False, flags=flags):
                culprit = 'locale ' + loc['LANG']
            if culprit is None and var != 'none' and _run_variant(ctx, src_dir, name, base_args, [], None, var, base, 'r', repro=False, flags=flags):
                culprit = 'variation ' + var
            if culprit is None:
                culprit = 'combination'
            kind = diff.split(':')[0]
            out.violate('%s:%s' % (kind, culprit.replace(' ', '_')),
                        '%s: %s with opts=%s locale=%s variation=%s (baseline sha %s rc %s)' % (name, diff, opts, loc, var, base_sha, base.rc))
    out.sample['configurations'] = [{'opts': o, 'locale': l, 'variation': v} for o, l, v in configs[:3]]
    out.nontrivial = base.p is not None
    out.sig = None


def _collect_reports(d, name):
    res = {}
    for n in sorted(os.listdir(d)):
        if n.endswith(('.lst', '.map', '.h', '.noi', '.obj', '.i', '.mac', '.inc.h')) or n in ('err.log',):
            if n.endswith('.inc.h'):
                continue
            try:
                with open(os.path.join(d, n), 'rb') as f:
                    res[n] = mask(f.read())
            except OSError:
                pass
    return res


def _run_variant(ctx, src_dir, name, base_args, opts, loc, var, base, tag, repro=True, flags=()):
    """returns None if the variant agrees with the baseline, else a description"""
    out = ctx.out
    args = list(base_args)
    flat = [x for o in opts for x in o]
    env = dict(loc or {})
    cwd = src_dir
    src = name + '.asm'
    outp = tag + '.p'
    wd = src_dir
    if var == 'cwd-parent':
        cwd = ctx.dir
        src = os.path.join('s', name + '.asm')
        args = args + ['-i', 's']
        outp = os.path.join('s', tag + '.p')
    elif var == 'outpath':
        os.makedirs(os.path.join(src_dir, 'o', 'deep'), exist_ok=True)
        outp = os.path.join('o', 'deep', tag + '.bin.p')
    elif var == 'otherdir':
        wd = ctx.path('other_' + tag)
        shutil.rmtree(wd, ignore_errors=True)
        shutil.copytree(src_dir, wd)
        cwd = wd
    # the program's own code-affecting options (-D, -cpu, -alias, -relaxed ...) travel with the same carrier as the report options:
    # the place an option is given must not matter
    flags = list(flags)
    grouped = []
    i = 0
    while i < len(flags):
        if i + 1 < len(flags) and not flags[i + 1].startswith(('-', '+')):
            grouped.append([flags[i], flags[i + 1]])
            i += 2
        else:
            grouped.append([flags[i]])
            i += 1
    if var == 'ascmd':
        env['ASCMD'] = ' '.join(flags + flat)
    elif var in ('keyfile', 'keyfile-nonl', 'ascmd-keyfile'):
        body = '\n'.join(' '.join(o) for o in (opts + grouped))
        with open(os.path.join(cwd, 'opts.key'), 'w') as f:
            f.write(body + ('' if var == 'keyfile-nonl' else '\n'))
        if body:
            if var == 'ascmd-keyfile':
                env['ASCMD'] = '@opts.key'
            else:
                args = args + ['@opts.key']
    else:
        args = flags + args + flat
    results = []
    reports = []
    for rep in range(2 if repro else 1):
        for n in os.listdir(wd):
            if n.endswith(('.lst', '.map', '.noi', '.obj', '.i', '.mac')) or n == 'err.log':
                try:
                    os.unlink(os.path.join(wd, n))
                except OSError:
                    pass
        a = asl.assemble(ctx, src, args, out=outp, cwd=cwd, env=env)
        if a.run.timed_out:
            out.inconc('timeout: variant')
            return None
        if a.run.san:
            return 'variant-crash:%s' % a.run.san
        results.append(a)
        reports.append((_collect_reports(wd, name), mask(a.run.out), mask(a.run.err)))
        out.obs['variant_runs'] += 1
    a = results[0]
    if a.rc != base.rc:
        return 'status-differs: variant rc=%s baseline rc=%s: %s' % (a.rc, base.rc, a.run.text()[-300:])
    if sha(a.p) != sha(base.p):
        return 'code-differs: variant sha=%s' % sha(a.p)
    out.obs['code_files_compared'] += 1
    if repro:
        b = results[1]
        if sha(b.p) != sha(a.p) or b.rc != a.rc:
            return 'repeat-differs: second run sha=%s rc=%s' % (sha(b.p), b.rc)
        r0, r1 = reports
        for fn in set(r0[0]) | set(r1[0]):
            if r0[0].get(fn) != r1[0].get(fn):
                return 'report-not-reproducible: %s differs between two identical runs' % fn
            out.obs['report_files_compared'] += 1
            out.sets['report_kinds'].add(fn.rsplit('.', 1)[-1])
        if r0[1] != r1[1] or r0[2] != r1[2]:
            return 'report-not-reproducible: console output differs between two identical runs'
    return None
