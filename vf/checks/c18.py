"""C18 — files assembled in one invocation do not influence each other.

History monitor: for an invocation `asl f1 f2 [f3]` each file's code file,
its diagnostic events (hook H4) and its contribution to the exit status must
equal those of the solo run of that file with the same options.  Predecessors
are golden programs and generated 'sticky' / failing sources that leave every
kind of per-file state behind (open constructs, changed settings, macros,
functions and symbols named after the successor's own).
"""
import os
import random
import re
import zlib

from .. import asl, corpus

ID = 'C18'
LEVEL = 'exploration'
RULE = ('ordered pairs/triples: (golden A, golden B) with equal asflags so that every program appears as predecessor and as successor, '
        '(generated sticky/failing predecessor G, golden B), (A, G, B); a case is non-trivial if the successor assembled in both runs or failed identically; '
        'distinct = distinct (predecessor kind/name, successor name)')
ASSUMPTIONS = ['the solo run of the same binary with the same options and working directory is the reference',
               'golden programs are staged in separate sub-directories that are all on the include path in both runs']
MANIFEST = dict(
    category='exploration', design_ref='DESIGN.md §4 C18',
    technique='history-based runtime monitor: per-file code file, diagnostic event log (hook H4) and status of a multi-file execution compared with solo executions (pairs/triples of programs, short files of golden statements, and all ordered pairs of one-statement files per CPU section)',
    text='Held on the executions of this run: for ordered pairs and triples drawn from the 201 golden sources plus generated predecessors that end inside open '
         'MACRO/IF/SECTION/STRUCT/SAVE/PHASE/EXPECT constructs or change sticky settings (RADIX, RELAXED, CHARSET, PADDING, CPU, macros/functions/symbols named after '
         'the successor), the code file of every file, diagnostics and status contribution equalled its solo run.',
    note='Reference is the same binary run alone; defects that affect solo and multi-file runs alike are invisible here (C16 covers the golden images).')

G_CPUS = ['z80', '68000', '6502', '8051', '6809', '8086']
STICKY = [
    '\tradix\t16', '\tradix\t2', '\toutradix\t16', '\trelaxed\ton', '\tpadding\toff', '\tpadding\ton', "\tcharset\t'a','z',1", '\tcharset\t32,126,0',
    '\tcodepage\tzzpage', '\tmacexp\toff', '\tlisting\toff', '\tsupmode\ton', '\tdottedstructs\ton', '\tenum\tzze1,zze2', '\torg\t4660',
    '\tphase\t256', '\tsave', '\tsection\tzzsect', 'zzst\tstruct', '\tif\t1', '\tif\t0', 'zzopen\tmacro\tp1,p2', '\texpect\t1500', '\trept\t3',
    '\tswitch\t1', '\tintsyntax\t+0hex', '\tcompmode\ton', '\tbigendian\ton', '\tmaxnest\t2', 'zzvar\tset\t99', '\tirp\tzzp,1,2',
    '\tmessage\t"sticky"', '\tpushv\tzzstack,zzvar', '\tpage\t10', '\ttitle\t"zz"', '\twhile\t0',
    # things that are kept in process-wide lists or buffers: exports without any code, statements that enlarge the code buffer
    'zzexp\tequ\t5\n\texport_sym\tzzexp', '\tdc.b\t[6000]1', '\tdb\t6000 dup (1)', '\tfcb\t[6000]1', '\tbyt\t[6000]1',
    '\tdc.b\t"' + 'Ab' * 400 + '"', '\tdb\t"' + 'Ab' * 400 + '"', '\tshared\tzzvar', '\tforward\tzzfwd', '\tpublic\tzzvar',
]
# successors that depend on such process-wide state if it is not per file: (text with {d} = byte data statement of the target)
SENSITIVE_SUCC = [
    '\torg\t1\n\talign\t4096,85\n\t{d}\t1\n', '\torg\t3\n\talign\t16384,0\n\t{d}\t2\n', '\t{d}\t"' + 'xy' * 300 + '"\n',
    '\t{d}\t' + ','.join(str(i & 255) for i in range(400)) + '\n', 'a1\tequ\t3\n\texport_sym\ta1\n\t{d}\ta1\n', '\t{d}\t1\n',
]
SUCC_DATA = {'z80': 'db', '68000': 'dc.b', '6502': 'byt', '8051': 'db', '6809': 'fcb', '8086': 'db'}
MNEMONIC_MACROS = ['nop', 'move', 'mov', 'ld', 'lda', 'ldi', 'add', 'jmp', 'db', 'dc', 'dw', 'byt', 'org', 'equ', 'ret', 'rts', 'cpu', 'if', 'endif', 'include']
FAIL_TAILS = ['\tbogusinstruction', '\terror\t"planted"', '\tfatal\t"planted fatal"', '', '', '']


def plan(tier, seed):
    names = corpus.names()
    n_pairs = 60 if tier == 'quick' else 4000
    n_gen = 80 if tier == 'quick' else 6000
    n_tri = 20 if tier == 'quick' else 2000
    cases = [{'kind': 'pair'} for _ in range(n_pairs)] + [{'kind': 'gen'} for _ in range(n_gen)] + [{'kind': 'triple'} for _ in range(n_tri)]
    # short files made of statements taken from the golden programs: what the code generator remembers about the LAST statements of one
    # file (previous instruction, pending prefix, delay slot ...) must not reach the FIRST statements of the next
    cases += [{'kind': 'vocab'} for _ in range(150 if tier == 'quick' else 12000)]
    # generated predecessor + a small successor that is sensitive to buffers and lists which live as long as the process
    cases += [{'kind': 'gen2'} for _ in range(60 if tier == 'quick' else 3000)]
    # transition coverage: per golden program and CPU section, one-statement files for every mnemonic of the section, arranged so that
    # EVERY ordered pair (last statement of one file, first statement of the next) occurs in one multi-file invocation
    sections = [(p.name, cpu) for p in corpus.programs() for cpu in sorted(vocabulary(p))]
    if tier == 'quick':
        sections = random.Random(seed * 2654435761 % (1 << 32)).sample(sections, min(40, len(sections)))
    # (with and without an END statement behind the one statement: the empty line after the last statement of a file
    # without END passes through the code generator once more and may clear what the statement left behind)
    if tier == 'quick':
        cases += [{'kind': 'trans', 'prog': n, 'cpu': c, 'end': (i + seed) % 2} for i, (n, c) in enumerate(sections)]
    else:
        # (three samplings: every mnemonic is represented by a different one of its statements each time)
        cases += [{'kind': 'trans', 'prog': n, 'cpu': c, 'end': e, 'rep': k} for n, c in sections for e in (0, 1) for k in range(3)]
    # family workload: the predecessor selects ANOTHER processor of the same code generator and switches one of that generator's
    # ON/OFF settings on; the successor is a section of a golden program for that generator
    fam = family_cases()
    # (cheap: run completely in both tiers)
    cases += [{'kind': 'family', 'prog': n, 'cpu': c, 'other': y, 'stmt': st} for n, c, y, st in fam]
    # guarantee that every program appears once as successor of a generated predecessor and once in a pair
    for i, n in enumerate(names):
        cases.append({'kind': 'gen', 'succ': n})
        cases.append({'kind': 'pair', 'first': n})
    only = os.environ.get('VERIF_C18_KINDS')      # development aid
    if only:
        cases = [c for c in cases if c['kind'] in only.split(',')]
    return cases


def gen_pred(rng, succ_text):
    cpu = rng.choice(G_CPUS)
    L = ['\tcpu\t%s' % cpu]
    labels = re.findall(r'^([A-Za-z_][A-Za-z0-9_]{2,})', succ_text, re.M)
    for _ in range(rng.randrange(4, 14)):
        k = rng.randrange(6)
        if k <= 2:
            L.append(rng.choice(STICKY))
        elif k == 3:
            m = rng.choice(MNEMONIC_MACROS)
            L += ['%s\tmacro' % m, '\terror\t"macro %s leaked from another file"' % m, '\tendm']
        elif k == 4 and labels:
            L.append('%s\tequ\t%d' % (rng.choice(labels), rng.randrange(1, 30000)))
        else:
            f = rng.choice(['hi', 'lo', 'swap', 'mask', 'bit'] + [l.lower() for l in labels[:3]])
            L.append('%s\tfunction\tx,x+%d' % (f, rng.randrange(100)))
    tail = rng.choice(FAIL_TAILS)
    if tail:
        L.append(tail)
    return '\n'.join(L) + '\n'


_VOCAB = {}
CPU_RE = re.compile(r'^\s+cpu\s+(\S+)', re.I)
PLAIN_RE = re.compile(r'^\s+[A-Za-z][A-Za-z0-9_.]*(\s+[^;]*)?(;.*)?$')
NOT_PLAIN = re.compile(r'^\s+(cpu|include|binclude|macro|endm|irp|irpc|irpn|rept|while|if\w*|else\w*|endif|switch|case|endcase|elsecase|section|endsection|struct|'
                       r'endstruct|union|endunion|end|org|segment|phase|dephase|save|restore|page|listing|expect|endexpect|function|charset|read|message|warning|'
                       r'error|fatal|shift|exitm|pushv|popv|forward|public|global|supmode|assume)\b', re.I)


def vocabulary(prog):
    """{cpu name: [plain statement lines that follow that CPU statement]} of a golden program"""
    if prog.name not in _VOCAB:
        voc = {}
        cur = None
        for l in prog.source().decode('latin-1').split('\n'):
            m = CPU_RE.match(l)
            if m:
                cur = m.group(1)
                voc.setdefault(cur, [])
            elif cur and PLAIN_RE.match(l) and not NOT_PLAIN.match(l) and len(l) < 100:
                voc[cur].append(l.split(';')[0].rstrip())
        _VOCAB[prog.name] = {k: v for k, v in voc.items() if len(v) >= 3}
    return _VOCAB[prog.name]


def vocab_file(rng, prog):
    voc = vocabulary(prog)
    if not voc:
        return None
    cpu = rng.choice(sorted(voc))
    lines = ['\tcpu\t%s' % cpu] + [rng.choice(voc[cpu]) for _ in range(rng.randrange(1, 7))]
    if rng.random() < 0.4:
        lines.append('\tend')
    return '\n'.join(lines) + ('\n' if rng.random() < 0.8 else '')


_FAMILY = None


def family_cases():
    """[(program, cpu of one of its sections, another cpu of the same code generator, setting statement)] - the code generator modules
    of the tree under test are read for their AddCPU(...) and AddONOFF(...) registrations (names only)"""
    global _FAMILY
    if _FAMILY is None:
        from .. import build
        mod_cpus, mod_onoff, cpu_mod = {}, {}, {}
        for fn in sorted(os.listdir(build.REPO)):
            if not (fn.startswith('code') and fn.endswith('.c')):
                continue
            try:
                txt = open(os.path.join(build.REPO, fn), encoding='latin-1').read()
            except OSError:
                continue
            cpus = re.findall(r'AddCPU\w*\(\s*"([^"]+)"', txt)
            if not cpus:
                continue
            mod_cpus[fn] = cpus
            names = set(x.lower() for x in re.findall(r'AddONOFF\(\s*"([A-Z0-9_]+)"', txt))
            if 'SupAllowedCmdName' in txt:
                names.add('supmode')
            if 'CustomAvailCmdName' in txt:
                names.add('custom')
            mod_onoff[fn] = sorted(names)
            for c in cpus:
                cpu_mod[c.lower()] = fn
        out = []
        for prog in corpus.programs():
            for cpu in sorted(vocabulary(prog)):
                fn = cpu_mod.get(cpu.lower())
                if not fn:
                    continue
                others = [c for c in mod_cpus[fn] if c.lower() != cpu.lower()] or [cpu]
                picks = sorted({others[0], others[-1], others[len(others) // 2]})
                for y in picks:
                    for n in mod_onoff[fn] + ['padding', 'bigendian']:
                        out.append((prog.name, cpu, y, '\t%s\ton' % n))
        _FAMILY = out
    return _FAMILY


def run_family(case, ctx):
    out = ctx.out
    prog = corpus.Prog(case['prog'])
    cpu = case['cpu']
    lines = vocabulary(prog).get(cpu, [])
    if not lines:
        return
    tag = '%s/%s behind cpu %s /%s' % (prog.name, cpu, case['other'], case['stmt'].replace('\t', ' '))
    out.sample = {'family': tag}
    os.makedirs(ctx.path('t'), exist_ok=True)
    os.makedirs(ctx.path('inc'), exist_ok=True)
    prog.stage(ctx.path('inc'))
    ctx.write('t/pred.asm', '\tcpu\t%s\n%s\n%s' % (case['other'], case['stmt'], '\tend\n' if ctx.rng.random() < 0.5 else ''))
    ctx.write('t/succ.asm', '\tcpu\t%s\n%s\n' % (cpu, '\n'.join(lines)))
    flags = list(prog.flags)
    r0, ps0, dg0, nf0 = run_set(ctx, ['t/succ.asm'], flags, ['inc'], 'solo')
    r1, ps1, dg1, nf1 = run_set(ctx, ['t/pred.asm', 't/succ.asm'], flags, ['inc'], 'multi')
    if r0.timed_out or r1.timed_out:
        out.inconc('timeout')
        return
    for r in (r0, r1):
        if r.san:
            out.violate(r.san, '%s: %s' % (tag, r.err.decode('latin-1')[-400:]))
            return
    if r1.rc == 3 and r0.rc != 3:
        out.obs['family_predecessor_fatal'] += 1
        return
    d0 = [(d[0], d[1], d[2]) for d in dg0['t/succ.asm']]
    d1 = [(d[0], d[1], d[2]) for d in dg1['t/succ.asm']]
    if ps0['t/succ.asm'] != ps1['t/succ.asm'] or d0 != d1:
        what = 'code file' if ps0['t/succ.asm'] != ps1['t/succ.asm'] else 'diagnostics'
        diff = [x for x in d1 if x not in d0][:3] + [x for x in d0 if x not in d1][:3]
        out.violate('section-depends-on-previous-file:%s:%s:%s' % (what.replace(' ', '-'), case['stmt'].split('\t')[1], cpu.lower()),
                    '%s: the section gives another %s than alone; differing diagnostics %s' % (tag, what, diff))
        return
    out.obs['files_equal_to_solo'] += 1
    out.obs['invocations'] += 2
    out.sets['family_settings'].add(case['stmt'].split('\t')[1])
    out.nontrivial = True
    out.sig = ('family', tag)


MAX_MNEMONICS = 70


def run_trans(case, ctx):
    out = ctx.out
    rng = ctx.rng
    prog = corpus.Prog(case['prog'])
    cpu = case['cpu']
    lines = vocabulary(prog).get(cpu, [])
    by_mn = {}
    for l in lines:
        by_mn.setdefault(l.split()[0].lower(), []).append(l)
    mns = sorted(by_mn)
    if len(mns) > MAX_MNEMONICS:
        mns = sorted(rng.sample(mns, MAX_MNEMONICS))
    reps = [rng.choice(by_mn[m]) for m in mns]
    tail = '\tend\n' if case.get('end') else ''
    tag = '%s/%s%s' % (prog.name, cpu, '/END' if tail else '')
    out.sample = {'section': tag, 'mnemonics': len(mns)}
    flags = [f for f in prog.flags]
    os.makedirs(ctx.path('t'), exist_ok=True)
    os.makedirs(ctx.path('inc'), exist_ok=True)
    prog.stage(ctx.path('inc'))         # include files the statements may refer to
    # ---- solo references
    solo = []
    keep = []
    for i, l in enumerate(reps):
        name = 't/s%03d.asm' % i
        ctx.write(name, '\tcpu\t%s\n%s\n%s' % (cpu, l, tail))
        r, ps, dg, nf = run_set(ctx, [name], flags, ['inc'], 'solo')
        if r.timed_out:
            out.inconc('timeout: solo')
            return
        if r.san:
            out.violate(r.san, '%s solo %r: %s' % (tag, l, r.err.decode('latin-1')[-400:]))
            return
        if r.rc == 3:
            continue                    # a fatal error ends the whole invocation: not usable in a sequence
        keep.append(i)
        solo.append((ps[name], [(d[0], d[1]) for d in dg[name]]))
    if len(keep) < 2:
        out.obs['trans_sections_too_small'] += 1
        return
    # ---- every ordered pair (i, j) as two consecutive files
    seq = []
    for a in range(len(keep)):
        for b in range(len(keep)):
            seq += [a, b]
    srcs = []
    for k, a in enumerate(seq):
        name = 't/f%05d.asm' % k
        ctx.write(name, '\tcpu\t%s\n%s\n%s' % (cpu, reps[keep[a]], tail))
        srcs.append(name)
    # (the tools accept at most 256 parameters: invocations of 200 files, each beginning with the last file of the one before)
    ps, dg = {}, {}
    CH = 200
    for c0 in range(0, len(srcs), CH - 1):
        part = srcs[c0:c0 + CH]
        r, ps_, dg_, nf = run_set(ctx, part, flags, ['inc'], 'multi')
        if r.timed_out:
            out.inconc('timeout: multi')
            return
        if r.san:
            out.violate(r.san, '%s multi-file: %s' % (tag, r.err.decode('latin-1')[-400:]))
            return
        if nf < len(part):
            out.violate('run-stops-early', '%s: %d one-statement files given, the run ended after %d (status %s); none of them fails fatally alone' % (
                tag, len(part), nf, r.rc))
            return
        for i_, n_ in enumerate(part):
            if i_ > 0 or c0 == 0:
                ps[n_], dg[n_] = ps_[n_], dg_[n_]
        out.obs['invocations'] += 1
    bad = 0
    for k, a in enumerate(seq):
        p0, d0 = solo[a]
        name = srcs[k]
        d1 = [(d[0], d[1]) for d in dg[name]]
        if ps[name] != p0 or d1 != d0:
            prev = reps[keep[seq[k - 1]]] if k else None
            what = 'code file' if ps[name] != p0 else 'diagnostics'
            out.violate('statement-depends-on-previous-file:%s:%s:%s->%s' % (what.replace(' ', '-'), cpu.lower(), (prev or '?').split()[0].lower() if prev else '?',
                                                                             reps[keep[a]].split()[0].lower()),
                        '%s: file %r assembled right behind file %r gives %s %s, alone %s' % (
                            tag, reps[keep[a]].strip(), (prev or '').strip(), what,
                            (ps[name] or b'')[-12:].hex() if what == 'code file' else d1, (p0 or b'')[-12:].hex() if what == 'code file' else d0))
            bad += 1
            if bad >= 3:
                break
    out.obs['file_transitions_checked'] += len(seq) - 1
    out.obs['files_equal_to_solo'] += len(seq) - bad
    out.obs['invocations'] += 1
    out.sets['trans_sections'].add(tag)
    out.nontrivial = True
    out.sig = ('trans', tag, len(keep))


def stage(ctx, prog, sub):
    d = ctx.path(sub)
    os.makedirs(d, exist_ok=True)
    prog.stage(d)
    return os.path.join(sub, prog.name + '.asm')


def run_set(ctx, srcs, flags, subdirs, tag, outnames=None):
    """run asl on the list of sources; returns (Run, {src: p bytes or None}, {src: [diagnostic tuples]})"""
    tname = ctx.path('trace_%s.log' % tag)
    if os.path.exists(tname):
        os.unlink(tname)
    pname = {s: (outnames[i] if outnames else s[:-4] + '.p') for i, s in enumerate(srcs)}
    if outnames:
        os.makedirs(ctx.path('out'), exist_ok=True)
        flags = list(flags)
        for o in outnames:
            flags += ['-o', o]
    for s in srcs:
        p = ctx.path(pname[s])
        if os.path.exists(p):
            os.unlink(p)
    inc = []
    for sd in subdirs:
        inc += ['-i', sd]
    r = ctx.run('asl', list(srcs) + list(flags) + inc + ['-i', corpus.include_dir(), '-q'],
                env={'ASL_VERIF_TRACE': tname}, timeout=180)
    ps = {s: ctx.read(pname[s]) for s in srcs}
    diags = {s: [] for s in srcs}
    try:
        with open(tname, encoding='latin-1') as f:
            tr = asl.parse_trace(f.read())
    except OSError:
        tr = []
    cur = []
    fi = 0
    for e in tr:
        if e['k'] == 'D':
            cur.append((e['num'], e['class'], e['pos']))
        elif e['k'] == 'F':
            # F file=<name as given>
            if fi < len(srcs):
                diags[srcs[fi]] = cur
            cur = []
            fi += 1
    if cur and fi < len(srcs):
        diags[srcs[fi]] = cur
    return r, ps, diags, fi


def run_case(case, ctx):
    out = ctx.out
    rng = ctx.rng
    progs = corpus.programs()
    byflags = {}
    for p in progs:
        byflags.setdefault(tuple(p.flags), []).append(p)
    byname = {p.name: p for p in progs}
    kind = case['kind']
    if kind == 'trans':
        return run_trans(case, ctx)
    if kind == 'family':
        return run_family(case, ctx)
    if kind == 'pair':
        a = byname[case['first']] if 'first' in case else rng.choice(progs)
        group = byflags[tuple(a.flags)]
        b = rng.choice(group)
        seq = [('prog', a), ('prog', b)]
        flags = list(a.flags)
    elif kind == 'gen':
        b = byname[case['succ']] if 'succ' in case else rng.choice(progs)
        seq = [('gen', None), ('prog', b)]
        flags = list(b.flags)
    elif kind == 'gen2':
        cpu2 = rng.choice(G_CPUS)
        tb = '\tcpu\t%s\n' % cpu2 + rng.choice(SENSITIVE_SUCC).replace('{d}', SUCC_DATA[cpu2])
        b = progs[0]
        seq = [('gen', None), ('text', tb)]
        flags = []
    elif kind == 'vocab':
        a = rng.choice(progs)
        b = a if rng.random() < 0.6 else rng.choice(byflags[tuple(a.flags)])
        ta, tb = vocab_file(rng, a), vocab_file(rng, b)
        if ta is None or tb is None:
            out.obs['vocab_cases_without_vocabulary'] += 1
            return
        seq = [('text', ta), ('text', tb)]
        flags = list(a.flags)
    else:
        b = rng.choice(progs)
        group = byflags[tuple(b.flags)]
        a = rng.choice(group)
        seq = [('prog', a), ('gen', None), ('prog', b)]
        flags = list(b.flags)
    srcs = []
    subdirs = []
    descr = []
    last_prog_text = b.source().decode('latin-1')
    if kind == 'vocab':
        out.sets['vocab_programs'].add(a.name)
    for i, (k, p) in enumerate(seq):
        sub = 'd%d' % i
        if k == 'prog':
            srcs.append(stage(ctx, p, sub))
            subdirs.append(sub)
            descr.append(p.name)
        elif k == 'text':
            os.makedirs(ctx.path(sub), exist_ok=True)
            ctx.write(os.path.join(sub, 'zzvoc.asm'), p)
            srcs.append(os.path.join(sub, 'zzvoc.asm'))
            descr.append('V:' + p.replace('\n', ' / ').replace('\t', ' ')[:200])
        else:
            os.makedirs(ctx.path(sub), exist_ok=True)
            text = gen_pred(rng, last_prog_text)
            ctx.write(os.path.join(sub, 'zzgen.asm'), text)
            srcs.append(os.path.join(sub, 'zzgen.asm'))
            descr.append('G:' + text.replace('\n', ' / ')[:200])
    # one -o name per source ("the names will be assigned, one after the other, to the source files"), with and without a listing
    onames = None
    if kind in ('pair', 'gen', 'triple') and rng.random() < 0.3:
        onames = ['out/x%d.p' % i for i in range(len(srcs))]
        if rng.random() < 0.6:
            flags = flags + ['-L']
    out.sample = {'sequence': descr, 'flags': flags, 'output_names': onames}
    # solo references
    solo = {}
    for si_, s in enumerate(srcs):
        r, ps, dg, nf = run_set(ctx, [s], flags, subdirs, 'solo', outnames=[onames[si_]] if onames else None)
        if r.timed_out:
            out.inconc('timeout: solo')
            return
        if r.san:
            out.violate(r.san, 'solo %s: %s' % (s, r.err.decode('latin-1')[-400:]))
            return
        solo[s] = (r.rc, ps[s], dg[s])
    r, ps, dg, nf = run_set(ctx, srcs, flags, subdirs, 'multi', outnames=onames)
    if r.timed_out:
        out.inconc('timeout: multi')
        return
    if r.san:
        out.violate(r.san, 'multi %s: %s' % (descr, r.err.decode('latin-1')[-400:]))
        return
    if onames:
        out.obs['invocations_with_output_names'] += 1
    # expected status: a fatal (3) stops the run; else 2 if any solo failed; else 0
    exp_rc = 0
    stopped_at = None
    for i, s in enumerate(srcs):
        rc = solo[s][0]
        if rc == 3:
            exp_rc = 3
            stopped_at = i
            break
        if rc == 2:
            exp_rc = 2
        elif rc != 0:
            exp_rc = max(exp_rc, rc)
    tag = ' + '.join(d[:60] for d in descr)
    if r.rc != exp_rc:
        out.violate('status-differs-from-solo', '%s: multi-file status %s, solo statuses %s' % (tag, r.rc, [solo[s][0] for s in srcs]))
    for i, s in enumerate(srcs):
        if stopped_at is not None and i > stopped_at:
            break
        rc0, p0, d0 = solo[s]
        role = 'first' if i == 0 else 'successor'
        if ps[s] != p0:
            what = 'missing' if ps[s] is None else ('unexpected' if p0 is None else 'different')
            out.violate('code-file-%s-after-%s' % (what, 'generated' if seq[i - 1][0] in ('gen', 'text') and i else ('golden' if i else 'nothing')),
                        '%s: code file of %s (%s) is %s compared with its solo run; first diagnostics multi=%s solo=%s'
                        % (tag, s, role, what, dg[s][:3], d0[:3]))
        elif dg[s] != d0:
            out.violate('diagnostics-differ-from-solo', '%s: diagnostics of %s differ: multi=%s solo=%s' % (tag, s, dg[s][:4], d0[:4]))
        else:
            out.obs['files_equal_to_solo'] += 1
            if i > 0:
                out.sigs.add('%s->%s' % (descr[i - 1][:40] if seq[i - 1][0] == 'prog' else 'G%d' % (zlib.crc32(descr[i - 1].encode('latin-1', 'replace')) % 100000), descr[i]))
    out.obs['invocations'] += 1
    out.sets['successors'].add(descr[-1])
    if seq[0][0] == 'prog':
        out.sets['predecessors'].add(descr[0])
    out.nontrivial = True
