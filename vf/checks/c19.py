"""C19 — listing, debug map and share file state the facts of the code file.

Offline checker that joins three report files with the hook traces of the
same execution:
  listing  <-> emission trace (H3): every code-bearing listing group must show
               address = load address + phase and the bytes that were written
               for that source line; for generated programs every emitted chunk
               must be listed;
  listing symbol table, MAP symbol section, share file (C / Pascal / assembler)
           <-> final symbol dump (H1);
  MAP 'line:address' entries <-> traced chunk starts (segment, file, line, load address).
"""
import collections
import os
import re

from .. import asl, corpus, gen_prog

ID = 'C19'
LEVEL = 'exploration'
RULE = ('golden programs (every code generator) and generated programs (macros, include file, PHASE, several segments, long data lines, SHARED) x '
        'list radix {16, 8, 10, 2, 36} x share format {C, Pascal, assembler} with -L -g MAP; distinct = distinct (program, radix, share format); '
        'non-trivial = at least one code-bearing listing group and one symbol compared')
ASSUMPTIONS = ['listing column layout: "[ (n)] line/ address : code ... source", continuation lines "address : code"; numbers in the list radix',
               'for golden programs (which may switch listing off) only the listed groups are checked, completeness is demanded for generated programs',
               'units wider than one byte are shown as numbers; their byte order in the file is a per-program constant (either order accepted, but consistently)',
               'NoICE and Atmel debug formats are produced (crash/consistency) but not decoded']
MANIFEST = dict(
    category='exploration', design_ref='DESIGN.md §4 C19',
    technique='offline checker joining listing / MAP / share file with the recorded emission trace (hook H3) and final symbol dump (hook H1) of the same execution and, for generated programs, with the physical source lines',
    text='Held on the executions of this run: every code-bearing listing group showed the traced address (load + phase) and bytes in the requested radix, every integer symbol in the '
         'listing symbol table, the MAP symbol section and the share file carried its final value, and every MAP line:address entry named a traced chunk start.',
    note='Trusts the hook traces as neutral witness (C04 ties them to the code file). Float/string symbol values and the NoICE/Atmel line records are not decoded.')

RADIXES = [16, 8, 10, 2, 36]
SHARE = [('-c', 'c'), ('-p', 'pas'), ('-a', 'asm')]
DIGITS = '0123456789ABCDEFGHIJKLMNOPQRSTUVWXYZ'


def plan(tier, seed):
    cases = []
    names = corpus.names()
    if tier == 'quick':
        for i, n in enumerate(names):
            cases.append({'prog': n, 'radix': RADIXES[(i + seed) % len(RADIXES)], 'share': (i + seed) % 3})
        for i in range(200):
            cases.append({'gen': i})
    else:
        for n in names:
            for r in RADIXES:
                cases.append({'prog': n, 'radix': r, 'share': (len(cases) + seed) % 3})
        for i in range(7000):
            cases.append({'gen': i})
    return cases


def parse_num(s, radix):
    v = 0
    for ch in s:
        d = DIGITS.find(ch.upper())
        if d < 0 or d >= radix:
            raise ValueError(s)
        v = v * radix + d
    return v


GROUP_RE = re.compile(r'^(?:\((\d+)\)|   )\s*(\d+)/\s*([0-9A-Za-z]+) ([:R]) (.*)$')
CONT_RE = re.compile(r'^\s{9,}([0-9A-Za-z]+) ([:R]) (.*)$')
LISTLINESPACE = 20


def parse_listing(text, radix):
    """-> list of groups {inc, line, addr, units:[(str)], raw}"""
    groups = []
    cur = None
    for raw in text.split('\n'):
        if raw.startswith(' AS V') or not raw.strip():
            if raw.startswith(' AS V'):
                cur = None
            continue
        if raw.lstrip().startswith('Symbol Table') or raw.lstrip().startswith('Symboltabelle'):
            break
        m = GROUP_RE.match(raw)
        if m:
            inc, line, addr, flag, rest = m.groups()
            code = rest[:LISTLINESPACE]
            if code.startswith(('=', '(MACRO)', '<')) or code.lstrip().startswith(('=', '(', '[')):
                cur = None
                continue
            toks = code.split()
            widths = set(unit_width(radix, n) for n in (1, 2, 4))
            if toks and not all(len(t) in widths for t in toks):
                cur = None
                continue
            try:
                a = parse_num(addr, radix)
                for t in toks:
                    parse_num(t, radix)
            except ValueError:
                cur = None
                groups.append({'bad': raw})
                continue
            cur = {'inc': int(inc or 0), 'line': int(line), 'addr': a, 'units': toks, 'raw': raw, 'src': rest[LISTLINESPACE:], 'rows': [(a, list(toks))]}
            groups.append(cur)
            continue
        m = CONT_RE.match(raw)
        if m and cur is not None:
            addr, flag, rest = m.groups()
            toks = rest[:LISTLINESPACE].split()
            try:
                for t in toks:
                    parse_num(t, radix)
                cur['units'] += toks
                cur['rows'].append((parse_num(addr, radix), list(toks)))
            except ValueError:
                groups.append({'bad': raw})
            continue
        cur = None
    return groups


def unit_width(radix, nbytes):
    """number of digits AS uses for a unit of nbytes bytes in this radix"""
    v = (1 << (8 * nbytes)) - 1
    n = 0
    while v:
        v //= radix
        n += 1
    return n


def units_to_bytes(units, radix, order):
    """decode listing tokens into bytes; token width tells how many bytes a token holds"""
    w = {unit_width(radix, n): n for n in (4, 2, 1)}
    out = bytearray()
    for t in units:
        n = w.get(len(t))
        if n is None:
            return None
        v = parse_num(t, radix)
        if v >= (1 << (8 * n)):
            return None          # fits the digit count but not the unit: not a code field
        out += v.to_bytes(n, order)
    return bytes(out)


def run_case(case, ctx):
    out = ctx.out
    rng = ctx.rng
    if 'prog' in case:
        prog = corpus.Prog(case['prog'])
        prog.stage(ctx.dir)
        src = prog.name + '.asm'
        flags = [f for f in prog.flags if f not in ('-c', '-p', '-a')] + ['-i', corpus.include_dir()]
        radix = case['radix']
        share = SHARE[case['share']]
        complete = False
        ptxt = prog.source().decode('latin-1').lower()
        # one target and no byte-order switch: the code file has one byte order for multi-byte listing units
        single_order = len(re.findall(r'^\S*\s+cpu\s', ptxt, re.M)) <= 1 and 'endian' not in ptxt
        tag = '%s radix %d' % (prog.name, radix)
        base = prog.name
    else:
        text, inc = gen_listing_program(rng)
        src = 'g.asm'
        ctx.write(src, text)
        ctx.write('g_inc.inc', inc)
        os.makedirs(ctx.path('sub'), exist_ok=True)
        ctx.write('sub/g_inc.inc', inc.replace('7,8', '9,10,11') + inc.split('\n')[0] + '\n')
        flags = []
        radix = rng.choice(RADIXES)
        share = rng.choice(SHARE)
        complete = True
        single_order = True
        tag = 'generated #%d radix %d' % (ctx.idx, radix)
        base = 'g'
    out.sample = {'program': tag, 'share': share[1]}
    args = flags + ['-L', '-g', 'MAP', share[0], '-shareout', base + '.shr']
    lower = rng.random() < 0.25
    if lower:
        args += ['-h']           # hexadecimal digits in lower case: the reports must still state numbers
    if radix != 16:
        args += ['-LISTRADIX', str(radix)]
    a = asl.assemble(ctx, src, args, out=base + '.p', trace=True, timeout=180)
    if a.run.timed_out:
        out.inconc('timeout')
        return
    if a.run.san:
        out.violate(a.run.san, '%s: %s' % (tag, a.run.err.decode('latin-1')[-500:]))
        return
    if a.rc != 0:
        out.violate('program-fails-with-report-options', '%s: rc=%s %s' % (tag, a.rc, a.run.text()[-300:]))
        return
    lst = (ctx.read(base + '.lst') or b'').decode('latin-1')
    mp = (ctx.read(base + '.map') or b'').decode('latin-1')
    shr = (ctx.read(base + '.shr') or b'').decode('latin-1')
    last = max([int(e['pass']) for e in a.trace if e['k'] == 'P'] or [1])
    ev = [e for e in a.trace if e['k'] == 'E' and int(e['pass']) == last]
    syms = {}
    for e in a.trace:
        if e['k'] == 'S' and e['sect'] == -1 and e['typ'] == 'I' and not (e['mask'] & ((1 << 6) | (1 << 8))):
            # bit- and register-typed symbols are displayed in a target-specific notation: not compared
            syms[e['name']] = int(e['val'], 16)
    # ---- listing groups against the trace
    groups = parse_listing(lst, radix)
    if complete:
        # the line numbers themselves (listing, and through the trace the MAP): a statement whose text occurs exactly once in the main source
        # and exactly once in the listing must be listed under the number of the physical line it stands on
        norm = lambda t: ' '.join(t.split(';')[0].split())
        srcl = [norm(x) for x in text.split('\n')]
        cnt_src = collections.Counter(srcl)
        cnt_lst = collections.Counter(norm(g.get('src', '')) for g in groups if 'bad' not in g)
        for g in groups:
            if 'bad' in g or g['inc'] != 0:
                continue
            t = norm(g.get('src', ''))
            if t and cnt_src.get(t) == 1 and cnt_lst.get(t) == 1:
                true_line = srcl.index(t) + 1
                if g['line'] != true_line:
                    out.violate('listing:line-number-wrong', '%s: statement %r stands on line %d of the source, the listing numbers it %d' % (tag, t, true_line, g['line']))
                    break
                out.obs['listing_line_numbers_checked'] += 1
    by_line = {}
    for e in ev:
        by_line.setdefault(int(e['line']), []).append(e)
    used = set()
    order_seen = {}
    ngroups = 0
    for g in groups:
        if 'bad' in g:
            # a code column that is not a number in the list radix: an annotation (e.g. 'ALL' behind RESTORE) if the line emitted nothing, else a defect
            mb = GROUP_RE.match(g['bad'])
            try:
                baddr = parse_num(mb.group(3), radix) if mb else None
            except ValueError:
                baddr = -1
            if mb and (baddr == -1 or any(((int(e['addr'], 16) + int(e['phase'], 16)) & 0xffffffffffffffff) == baddr
                                          for e in by_line.get(int(mb.group(2)), []))):
                out.violate('listing:number-not-in-list-radix', '%s: listing line %r does not parse in radix %d' % (tag, g['bad'][:70], radix))
                break
            continue
        if not g['units']:
            continue
        ngroups += 1
        cands = by_line.get(g['line'], [])
        hit = None
        for e in cands:
            eaddr = (int(e['addr'], 16) + int(e['phase'], 16)) & 0xffffffffffffffff
            if eaddr != g['addr']:
                continue
            data = bytes.fromhex(e['hex'])
            orders = []
            for order in ('big', 'little'):
                b = units_to_bytes(g['units'], radix, order)
                if b is not None and (b == data or (len(b) < len(data) and data.startswith(b))):
                    orders.append(order)
            if orders:
                hit = (e, orders)
                break
        if hit:
            used.add(id(hit[0]))
            # every continuation row states the address of its first unit
            gran_ = max(1, int(hit[0].get('gran', 1)))
            wmap = {unit_width(radix, n): n for n in (4, 2, 1)}
            pos = 0
            for ra, rtoks in g['rows']:
                if ra != g['addr'] + pos // gran_:
                    out.violate('listing:continuation-address-wrong', '%s: line %d: the row %s is listed at %#x, its first unit lies at %#x (group starts at %#x)' % (
                        tag, g['line'], rtoks[:4], ra, g['addr'] + pos // gran_, g['addr']))
                    break
                pos += sum(wmap.get(len(t), 1) for t in rtoks)
            else:
                out.obs['listing_rows_address_checked'] += len(g['rows'])
            if len(hit[1]) == 1:
                # the group reads differently in the two byte orders: it tells which one this program's code file uses
                order_seen.setdefault(hit[1][0], (g['line'], g['addr'], g['units'][:4]))
            out.obs['listing_groups_matched'] += 1
            continue
        # classify the miss
        if not cands:
            # listing line numbers inside macro expansions refer to the body line: look the bytes up by address only
            alt = [e for e in ev if ((int(e['addr'], 16) + int(e['phase'], 16)) & 0xffffffffffffffff) == g['addr']]
            ok = False
            for e in alt:
                data = bytes.fromhex(e['hex'])
                for order in ('big', 'little'):
                    b = units_to_bytes(g['units'], radix, order)
                    if b is not None and (b == data or (len(b) < len(data) and data.startswith(b))):
                        ok = True
                        used.add(id(e))
            if ok:
                out.obs['listing_groups_matched_by_address'] += 1
                continue
            if not complete:
                # golden sources contain statements that put a word into the code column (RESTORE: ALL, MACEXP_DFT: NONE ...),
                # which may read as a number in a high radix; a line that emitted nothing at all is taken for such an annotation
                out.obs['listing_annotations_skipped'] += 1
                continue
            out.violate('listing:code-line-without-emission', '%s: listing shows code for line %d at %s that was not emitted there: %r' % (tag, g['line'], hex(g['addr']), g['raw'][:80]))
        elif all(((int(e['addr'], 16) + int(e['phase'], 16)) & 0xffffffffffffffff) != g['addr'] for e in cands):
            out.violate('listing:address-wrong', '%s: line %d listed at %#x, emitted at %s: %r' % (
                tag, g['line'], g['addr'], [hex(int(e['addr'], 16) + int(e['phase'], 16)) for e in cands][:3], g['raw'][:80]))
        else:
            out.violate('listing:bytes-wrong', '%s: line %d at %#x lists %s, emitted %s' % (tag, g['line'], g['addr'], g['units'][:8], [e['hex'][:24] for e in cands][:2]))
        break
    if len(order_seen) == 2 and single_order:
        out.violate('listing:unit-byte-order-inconsistent', '%s: one target, one byte order in the code file, yet the listing shows line %s in the file\'s order and line %s byte-reversed' % (
            tag, order_seen['big' if order_seen['big'][0] <= order_seen['little'][0] else 'little'], order_seen['little' if order_seen['big'][0] <= order_seen['little'][0] else 'big']))
    elif order_seen and single_order:
        out.obs['programs_with_unit_byte_order_decided'] += 1
    if complete:
        for e in ev:
            if id(e) not in used and int(e['len']) > 0:
                out.violate('listing:emitted-line-not-listed', '%s: line %s emitted %s at %s but the listing has no such group' % (tag, e['line'], e['hex'][:20], e['addr']))
                break
    # ---- listing symbol table
    st = lst.split('Symbol Table', 1)
    nsym = 0
    if len(st) == 2:
        for m in re.finditer(r'[ *]([A-Za-z_][A-Za-z0-9_.]*) :\s+([0-9A-Za-z]+) ([-A-Z]) \|', st[1]):
            name, val = m.group(1), m.group(2)
            if name not in syms or name in ('VERSION',):
                continue
            try:
                v = parse_num(val, radix)
            except ValueError:
                out.violate('listing:symbol-value-not-in-list-radix', '%s: symbol table entry %s : %s' % (tag, name, val))
                break
            if v != syms[name]:
                out.violate('listing:symbol-value-wrong', '%s: symbol table says %s = %s (radix %d), final value is %#x' % (tag, name, val, radix, syms[name]))
                break
            nsym += 1
    out.obs['listing_symbols_checked'] += nsym
    # ---- MAP file
    seg = None
    fil = None
    segnames = {'CODE': 1, 'DATA': 2, 'IDATA': 3, 'XDATA': 4, 'YDATA': 5, 'BITDATA': 6, 'IO': 7, 'REG': 8, 'ROMDATA': 9, 'EEDATA': 10}
    starts = set()
    for e in ev:
        starts.add((int(e['seg']), e.get('file', ''), int(e['line']), int(e['addr'], 16)))
    for e in a.trace:
        # reservations: a record boundary whose new start lies beyond the current program counter
        if e['k'] == 'N' and int(e['pass']) == last and 'pc' in e and int(e['start'], 16) != int(e['pc'], 16):
            starts.add((int(e['seg']), e.get('file', ''), int(e['line']), int(e['pc'], 16)))
    # a chunk may be split (BINCLUDE) or merged; line info is per code-bearing statement: accept the start of any chunk of that line
    insym = False
    nmap = 0
    for raw in mp.split('\n'):
        if raw.startswith('Segment '):
            seg = segnames.get(raw.split()[1])
            insym = False
            continue
        if raw.startswith('File '):
            fil = raw[5:].strip()
            continue
        if raw.startswith('Symbols in Segment'):
            insym = True
            continue
        if raw.startswith('Info for Section'):
            insym = False
            seg = None
            continue
        if insym:
            f = raw.split()
            if len(f) >= 3 and f[1] == 'Int' and f[0] in syms:
                try:
                    v = int(f[2], 16)
                except ValueError:
                    continue
                if v != syms[f[0]]:
                    out.violate('map:symbol-value-wrong', '%s: MAP says %s = %s, final value is %#x' % (tag, f[0], f[2], syms[f[0]]))
                    break
                out.obs['map_symbols_checked'] += 1
            continue
        if seg is not None and fil is not None:
            for m in re.finditer(r'(\d+):([0-9A-Fa-f]+)', raw):
                line, addr = int(m.group(1)), int(m.group(2), 16)
                fb = fil          # (the MAP and the trace name a file by the same string: the name it was opened under)
                if (seg, fb, line, addr) in starts:
                    nmap += 1
                elif any(s_ == seg and l_ == line and a_ == addr and os.path.basename(f_) == os.path.basename(fb) for s_, f_, l_, a_ in starts):
                    other = [f_ for s_, f_, l_, a_ in starts if s_ == seg and l_ == line and a_ == addr][0]
                    out.violate('map:entry-under-wrong-file', '%s: MAP lists %d:%X under file %s, that line/address belongs to %s' % (tag, line, addr, fb, other))
                    break
                elif any(s_ == seg and f_ == fb and l_ == line for s_, f_, l_, a_ in starts):
                    # that line of that file did produce code or a reservation in this segment, but nowhere at the stated address
                    out.violate('map:address-wrong-for-line', '%s: MAP entry %d:%X (file %s, segment %d), but that line starts at %s' % (
                        tag, line, addr, fb, seg, sorted(hex(a_) for s_, f_, l_, a_ in starts if s_ == seg and f_ == fb and l_ == line)[:4]))
                    break
                else:
                    # statements of length zero (ALIGN that is already aligned) also get an entry: nothing to compare
                    out.obs['map_entries_for_zero_length_statements'] += 1
    out.obs['map_line_entries_checked'] += nmap
    # ---- share file
    nsh = 0
    for raw in shr.split('\n'):
        m = None
        if share[1] == 'c':
            m = re.match(r'#define (\S+) (0x[0-9A-Fa-f]+|\d+)\s*$', raw)
        elif share[1] == 'pas':
            m = re.match(r'(\S+) = (\$[0-9A-Fa-f]+|\d+);\s*$', raw)
        else:
            m = re.match(r'(\S+) (?:equ|EQU|=) (\$[0-9A-Fa-f]+|0x[0-9A-Fa-f]+|[0-9][0-9A-Fa-f]*[hH]|\d+)\s*$', raw)
        if not m:
            # an Intel-style hexadecimal constant has to begin with a digit: "name equ c000h" names another symbol, not a value
            m2 = re.match(r'(\S+) (?:equ|EQU|=) ([A-Fa-f][0-9A-Fa-f]*[hH])\s*$', raw) if share[1] == 'asm' else None
            if m2 and m2.group(1).upper() in syms:
                out.violate('share:value-is-not-a-number:asm', '%s: share file line %r: %r is a symbol name, not a constant (final value %#x)' % (
                    tag, raw, m2.group(2), syms[m2.group(1).upper()]))
                break
            continue
        name, val = m.group(1), m.group(2)
        if name.upper() not in syms:
            continue
        if val.startswith('0x'):
            v = int(val[2:], 16)
        elif val.startswith('$'):
            v = int(val[1:], 16)
        elif val[-1] in 'hH':
            v = int(val[:-1], 16)
        else:
            v = int(val)
        if v != syms[name.upper()]:
            out.violate('share:symbol-value-wrong:%s' % share[1], '%s: share file line %r, final value is %#x' % (tag, raw, syms[name.upper()]))
            break
        nsh += 1
    out.obs['share_symbols_checked'] += nsh
    out.sets['radixes'].add(radix)
    out.sets['share_formats'].add(share[1])
    out.nontrivial = ngroups > 0 and (nsym + nmap) > 0
    out.sig = (tag, share[1])


def gen_listing_program(rng):
    cpu = rng.choice(['6502', 'z80', '8051', '6809', '68000', '8086'])
    bop, wop, rop, nop, _ = gen_prog.CPU_TABLE[cpu if cpu != '68000' else '68000']
    L = ['\tcpu\t%s' % cpu, '\torg\t%d' % rng.choice([0x100, 0x1000, 0x8000])]
    L += ['emit\tmacro\tpa,pb', '\t%s\tpa,pb' % bop, '\t%s\tpa+pb' % wop, '\tendm']
    names = []
    for i in range(rng.randrange(6, 30)):
        k = rng.randrange(9)
        if k == 0:
            n = 'lab%d' % i
            names.append(n)
            L.append('%s:\t%s' % (n, nop))
        elif k == 1:
            cnt = rng.randrange(1, 40)
            L.append('\t%s\t%s' % (bop, ','.join(str(rng.randrange(256)) for _ in range(cnt))))
        elif k == 2:
            L.append('\t%s\t%d' % (wop, rng.randrange(65536)))
            if rng.random() < 0.3:
                # one statement that emits more than the 512-byte output buffer holds
                if cpu in ('68000', '6809'):
                    L.append('\tdc.w\t[%d]%d' % (rng.choice([255, 256, 257, 300]), rng.randrange(0x100, 0xff00)))
                elif cpu in ('z80', '8051', '8086'):
                    L.append('\tdw\t%d dup (%d)' % (rng.choice([255, 256, 257, 300]), rng.randrange(0x100, 0xff00)))
        elif k == 3:
            L.append('\temit\t%d,%d' % (rng.randrange(100), rng.randrange(100)))
        elif k == 4:
            L.append('\tinclude\t"%s"' % rng.choice(['g_inc.inc', 'g_inc.inc', 'sub/g_inc.inc']))
        elif k == 5 and cpu != '68000':
            L.append('\tphase\t%d' % rng.choice([0x4000, 0x2000]))
            n = 'ph%d' % i
            names.append(n)
            L.append('%s:\t%s\t1,2' % (n, bop))
            L.append('\tdephase')
        elif k == 6:
            n = 'k%d' % i
            names.append(n)
            L.append('%s\tequ\t%d' % (n, rng.choice([rng.randrange(100000), rng.randrange(0xa000, 0x10000), rng.randrange(0xa0, 0x100), 0xffff, 0xa000])))
        elif k == 7:
            L.append('\trept\t%d' % rng.randrange(1, 4))
            L.append('\t%s' % nop)
            L.append('\tendm')
        else:
            L.append('\t%s\t%d' % (rop, 2 * rng.randrange(1, 9)))
    if names:
        sh = '\tshared\t%s' % ','.join(rng.sample(names, min(len(names), 5)))
        if rng.random() < 0.5:
            L.append(sh)
        else:
            L.insert(2, sh)         # export list at the top: the symbols are defined further down
    if rng.random() < 0.2:
        # one very long physical line (longer than any fixed-size read buffer): still ONE line for everything that counts lines
        L.insert(rng.randrange(2, len(L)), '; ' + 'x' * rng.choice([1020, 1021, 1022, 1023, 1024, 1150, 1151, 1300, 2047, 2048, 5000]))
    inc = '\t%s\n\t%s\t7,8\n' % (nop, bop)
    return '\n'.join(L) + '\n', inc
