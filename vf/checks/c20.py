"""C20 — diagnostics point at the offending source position.

A generated program (vf/model/diagpos.py) plants self-contained faulty lines at
known places of a main file, nested include files, macro / REPT / IRP / IRPN /
IRPC / WHILE bodies (nested; chains up to seven constructs deep), continuation lines and
EXPECT/ENDEXPECT blocks.  The model lists, in order, every diagnostic that has to
appear together with the position it has to name.  The same program is then
assembled twice by the real asl — native message format and -gnuerrors — under
random -x level, -n, -E target and one of (nothing, -w, -Werror); the messages found on the selected error
channel are parsed back into (file, line, construct chain, include chain) and
compared one by one with the model; the hook trace (D = issued, X = swallowed by
EXPECT) is compared as well.

What is asserted exactly / loosely (see model.expected_pos):
  * file name (base name), line of a plain statement, last physical line of a
    continued statement (assembler-usage.md), line of the INCLUDE statement in
    the GNU include chain: exact;
  * kind, name / iteration / argument and body line of every enclosing
    construct: exact (the property demands construct and body line, and a wrong
    iteration or argument names an error-free line);
  * the number that stands for a whole multi-line repetition in the enclosing
    text: any line of REPT..ENDM (manual silent; asl uses the ENDM line);
  * a macro call at file level: the call line or the line in the definition;
  * IRPN names its batch either by the first argument or by all of them;
  * REPT n(l) / WHILE n/l are printed without a blank before a nested construct
    ("REPT 1(12)IRP:2(4)"): tolerated by the parser and only counted;
  * columns (":col") are parsed and counted but not judged (manual silent);
  * -w ("suppress issue of warnings") only takes unswallowed warnings off the
    channel, -Werror only turns their class into error: EXPECT accounting (hook
    X events, 2130 reports), positions of everything else and the exit status
    (0 / 2 by error messages due) are the same model with and without them.
Not generated because the manual leaves the outcome open: continuation lines
inside bodies, macros called from another file than the defining one, a number
announced in EXPECT that occurs more than once in the block, undefined symbols
mixed with pass-1 errors or warnings, faults on the opening line of a construct.
"""
import os
import re

from .. import asl
from ..model import diagpos

ID = 'C20'
LEVEL = 'exploration'
REGISTERED = True
RULE = ('case = one generated program (4 targets; 1..6 files; faults: unknown mnemonic, operand count, range overflow, undefined symbol, '
        'documented warning; EXPECT blocks with occurring and absent numbers) assembled in native and -gnuerrors format under random '
        '-x 0..2 / -n / -E target / none, -w or -Werror; every expected diagnostic is one observation; distinct = distinct (format, fault kind, construct '
        'chain shape, include depth, continued, in-EXPECT, last-body-line) placement whose position was actually compared; '
        'a case is non-trivial if at least one diagnostic or one swallowed message was expected (the generator guarantees it)')
ASSUMPTIONS = ['every fault template yields exactly one diagnostic with the number tabulated in doc/error-messages.md',
               'English message catalogue (LANG=C)',
               'the hook trace (D/X events) is written next to the real output path and only used as a second witness']
MANIFEST = dict(
    category='exploration', design_ref='DESIGN.md §4 C20',
    technique='reference-model monitor: planted faults with known positions vs. the positions parsed back from the error channel '
              '(native and -gnuerrors) and from the diagnostic hook trace; EXPECT/ENDEXPECT modelled as take-away of announced numbers',
    text='Held on the executions of this run: for generated programs with faulty lines in main files, nested includes, macro/REPT/IRP/IRPN/IRPC/WHILE '
         'bodies (nested, also on the last body line), continuation lines and EXPECT blocks, under -x 0..2, -n, -gnuerrors, -w, -Werror and all -E targets, every '
         'diagnostic named the file, line, construct chain and include chain of the planted fault, no clean line was named, EXPECT swallowed exactly the '
         'announced numbers that occurred and ENDEXPECT reported every announced number that did not.',
    note='Numbers whose convention the manual leaves implicit (which line stands for a multi-line repetition, call line vs definition line of a macro) are '
         'accepted as sets; columns are not judged; continuation lines inside bodies and cross-file macro calls are not generated.')

CPU_LIST = ['6502', '6502', 'z80', '8051', '68000']
E_TARGETS = ['default', 'default', '!1', '!2', 'file', 'perfile']

MSG = {1200: 'unknown instruction', 1110: 'wrong number of operands', 1320: 'range overflow', 1010: 'symbol undefined',
       2130: 'expected error did not occur', 270: 'negative argument for DUP',
       60: 'distance of 0 not allowed for short jump (NOP created instead)'}


def plan(tier, seed):
    n = 500 if tier == 'quick' else 7000
    return [{'n': i} for i in range(n)]


# ---------------------------------------------------------------------------
# parsing the error channel

NATIVE_HEAD = re.compile(r'^> > > (?P<pos>\S.*?)(?::(?P<col>\d+))?: (?P<cls>error|warning)(?: #(?P<num>\d+))?: (?P<msg>.*)$')
FRAME_RE = re.compile(r"(?P<sp> ?)(?:REPT (?P<ri>\d+)\((?P<rl>\d+)\)|WHILE (?P<wi>\d+)/(?P<wl>\d+)|(?P<ik>IRPN|IRPC|IRP):(?P<ia>.*?)\((?P<il>\d+)\)(?= |$)"
                      r"|(?P<mn>[^\s()]+)\((?P<ml>\d+)\))")
FILE_RE = re.compile(r'^(?P<f>[^\s()]+)\((?P<n>\d+)\)')
GNU_INC1 = re.compile(r'^In file included from (?P<f>[^\s:]+):(?P<n>\d+)(?P<t>[,:])$')
GNU_INCN = re.compile(r'^\s+from (?P<f>[^\s:]+):(?P<n>\d+)(?P<t>[,:])$')
GNU_HEAD = re.compile(r'^(?P<f>[^\s:]+):(?P<n>\d+)(?::(?P<col>\d+))?(?P<w>: warning)?(?: #(?P<num>\d+))?: (?P<msg>.*)$')


def parse_native_pos(pos):
    """'g.asm(12) MAC(3) REPT 2(1)' -> (file, n0, [(kind, label, num)]) or None"""
    pos = pos.rstrip()
    m = FILE_RE.match(pos)
    if not m:
        return None
    frames = []
    i = m.end()
    while i < len(pos):
        fm = FRAME_RE.match(pos, i)
        if not fm or (not fm.group('sp') and not (frames and frames[-1][0] in ('REPT', 'WHILE'))):
            # REPT n(l) and WHILE n/l are written without a separator before a nested construct; tolerated
            return None
        if fm.group('ri'):
            frames.append(('REPT', int(fm.group('ri')), int(fm.group('rl'))))
        elif fm.group('wi'):
            frames.append(('WHILE', int(fm.group('wi')), int(fm.group('wl'))))
        elif fm.group('ik'):
            frames.append((fm.group('ik'), fm.group('ia'), int(fm.group('il'))))
        else:
            frames.append(('MACRO', fm.group('mn'), int(fm.group('ml'))))
        i = fm.end()
    return m.group('f'), int(m.group('n')), frames


def parse_native(text):
    out = []
    stray = []
    for line in text.split('\n'):
        if not line:
            continue
        m = NATIVE_HEAD.match(line)
        if m and parse_native_pos(m.group('pos')):
            f, n0, frames = parse_native_pos(m.group('pos'))
            out.append(dict(file=f, n0=n0, frames=frames, chain=None, col=m.group('col'), cls='W' if m.group('cls') == 'warning' else 'E',
                            num=int(m.group('num')) if m.group('num') else None, msg=m.group('msg'), extra=[], raw=line))
        elif line.startswith('> > > ') or line == '> > >':
            if out:
                out[-1]['extra'].append(line[6:])
            else:
                stray.append(line)
        else:
            stray.append(line)
    return out, stray


def parse_gnu(text, fnames):
    out = []
    stray = []
    chain = None
    for line in text.split('\n'):
        if not line:
            continue
        m = GNU_INC1.match(line)
        if m and m.group('f') in fnames:
            chain = [(m.group('f'), int(m.group('n')))]
            continue
        m = GNU_INCN.match(line)
        if m and chain is not None and m.group('f') in fnames:
            chain.append((m.group('f'), int(m.group('n'))))
            continue
        m = GNU_HEAD.match(line)
        if m and m.group('f') in fnames:
            out.append(dict(file=m.group('f'), n0=int(m.group('n')), frames=None, chain=chain or [], col=m.group('col'),
                            cls='W' if m.group('w') else 'E', num=int(m.group('num')) if m.group('num') else None,
                            msg=m.group('msg'), extra=[], raw=line))
            chain = None
            continue
        if out:
            out[-1]['extra'].append(line)
        else:
            stray.append(line)
    return out, stray


# ---------------------------------------------------------------------------
# comparison

def base(name):
    return name.rsplit('/', 1)[-1]


def label_ok(kind, want, got):
    if kind == 'MACRO':
        return got.lower() == want.lower()
    if kind in ('REPT', 'WHILE'):
        return got == want
    if kind == 'IRPC':
        return got == "'%s'" % want
    if kind == 'IRP':
        return got == want[0]
    if kind == 'IRPN':
        # the manual does not say how a batch is named: first argument or all of them
        return got == want[0] or got == ','.join(want)
    return False


def compare_pos(fmt, exp, obs, frames_model, conv=None):
    """-> list of (key, detail)"""
    bad = []
    want = exp['pos']
    # the manual does not say whether a path is shown: base names are compared
    if base(obs['file']) != base(want['file']):
        bad.append(('%s:file' % fmt, 'file %r, expected %r' % (obs['file'], want['file'])))
        return bad
    if obs['n0'] not in want['n0']:
        bad.append(('%s:line:%s' % (fmt, want['site']), 'line %d, expected %s' % (obs['n0'], sorted(want['n0']))))
    elif conv is not None and len(want['n0']) > 1:
        if want['site'] == 'repetition-site':
            conv.add('repetition at file level is named by its %s' % ('ENDM line' if obs['n0'] == max(want['n0']) else
                                                                      'opening line' if obs['n0'] == min(want['n0']) else 'inner line'))
        else:
            conv.add('macro at file level is named by the %s' % ('call line' if obs['n0'] == frames_model[0].site_hi else 'definition line'))
    if fmt == 'gnu':
        wc = want['chain']
        oc = obs['chain']
        if len(wc) != len(oc) or any(base(o[0]) != base(w[0]) for o, w in zip(oc, wc)):
            bad.append(('gnu:include-chain:files', 'include chain %s, expected files %s' % (oc, [w[0] for w in wc])))
        elif any(o[1] not in w[1] for o, w in zip(oc, wc)):
            bad.append(('gnu:include-chain:line', 'include chain %s, expected %s' % (oc, [(w[0], sorted(w[1])) for w in wc])))
        return bad
    wf = want['frames']
    of = obs['frames']
    if [k for k, _, _ in wf] != [k for k, _, _ in of]:
        bad.append(('native:chain-shape', 'construct chain %s, expected %s' % ([k for k, _, _ in of], [k for k, _, _ in wf])))
        return bad
    for i, ((k, lab, nums), (_, olab, onum)) in enumerate(zip(wf, of)):
        inner = i == len(wf) - 1
        if conv is not None:
            if not inner and len(nums) > 1 and onum in nums:
                conv.add('repetition inside %s is named by its %s' % (k if k == 'MACRO' else 'a repetition',
                         'ENDM line' if onum == max(nums) else 'opening line' if onum == min(nums) else 'inner line'))
            if k == 'IRPN' and len(lab) > 1 and label_ok(k, lab, olab):
                conv.add('IRPN batch named by %s' % ('all arguments' if ',' in olab else 'first argument'))
        if not label_ok(k, lab, olab):
            lastline = (inner and exp['ctx']['last_body_line']) or (not inner and max(nums) == frames_model[i].body_last)
            if k in ('IRP', 'IRPN', 'IRPC') and lastline:
                # one failure kind: the step back from 'already hopped to the next argument' went wrong
                key = 'native:%s:last-body-line-names-wrong-argument' % k
            else:
                key = 'native:%s:%s' % (k, {'MACRO': 'name', 'REPT': 'iteration', 'WHILE': 'iteration'}.get(k, 'argument'))
            bad.append((key, '%s names %r, expected %r' % (k, olab, lab)))
        if onum not in nums:
            bad.append(('native:%s:%s' % (k, 'body-line' if inner else 'site-line'),
                        '%s line %d, expected %s' % (k, onum, sorted(nums))))
    return bad


def run_one(ctx, out, main, files, events, swallowed, mode, fmt, xlev, numeric, target, tagbase, wmode=None):
    opts = []
    # -w is documented as "suppress issue of warnings" and -Werror as "treat warnings as errors": the first only takes the
    # unswallowed warnings off the channel, the second only changes their class; which message is ticked off by EXPECT, what
    # ENDEXPECT reports, where the remaining messages point and (for -w) the exit status stay what they are without the option.
    # (-w together with -Werror: precedence not documented, not generated.)
    if wmode == '-w':
        events = [e for e in events if e['cls'] != 'W']
        opts.append('-w')
    elif wmode == '-Werror':
        events = [dict(e, cls='E') for e in events]
        opts.append('-Werror')
    exp_rc = 2 if any(e['cls'] == 'E' for e in events) else 0
    if fmt == 'gnu':
        opts.append('-gnuerrors')
    opts += ['-x'] * xlev
    if numeric:
        opts.append('-n')
    if target == 'file':
        opts += ['-E', 'errs.log']
    elif target in ('!1', '!2'):
        opts += ['-E', target]
    elif target == 'perfile':
        opts += ['-E']
    tag = '%s [asl %s %s]' % (tagbase, main.name, ' '.join(opts))
    for stale in ('errs.log', main.name.rsplit('.', 1)[0] + '.log'):
        p = ctx.path(stale)
        try:
            os.unlink(p)
        except OSError:
            pass
    a = asl.assemble(ctx, main.name, opts, trace=True)
    r = a.run
    if r.timed_out:
        out.inconc('timeout')
        return
    if r.san:
        out.violate(r.san, tag + ': ' + r.err.decode('latin-1')[-600:])
        return
    if r.rc not in (0, 2):
        out.violate('exit-status-%s' % r.rc, '%s: unexpected exit status %s: %s' % (tag, r.rc, r.text()[-300:]))
        return
    if r.rc != exp_rc:
        # status 2 exactly when an error message is due (assembler-usage.md, return codes); judged further below as well,
        # this key says that the STATUS moved (e.g. a source that is clean without -w fails with it)
        out.violate('exit-status:expected-%d-got-%d%s' % (exp_rc, r.rc, ':with-' + wmode.lstrip('-') if wmode else ''),
                    '%s: %d error messages are due, exit status %d' % (tag, sum(1 for e in events if e['cls'] == 'E'), r.rc))
    out.sets['warning_options'].add(wmode or 'none')
    so = r.out.decode('latin-1')
    se = r.err.decode('latin-1')
    chans = {'stdout': so, 'stderr': se,
             'errs.log': (ctx.read('errs.log') or b'').decode('latin-1'),
             'perfile': (ctx.read(main.name.rsplit('.', 1)[0] + '.log') or b'').decode('latin-1')}
    sel = {'default': 'stderr', '!2': 'stderr', '!1': 'stdout', 'file': 'errs.log', 'perfile': 'perfile'}[target]
    fnames = set(base(f.name) for f in files) | set(f.name for f in files)
    parse = (lambda t: parse_gnu(t, fnames)) if fmt == 'gnu' else parse_native
    obs, stray = parse(chans[sel])
    out.sets['E_targets'].add(target)
    out.sets['formats'].add(fmt)
    out.sets['x_levels'].add(str(xlev))
    out.sets['options'].add(' '.join(opts))
    # nothing may go to another channel
    for cn, txt in chans.items():
        if cn != sel and parse(txt)[0]:
            out.violate('channel:%s:diagnostics-on-another-channel' % target,
                        '%s: messages found on %s although -E selects %s' % (tag, cn, sel))
    if stray:
        out.violate('%s:unparsable-text-on-error-channel' % fmt, '%s: %r' % (tag, stray[:3]))
        return
    D = [e for e in a.trace if e['k'] == 'D']
    X = [e for e in a.trace if e['k'] == 'X']
    out.obs['diagnostics_on_channel'] += len(obs)
    out.obs['hook_D_events'] += len(D)
    out.obs['hook_X_events'] += len(X)
    for d in D:
        out.sets['error_numbers_seen'].add(d['num'])
    # ---- text against hook: same count, same numbers
    if len(obs) != len(D):
        out.violate('%s:channel-vs-hook-count' % fmt, '%s: %d messages on the channel, hook saw %d issued' % (tag, len(obs), len(D)))
        return
    for o, d in zip(obs, D):
        o['hnum'] = int(d['num'])
        if numeric and o['num'] != o['hnum']:
            out.violate('%s:-n:number-differs-from-issued' % fmt, '%s: %r but hook saw #%s' % (tag, o['raw'], d['num']))
        if not numeric and o['num'] is not None:
            out.violate('%s:number-shown-without--n' % fmt, '%s: %r' % (tag, o['raw']))
        if numeric and o['num'] is None:
            out.violate('%s:-n:number-missing' % fmt, '%s: %r' % (tag, o['raw']))
        hp = d['pos'].replace('\n', ' ')
        if fmt == 'native':
            if parse_native_pos(hp) != (o['file'], o['n0'], o['frames']):
                out.violate('native:channel-vs-hook-position', '%s: channel %r, hook pos %r' % (tag, o['raw'], d['pos']))
    # ---- swallowed by EXPECT
    exp_sw = [n for per in swallowed for n in per]
    got_sw = [int(x['num']) for x in X]
    if exp_sw != got_sw:
        extra = [n for n in got_sw if n not in exp_sw]
        missing = [n for n in exp_sw if n not in got_sw]
        if len(got_sw) > len(exp_sw):
            key = 'expect:swallowed-more-than-announced'
        elif len(got_sw) < len(exp_sw):
            key = 'expect:announced-message-not-swallowed'
        else:
            key = 'expect:swallowed-other-numbers'
        out.violate(key, '%s: EXPECT should swallow %s, swallowed %s (extra %s, missing %s)' % (tag, exp_sw, got_sw, extra, missing))
    out.obs['swallowed_checked'] += len(exp_sw)
    # ---- sequence of numbers
    en = [e['num'] for e in events]
    on = [o['hnum'] for o in obs]
    ncommon = 0
    while ncommon < len(en) and ncommon < len(on) and en[ncommon] == on[ncommon]:
        ncommon += 1
    if en != on:
        # one key per KIND of divergence (not per number pair / construct):
        #   missing-diagnostic:<fault kind>   a planted fault was passed over (the next observed message belongs to a later plant)
        #   diagnostic-for-unplanted-line     a message although nothing (more) was planted there
        #   other-diagnostic:<fault kind>     something else was reported in its place
        # family 'expect' when the divergence sits inside an EXPECT block or is about 'expected error did not occur'
        e = events[ncommon] if ncommon < len(en) else None
        o = obs[ncommon] if ncommon < len(on) else None
        if e is not None and (o is None or o['hnum'] in en[ncommon + 1:ncommon + 4]):
            what = 'missing-diagnostic:%s' % e['ctx']['fkind']
        elif o is not None and (e is None or e['num'] in on[ncommon + 1:ncommon + 4]):
            what = 'diagnostic-for-unplanted-line'
        else:
            what = 'other-diagnostic:%s' % e['ctx']['fkind']
        fam = 'expect' if ((e is not None and (e['ctx']['in_expect'] or e['num'] == 2130)) or (o is not None and o['hnum'] == 2130)) else 'sequence'
        if fam == 'expect' and e is not None and e['num'] == 2130 and what.startswith('missing'):
            what = 'announced-but-absent-number-not-reported'
        elif fam == 'expect' and o is not None and o['hnum'] == 2130 and what == 'diagnostic-for-unplanted-line':
            what = 'absent-report-without-announcement'
        msg = 'diagnostic %d of %d: expected %s, observed %s' % (
            ncommon + 1, len(en),
            ('#%d (%s) at %s in %s' % (e['num'], e['ctx']['fkind'], describe(e['pos']), e['ctx']['shape'])) if e is not None else 'nothing more',
            o['raw'] if o is not None else 'nothing more')
        out.violate('%s:%s' % (fam, what), '%s: %s' % (tag, msg))
    # ---- positions, one by one over the common prefix
    seen_keys = set()
    for e, o in zip(events[:ncommon], obs[:ncommon]):
        c = e['ctx']
        out.obs['positions_checked'] += 1
        out.sets['construct_chains'].add(c['shape'])
        out.sets['fault_kinds'].add(c['fkind'])
        out.sigs.add('%s|%s|%s|inc%d|%s%s%s%s' % (fmt, c['fkind'], c['shape'], c['incdepth'], 'cont' if c['cont'] else '',
                                                   'X' if c['in_expect'] else '', 'L' if c['last_body_line'] else '',
                                                   ('|' + wmode) if wmode and (c['in_expect'] or c['fkind'] in ('warn', 'absent')) else ''))
        if o['col']:
            out.obs['columns_seen'] += 1
        if fmt == 'native' and re.search(r'(REPT \d+\(\d+\)|WHILE \d+/\d+)[^\s:]', o['raw']):
            out.obs['rept_or_while_written_without_separator_before_nested_construct'] += 1
        want_cls = e['cls']
        if o['cls'] != want_cls:
            out.violate('%s:class' % fmt, '%s: %r, expected class %s' % (tag, o['raw'], want_cls))
        for key, detail in compare_pos(fmt, e, o, e['_frames'], out.sets['conventions_observed']):
            if key not in seen_keys:
                seen_keys.add(key)
                out.violate(key, '%s: #%d (%s) planted at %s in %s; reported as %r: %s'
                            % (tag, e['num'], c['fkind'], describe(e['pos']), c['shape'], o['raw'], detail))
        # extended levels
        if xlev == 0 and o['extra']:
            out.violate('%s:-x0:extra-lines' % fmt, '%s: %r followed by %r' % (tag, o['raw'], o['extra'][:2]))
        tok = e['fault'].get('token')
        if xlev == 2:
            blob = '\n'.join([o['msg']] + o['extra']).lower()
            if not o['extra']:
                out.violate('%s:-x2:source-line-missing' % fmt, '%s: %r has no source line' % (tag, o['raw']))
            elif tok and tok.lower() not in blob:
                out.violate('%s:-x2:source-line-is-another-line' % fmt, '%s: %r shows %r, planted line contains %r' % (tag, o['raw'], o['extra'], tok))
            else:
                out.obs['source_lines_checked'] += 1
    if fmt == 'native' and xlev >= 1 and en == on:
        # the assembler's own wording per number, learnt from the messages it issued in this very run
        word = {}
        for o in obs:
            if o['hnum'] != 2130:
                word.setdefault(o['msg'], set()).add(o['hnum'])
        groups = {}
        for e, o in zip(events, obs):
            if e['num'] == 2130 and o['extra']:
                groups.setdefault(e['fault']['group'], []).append((e, o))
        for gid, lst in groups.items():
            absent = sorted(e['fault']['absent'] for e, _ in lst)
            for e, o in lst:
                named = word.get(o['extra'][0])
                if named and len(named) == 1 and not (named & set(absent)):
                    out.violate('expect:absent-report-names-a-number-that-was-not-absent',
                                '%s: %r / %r although the announced numbers that did not occur are %s' % (tag, o['raw'], o['extra'][0], absent))
                elif named:
                    out.obs['absent_reports_identified'] += 1
    out.obs['runs_compared'] += 1


def describe(pos):
    s = '%s(%s)' % (pos['file'], '|'.join(str(x) for x in sorted(pos['n0'])))
    for k, lab, nums in pos['frames']:
        s += ' %s:%s(%s)' % (k, lab, '|'.join(str(x) for x in sorted(nums)))
    if pos['chain']:
        s += ' included from ' + ', '.join('%s:%s' % (f, '|'.join(str(x) for x in sorted(n))) for f, n in pos['chain'])
    return s


def run_case(case, ctx):
    out = ctx.out
    rng = ctx.rng
    cpu = rng.choice(CPU_LIST)
    mode = 'undef' if rng.random() < 0.15 else 'pass1'
    rich = ctx.tier == 'thorough' or rng.random() < 0.3
    g, main, events, swallowed = diagpos.generate(rng, cpu, mode, rich)
    for f in g.files:
        ctx.write(f.name, f.text)
    out.sets['targets'].add(cpu)
    out.sets['modes'].add(mode)
    out.obs['files_generated'] += len(g.files)
    out.obs['expected_diagnostics'] += len(events)
    out.nontrivial = bool(events) or any(swallowed)
    out.sample = {'cpu': cpu, 'mode': mode, 'files': {f.name: f.text.split('\n')[:40] for f in g.files[:3]},
                  'expected': ['#%d %s' % (e['num'], describe(e['pos'])) for e in events[:12]],
                  'swallowed': swallowed}
    tagbase = 'case %d (%s, %s)' % (ctx.idx, cpu, mode)
    for fmt in ('native', 'gnu'):
        xlev = rng.choice([0, 0, 1, 2])
        numeric = rng.random() < 0.5
        target = rng.choice(E_TARGETS)
        wmode = rng.choice([None, None, None, None, None, '-w', '-w', '-Werror'])
        run_one(ctx, out, main, g.files, events, swallowed, mode, fmt, xlev, numeric, target, tagbase, wmode)
    out.sig = None
