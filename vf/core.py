"""Case runner, verdicts, evidence, replay bundles, known-findings matching.

A check module provides:
    ID, LEVEL ('exploration' ...), RULE (str), ASSUMPTIONS (list of str)
    plan(tier, seed) -> list of JSON-serialisable case dicts
    run_case(case, ctx) -> Outcome (see class Outcome)
Optional: FLAVOURS = ('san',) ; finish(agg) -> extra coverage keys
"""
import collections
import hashlib
import json
import multiprocessing
import os
import random
import re
import resource
import shutil
import signal
import subprocess
import sys
import time
import traceback

from . import build

ROOT = build.ROOT
WORK_ROOT = os.path.join(ROOT, '.work')
EVIDENCE_DIR = os.path.join(ROOT, 'evidence')
REPLAY_DIR = os.path.join(ROOT, 'replay')
KNOWN_FILE = os.path.join(ROOT, 'known_findings.json')

ASAN_OPTIONS = 'detect_leaks=0:abort_on_error=0:exitcode=99:allocator_may_return_null=1:handle_abort=1'
UBSAN_OPTIONS = 'print_stacktrace=1:halt_on_error=1:exitcode=98'
DEFAULT_TIMEOUT = 60.0

NWORKERS = int(os.environ.get('VERIF_JOBS', '16'))


def case_rng(seed, pid, idx, salt=''):
    h = hashlib.sha256(('%s:%s:%s:%s' % (seed, pid, idx, salt)).encode()).digest()
    return random.Random(int.from_bytes(h[:8], 'big'))


# ---------------------------------------------------------------------------
# process execution

class Run:
    __slots__ = ('cmd', 'rc', 'sig', 'out', 'err', 'timed_out', 'wall', 'san', 'cpu')

    def __init__(self):
        self.cmd = None
        self.rc = None
        self.sig = None
        self.out = b''
        self.err = b''
        self.timed_out = False
        self.wall = 0.0
        self.cpu = 0.0
        self.san = None      # crash key or None

    def text(self):
        return self.out.decode('latin-1') + self.err.decode('latin-1')

    def describe(self):
        return {'cmd': self.cmd, 'rc': self.rc, 'sig': self.sig, 'timed_out': self.timed_out,
                'san': self.san,
                'stdout_tail': self.out.decode('latin-1')[-1500:],
                'stderr_tail': self.err.decode('latin-1')[-3000:]}


_FRAME_RE = re.compile(r'^\s*#(\d+) 0x[0-9a-f]+ in (\S+) (\S+?)(?::(\d+))?(?::\d+)?\s*$', re.M)
_ASAN_RE = re.compile(r'ERROR: AddressSanitizer: (\S+)')
_UBSAN_RE = re.compile(r'^(\S+?):(\d+):(\d+): runtime error: (.*)$', re.M)


# generic string helpers of the tree: a report inside them is attributed to their caller (many call sites share them)
_HELPER_FILES = ('strutil.c', 'dynstr.c', 'nonzstring.c', 'strcomp.c', 'stringlists.c', 'nls.c')


def _repo_frame(text):
    """innermost stack frame that lies in the tree under test, string helpers skipped: (function, file)"""
    first = (None, None)
    stacks = 0
    for m in _FRAME_RE.finditer(text):
        if m.group(1) == '0':
            stacks += 1
            if stacks > 1:
                break          # only the stack of the faulting access
        func, path = m.group(2), m.group(3)
        base = os.path.basename(path)
        hit = path.startswith(build.REPO + '/') or (base.endswith(('.c', '.h')) and '/' not in path) or \
            (base.endswith('.c') and os.path.exists(os.path.join(build.REPO, base)))
        if hit:
            if first[0] is None:
                first = (func, base)
            if base not in _HELPER_FILES:
                return func, base
    return first


def crash_key(run):
    """Classify an execution: None if it ended normally, else a stable crash key."""
    err = run.err.decode('latin-1') + run.out.decode('latin-1')[-20000:]
    m = _ASAN_RE.search(err)
    if m:
        kind = m.group(1)
        if kind == 'SEGV' or kind == 'FPE' or kind == 'ABRT':
            pass
        func, base = _repo_frame(err[m.start():])
        if kind == 'stack-overflow':
            return 'crash:stack-overflow:%s@%s' % (func or '?', base or '?')
        return 'crash:%s:%s@%s' % (kind, func or '?', base or '?')
    m = _UBSAN_RE.search(err)
    if m:
        msg = m.group(4)
        cls = re.sub(r'[-+]?\d+', 'N', msg)
        cls = re.sub(r"'[^']*'", 'T', cls)
        cls = re.sub(r'\s+', '-', cls.strip())[:60]
        func, base = _repo_frame(err[m.start():])
        if not base:
            base = os.path.basename(m.group(1))
        return 'crash:ubsan-%s:%s@%s' % (cls, func or '?', base)
    if run.sig is not None:
        return 'crash:signal-%d' % run.sig
    return None


def run_proc(cmd, cwd, env_extra=None, stdin=None, timeout=DEFAULT_TIMEOUT, clean_env=True):
    r = Run()
    r.cmd = [str(c) for c in cmd]
    if clean_env:
        env = {'PATH': '/usr/bin:/bin', 'HOME': cwd, 'LC_ALL': 'C', 'LANG': 'C', 'TZ': 'UTC'}
    else:
        env = dict(os.environ)
    env['ASAN_OPTIONS'] = ASAN_OPTIONS
    env['UBSAN_OPTIONS'] = UBSAN_OPTIONS
    if env_extra:
        for k, v in env_extra.items():
            if v is None:
                env.pop(k, None)
            else:
                env[k] = v
    t0 = time.time()
    ru0 = resource.getrusage(resource.RUSAGE_CHILDREN)
    p = None
    for attempt in range(40):
        try:
            p = subprocess.Popen(r.cmd, cwd=cwd, env=env, stdin=subprocess.PIPE if stdin is not None else subprocess.DEVNULL,
                                 stdout=subprocess.PIPE, stderr=subprocess.PIPE, start_new_session=True)
            break
        except OSError as e:
            # the binary cannot be started (e.g. another check is relinking the shared build at this moment): this says nothing about the
            # property; wait for it, and if it stays away the case is a harness failure (exception -> exit 2), never a verdict
            last = e
            time.sleep(3)
    if p is None:
        raise RuntimeError('spawn failed: %s: %s' % (r.cmd[0], last))
    try:
        r.out, r.err = p.communicate(stdin, timeout=timeout)
    except subprocess.TimeoutExpired:
        r.timed_out = True
        try:
            os.killpg(p.pid, signal.SIGKILL)
        except OSError:
            pass
        try:
            r.out, r.err = p.communicate(timeout=10)
        except Exception:
            r.out, r.err = b'', b''
    r.wall = time.time() - t0
    # CPU seconds the child (and what it waited for) consumed: a worker runs one child at a time, so the delta is this child's
    ru1 = resource.getrusage(resource.RUSAGE_CHILDREN)
    r.cpu = (ru1.ru_utime - ru0.ru_utime) + (ru1.ru_stime - ru0.ru_stime)
    rc = p.returncode
    if rc is not None and rc < 0:
        r.sig = -rc
        r.rc = None
    else:
        r.rc = rc
    if r.timed_out:
        r.sig = None
    else:
        r.san = crash_key(r)
    return r


# ---------------------------------------------------------------------------
# outcomes

class Outcome:
    """Result of one case.

    violations: list of (key, message) — every key goes through known-findings matching
    inconclusive: list of reasons
    sig: hashable signature used to count distinct cases; nontrivial: bool
    obs: dict name -> int (merged by addition) ; sets: dict name -> iterable (merged by union)
    execs: number of process executions; sample: JSON-able description of the case
    files: dict relative name -> bytes to be stored in a replay bundle
    """

    def __init__(self):
        self.violations = []
        self.inconclusive = []
        self.sig = None
        self.sigs = set()        # additional distinct non-trivial signatures (strings)
        self.nontrivial = False
        self.obs = collections.Counter()
        self.sets = collections.defaultdict(set)
        self.execs = 0
        self.sample = None
        self.files = {}
        self.runs = []

    def violate(self, key, msg):
        self.violations.append((key, msg))

    def inconc(self, reason):
        self.inconclusive.append(reason)


class Ctx:
    def __init__(self, pid, tier, seed, idx, bins, workdir):
        self.pid = pid
        self.tier = tier
        self.seed = seed
        self.idx = idx
        self.bins = bins
        self.dir = workdir
        self.out = None          # Outcome, set by the runner
        self.rng = case_rng(seed, pid, idx)

    def path(self, name):
        return os.path.join(self.dir, name)

    def write(self, name, data):
        p = self.path(name)
        d = os.path.dirname(p)
        if d and not os.path.isdir(d):
            os.makedirs(d)
        if isinstance(data, str):
            data = data.encode('latin-1')
        with open(p, 'wb') as f:
            f.write(data)
        return p

    def read(self, name):
        try:
            with open(self.path(name), 'rb') as f:
                return f.read()
        except OSError:
            return None

    def run(self, tool, args, env=None, stdin=None, timeout=DEFAULT_TIMEOUT, cwd=None, retry=True):
        exe = self.bins.get(tool, tool)
        r = run_proc([exe] + list(args), cwd or self.dir, env_extra=env, stdin=stdin, timeout=timeout)
        if r.timed_out and retry:
            # re-run once, alone-ish, with a 5x limit: a single expiry is never a verdict
            r2 = run_proc([exe] + list(args), cwd or self.dir, env_extra=env, stdin=stdin, timeout=timeout * 5)
            self.out.execs += 1
            r = r2          # the second, longer run is the one that counts (also when it expired as well)
        self.out.execs += 1
        self.out.runs.append(r)
        return r


def _worker(args):
    mod_name, tier, seed, idx, case, bins, keep = args
    mod = sys.modules.get(mod_name) or __import__(mod_name, fromlist=['x'])
    wd = os.path.join(WORK_ROOT, '%s.%d' % (mod.ID, os.getppid()), str(idx))
    shutil.rmtree(wd, ignore_errors=True)
    os.makedirs(wd)
    ctx = Ctx(mod.ID, tier, seed, idx, bins, wd)
    out = Outcome()
    ctx.out = out
    try:
        mod.run_case(case, ctx)
    except Exception:
        out.inconc('harness-exception: ' + traceback.format_exc()[-1500:])
        out.obs['harness_exceptions'] += 1
    res = {
        'idx': idx, 'case': case, 'violations': out.violations, 'inconclusive': out.inconclusive,
        'sig': out.sig, 'sigs': sorted(out.sigs), 'nontrivial': out.nontrivial, 'obs': dict(out.obs),
        'sets': {k: sorted(v) for k, v in out.sets.items()}, 'execs': out.execs, 'sample': out.sample,
    }
    if out.violations or keep:
        files = dict(out.files)
        total = 0
        for dp, dn, fn in os.walk(wd):
            for name in fn:
                p = os.path.join(dp, name)
                rel = os.path.relpath(p, wd)
                if os.path.isfile(p) and os.path.getsize(p) < 1_000_000 and rel not in files and total < 8_000_000:
                    with open(p, 'rb') as f:
                        files[rel] = f.read()
                    total += len(files[rel])
        res['files'] = files
        res['runs'] = [r.describe() for r in out.runs[-6:]]
    shutil.rmtree(wd, ignore_errors=True)
    return res


# ---------------------------------------------------------------------------
# known findings

def load_known():
    try:
        with open(KNOWN_FILE) as f:
            data = json.load(f)
    except FileNotFoundError:
        return {}
    known = {}
    for e in data.get('findings', []):
        if e.get('status') == 'open':
            known[(e['property'], e['key'])] = e
    return known


def safe_name(key):
    return re.sub(r'[^A-Za-z0-9_.@+-]+', '_', key)[:120]


# ---------------------------------------------------------------------------
# main driver

def write_evidence(pid, doc):
    os.makedirs(EVIDENCE_DIR, exist_ok=True)
    tmp = os.path.join(EVIDENCE_DIR, '.%s.json.tmp' % pid)
    with open(tmp, 'w') as f:
        json.dump(doc, f, indent=1, sort_keys=True, default=str)
        f.write('\n')
    os.replace(tmp, os.path.join(EVIDENCE_DIR, '%s.json' % pid))


def run_check(mod, tier, seed, only_idx=None, replay_case=None):
    t0 = time.time()
    pid = mod.ID
    try:
        bins = build.ensure('san')
        for fl in getattr(mod, 'FLAVOURS', ()):
            if fl != 'san':
                b2 = build.ensure(fl)
                for k, v in b2.items():
                    bins[fl + ':' + k] = v
    except build.BuildError as e:
        sys.stderr.write('HARNESS-FAILURE build: %s\n' % e)
        return 2
    workbase = os.path.join(WORK_ROOT, '%s.%d' % (pid, os.getpid()))
    shutil.rmtree(workbase, ignore_errors=True)
    os.makedirs(workbase, exist_ok=True)
    if hasattr(mod, 'prepare'):
        mod.prepare(bins, tier, seed)

    if replay_case is not None:
        cases = [replay_case]
    else:
        cases = mod.plan(tier, seed)
    jobs = []
    for i, c in enumerate(cases):
        idx = c.get('_idx', i) if isinstance(c, dict) else i
        if only_idx is not None and idx != only_idx:
            continue
        jobs.append((mod.__name__, tier, seed, idx, c, bins, replay_case is not None))

    evaluations = 0
    sigs = set()
    obs = collections.Counter()
    sets = collections.defaultdict(set)
    viol = collections.OrderedDict()     # key -> first witness result
    viol_count = collections.Counter()
    inconc = collections.Counter()
    inconc_detail = []
    samples = []
    ncases = 0
    held_cases = 0
    nw = min(NWORKERS, max(1, len(jobs)))
    pool = multiprocessing.Pool(nw)
    try:
        for res in pool.imap_unordered(_worker, jobs, chunksize=1):
            ncases += 1
            evaluations += res['execs']
            for k, v in res['obs'].items():
                obs[k] += v
            for k, v in res['sets'].items():
                sets[k].update(v)
            if res['nontrivial'] and res['sig'] is not None:
                sigs.add(json.dumps(res['sig'], sort_keys=True, default=str))
            sigs.update(res['sigs'])
            for r in res['inconclusive']:
                inconc[r.split(':')[0][:80]] += 1
                if len(inconc_detail) < 8 and not r.startswith('harness-exception'):
                    inconc_detail.append({'case_index': res['idx'], 'reason': r[:300], 'case': res['case']})
                if r.startswith('harness-exception') and obs.get('harness_exceptions', 0) <= 1:
                    sys.stderr.write('HARNESS-EXCEPTION in case %s: %s\n' % (res['idx'], r))
                if len(samples) < 0:
                    pass
            if not res['violations'] and not res['inconclusive']:
                held_cases += 1
            for key, msg in res['violations']:
                viol_count[key] += 1
                if key not in viol:
                    viol[key] = (msg, res)
            if res['sample'] is not None and len(samples) < 4 and (res['idx'] % 7 == 0 or len(jobs) < 8):
                samples.append(res['sample'])
            if res['sample'] is not None and not samples and ncases == len(jobs):
                samples.append(res['sample'])
    finally:
        pool.terminate()
        pool.join()
    shutil.rmtree(workbase, ignore_errors=True)

    known = load_known()
    unlisted = 0
    known_hit = []
    lines = []
    for key, (msg, res) in viol.items():
        if (pid, key) in known:
            known_hit.append(key)
            lines.append('KNOWN-FINDING: property=%s %s — %s' % (pid, key, known[(pid, key)].get('what', msg)[:200]))
            continue
        unlisted += 1
        rdir = os.path.join(REPLAY_DIR, pid, safe_name(key))
        shutil.rmtree(rdir, ignore_errors=True)
        os.makedirs(rdir, exist_ok=True)
        with open(os.path.join(rdir, 'case.json'), 'w') as f:
            json.dump({'property': pid, 'key': key, 'message': msg, 'tier': tier, 'seed': seed,
                       'idx': res['idx'], 'case': res['case'], 'runs': res.get('runs'),
                       'occurrences_in_run': viol_count[key]}, f, indent=1, default=str)
        for name, data in (res.get('files') or {}).items():
            p = os.path.join(rdir, 'files', name)
            os.makedirs(os.path.dirname(p), exist_ok=True)
            with open(p, 'wb') as f:
                f.write(data if isinstance(data, bytes) else str(data).encode('latin-1', 'replace'))
        lines.append('VIOLATION property=%s replay=%s' % (pid, rdir))
        lines.append('  key=%s  (%d occurrences)  %s' % (key, viol_count[key], msg[:600].replace('\n', ' | ')))

    if not samples and cases:
        samples = [{'case': cases[0]}]
    coverage = {
        'evaluations': evaluations,
        'distinct_nontrivial': len(sigs),
        'rule': mod.RULE,
        'samples': samples[:5],
        'cases': ncases,
        'cases_held': held_cases,
        'observed': {k: obs[k] for k in sorted(obs)},
        'observed_sets': {k: (sorted(v) if len(v) <= 60 else {'count': len(v), 'first': sorted(v)[:40]}) for k, v in sorted(sets.items())},
        'inconclusive': dict(inconc),
        'inconclusive_detail': inconc_detail,
        'known_findings_matched': known_hit,
        'violation_keys': [k for k in viol if (pid, k) not in known],
        'exhaustive': bool(getattr(mod, 'EXHAUSTIVE', False)),
    }
    if hasattr(mod, 'finish'):
        try:
            coverage.update(mod.finish(obs, sets) or {})
        except Exception:
            pass
    doc = {
        'property_id': pid, 'tier': tier if tier in ('quick', 'thorough') else 'quick', 'seed': int(seed),
        'level': mod.LEVEL, 'coverage': coverage,
        'assumptions': list(getattr(mod, 'ASSUMPTIONS', [])),
        'wall_s': round(time.time() - t0, 2), 'violations': unlisted,
        'repo': build.REPO,
    }
    if replay_case is None and only_idx is None:
        write_evidence(pid, doc)
    for l in lines:
        print(l)
    print('%s %s seed=%s: cases=%d held=%d executions=%d distinct_nontrivial=%d violations=%d known=%d inconclusive=%d wall=%.1fs'
          % (pid, tier, seed, ncases, held_cases, evaluations, len(sigs), unlisted, len(known_hit), sum(inconc.values()), time.time() - t0))
    if inconc:
        print('  inconclusive: ' + ', '.join('%s x%d' % kv for kv in inconc.most_common(6)))
    sys.stdout.flush()
    if unlisted:
        return 1
    if obs.get('harness_exceptions'):
        sys.stderr.write('HARNESS-FAILURE: %d cases raised an exception in the monitor\n' % obs['harness_exceptions'])
        return 2
    if held_cases == 0 and not known_hit:
        sys.stderr.write('HARNESS-FAILURE: the run observed nothing (no case reached a verdict)\n')
        return 2
    return 0


def main(argv):
    import importlib
    if len(argv) < 2:
        sys.stderr.write('usage: check <Cnn> <quick|thorough> | check <Cnn> --replay <dir> | check <Cnn> --case <idx> [tier]\n')
        return 2
    pid = argv[1].upper()
    mod = importlib.import_module('vf.checks.%s' % pid.lower())
    seed = int(os.environ.get('VERIF_SEED', '1') or 1)
    if len(argv) >= 4 and argv[2] == '--replay':
        with open(os.path.join(argv[3], 'case.json')) as f:
            doc = json.load(f)
        c = doc['case']
        if isinstance(c, dict):
            c['_idx'] = doc['idx']
        return run_check(mod, doc.get('tier', 'quick'), doc.get('seed', seed), replay_case=c)
    if len(argv) >= 4 and argv[2] == '--case':
        tier = argv[4] if len(argv) > 4 else 'quick'
        return run_check(mod, tier, seed, only_idx=int(argv[3]))
    tier = argv[2] if len(argv) > 2 else os.environ.get('VERIF_TIER', 'quick')
    if tier not in ('quick', 'thorough'):
        sys.stderr.write('unknown tier %r\n' % tier)
        return 2
    return run_check(mod, tier, seed)
