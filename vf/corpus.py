"""The golden corpus of the tree under test: tests/<t>/<t>.asm + asflags + <t>.ori."""
import os
import shlex
import shutil

from . import build


def tests_dir():
    return os.path.join(build.REPO, 'tests')


def include_dir():
    return os.path.join(build.REPO, 'include')


class Prog:
    def __init__(self, name):
        self.name = name
        self.dir = os.path.join(tests_dir(), name)
        self.asm = os.path.join(self.dir, name + '.asm')
        self.ori = os.path.join(self.dir, name + '.ori')
        try:
            with open(os.path.join(self.dir, 'asflags')) as f:
                self.flags = shlex.split(f.read())
        except OSError:
            self.flags = []

    def source(self):
        with open(self.asm, 'rb') as f:
            return f.read()

    def ori_bytes(self):
        with open(self.ori, 'rb') as f:
            return f.read()

    def stage(self, dest):
        """copy the whole test directory (includes, binary includes) into dest"""
        for n in os.listdir(self.dir):
            s = os.path.join(self.dir, n)
            if os.path.isfile(s):
                shutil.copy(s, os.path.join(dest, n))

    def asl_args(self, src=None, out=None, extra=()):
        a = list(self.flags) + list(extra) + ['-q', '-i', include_dir(), src or (self.name + '.asm')]
        if out:
            a += ['-o', out]
        return a


def programs():
    out = []
    td = tests_dir()
    for n in sorted(os.listdir(td)):
        if os.path.exists(os.path.join(td, n, n + '.asm')) and os.path.exists(os.path.join(td, n, n + '.ori')):
            out.append(Prog(n))
    return out


def names():
    return [p.name for p in programs()]
