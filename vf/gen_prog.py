"""Generators of small valid programs shared by several checks.

Only constructs whose validity does not depend on anything subtle are used,
so a generated program is expected to assemble without errors; checks treat
a failing baseline of a generated program as 'nothing to compare'.
"""

# cpu -> (byte data op, word data op, reserve op (bytes/units), a one-unit instruction, word size in bytes)
CPU_TABLE = {
    '6502': ('byt', 'adr', 'dfs', 'nop', 2),
    '65c02': ('fcb', 'fdb', 'rmb', 'nop', 2),
    '68000': ('dc.b', 'dc.w', 'ds.b', 'nop', 2),
    'z80': ('db', 'dw', 'ds', 'nop', 2),
    '8051': ('db', 'dw', 'ds', 'nop', 2),
    '8086': ('db', 'dw', 'ds', 'nop', 2),
    '8080': ('db', 'dw', 'ds', 'nop', 2),
    '6809': ('fcb', 'fdb', 'rmb', 'nop', 2),
    '6800': ('byt', 'adr', 'dfs', 'nop', 2),
    '6811': ('dc.b', 'dc.w', 'ds.b', 'nop', 2),
}
CPUS = sorted(CPU_TABLE)


def ident(rng, prefix='l'):
    return '%s%d_%s' % (prefix, rng.randrange(1000), rng.choice('abcxyz'))


def mixed_program(rng, cpu=None, nstat=None):
    """a program with labels, data, forward/backward references in data words,
    a macro, a REPT, an IF, a section, a SET/EQU and a function"""
    cpu = cpu or rng.choice(CPUS)
    bop, wop, rop, nop, _ = CPU_TABLE[cpu]
    L = ['\tcpu\t%s' % cpu, '\torg\t%d' % rng.choice([0, 0x100, 0x1000, 0x8000])]
    nstat = nstat or rng.randrange(8, 40)
    labels = ['lab%d' % i for i in range(rng.randrange(2, 8))]
    placed = []
    L.append('cnt\tset\t0')
    L.append('konst\tequ\t%d' % rng.randrange(1, 200))
    L.append('twice\tfunction x,x*2')
    L.append('emit\tmacro\tpqa,pqb')
    L.append('\t%s\tpqa,pqb' % bop)
    L.append('\t%s\tpqa+pqb' % wop)
    L.append('\tendm')
    pending = list(labels)
    for i in range(nstat):
        k = rng.randrange(12)
        if k == 0 and pending:
            lab = pending.pop(0)
            placed.append(lab)
            L.append('%s:' % lab)
        elif k == 1:
            L.append('\t%s\t%s' % (bop, ','.join(str(rng.randrange(256)) for _ in range(rng.randrange(1, 9)))))
        elif k == 2:
            L.append('\t%s\t%s' % (wop, rng.choice(labels)))
        elif k == 3:
            L.append('\t%s\t%d' % (rop, rng.randrange(1, 20)))
        elif k == 4:
            L.append('\t%s' % nop)
        elif k == 5:
            L.append('\temit\t%d,%d' % (rng.randrange(100), rng.randrange(100)))
        elif k == 6:
            L.append('\trept\t%d' % rng.randrange(0, 5))
            L.append('\t%s\tcnt&255' % bop)
            L.append('cnt\tset\tcnt+1')
            L.append('\tendm')
        elif k == 7:
            L.append('\tif\tkonst>%d' % rng.randrange(200))
            L.append('\t%s\t1' % bop)
            L.append('\telseif')
            L.append('\t%s\t2,2' % bop)
            L.append('\tendif')
        elif k == 8:
            s = 'sec%d' % i
            L.append('\tsection\t%s' % s)
            L.append('loc:\t%s\tloc&255' % bop)
            L.append('\tendsection\t%s' % s)
        elif k == 9:
            L.append('\t%s\ttwice(%d)' % (wop, rng.randrange(1000)))
        elif k == 10:
            L.append('\t%s\t"%s"' % (bop, ''.join(rng.choice('abcXYZ 09') for _ in range(rng.randrange(1, 10)))))
        else:
            L.append('\tirp\tv,%s' % ','.join(str(rng.randrange(256)) for _ in range(rng.randrange(1, 5))))
            L.append('\t%s\tv' % bop)
            L.append('\tendm')
    for lab in pending:
        L.append('%s:' % lab)
    L.append('\t%s' % nop)
    L.append('\tend')
    return '\n'.join(L) + '\n'
