"""Independent decoders for the hex formats P2HEX writes, from their PUBLIC definitions.

  Motorola S-records   M68000 Family Programmer's Reference Manual, app. C / srec(5):
                       'S' type count address data checksum; count = bytes that follow;
                       checksum = one's complement of the low byte of the sum of count,
                       address and data bytes.  S0 header, S1/S2/S3 data with 2/3/4
                       address bytes, S5 record count (16 bit, in the address field),
                       S9/S8/S7 termination with 2/3/4 address bytes (start address).
  Intel hex            Intel Hexadecimal Object File Format Specification, Rev. A (1988):
                       ':' RECLEN OFFSET RECTYP INFO CHKSUM, checksum = two's complement
                       of the sum of all preceding bytes; 00 data, 01 end of file,
                       02 extended segment address (bits 4-19), 03 start segment address
                       (CS:IP), 04 extended linear address (bits 16-31), 05 start linear
                       address (EIP).  Segmented byte address = SBA + ((OFFSET+i) mod 64K),
                       linear byte address = (LBA + OFFSET + i) mod 4G.  In the 8-bit
                       format the OFFSET field of the end record may carry the start address.
  MOS Technology       KIM-1 User Manual, appendix F: ';' count(2) address(4) data
                       checksum(4) = 16-bit sum of count, both address bytes and the data
                       bytes of THIS record; last record ';00' + number of data records (4)
                       + checksum (4) formed the same way.
  Tektronix hex        Tektronix 8002 'standard Tekhex': '/' address(4) count(2)
                       checksum1(2) data checksum2(2); checksum1 = 8-bit sum of the six hex
                       DIGITS (4-bit values) of address and count, checksum2 = 8-bit sum of
                       the hex DIGITS of the data.  A block with count 00 ('/AAAA00CC')
                       terminates the file and carries the transfer address.
  Atmel generic        AVR assembler user guide: one line per program word,
                       'AAAAAA:DDDD' (24-bit word address, 16-bit word); the address may be
                       shortened to 16 bit ('AAAA:DDDD').
  C array              the subset of ISO C that P2HEX's manual section describes: #define
                       NAME value, static const unsigned char NAME[] = { ... };, a typedef'd
                       descriptor struct and a zero-terminated table of descriptors.

Every decoder returns a Decoded object; format violations are collected as
(kind, message) in .issues (kind is a short stable word naming the KIND of
violation) instead of raising, so that two different defects in one file are
both seen.  selftest() runs the decoders on hand-made / published vectors and
on corrupted variants of them; the check refuses to run if it fails.
"""
import re

HEXD = '0123456789ABCDEFabcdef'


class Rec:
    __slots__ = ('no', 'typ', 'addr', 'data', 'width', 'mode', 'base', 'off', 'raw')

    def __init__(self, no, typ, addr=0, data=b'', width=0, mode=None, base=0, off=0, raw=''):
        self.no = no          # 1-based line number
        self.typ = typ        # 'data' | 'term' | 'count' | 'header' | 'ext' | 'start'
        self.addr = addr      # address of the first byte (data) / value (others)
        self.data = data
        self.width = width    # address width in bytes (S-records) or format specific
        self.mode = mode      # intel: None | 'seg' | 'lin'
        self.base = base
        self.off = off
        self.raw = raw

    def addr_of(self, i):
        """address of data byte i by the format's public definition"""
        if self.mode == 'seg':
            return self.base + ((self.off + i) & 0xffff)
        if self.mode == 'lin':
            return (self.base + self.off + i) & 0xffffffff
        if self.mode == 'i8':
            return (self.off + i) & 0xffff
        return self.addr + i


class Decoded:
    def __init__(self, fmt):
        self.fmt = fmt
        self.recs = []
        self.issues = []      # (kind, message)
        self.entry = None     # start / transfer address found in the file
        self.entry_kind = None
        self.kinds = set()    # record kinds seen (evidence)
        self.blocks = None    # C format: list of dicts

    def issue(self, kind, msg):
        self.issues.append((kind, msg))

    def data_recs(self):
        return [r for r in self.recs if r.typ == 'data']


def _hexbytes(s):
    return bytes(int(s[i:i + 2], 16) for i in range(0, len(s), 2))


def _ishex(s):
    return all(c in HEXD for c in s)


def _lines(text, d):
    """split into lines; every line must be terminated by exactly one '\\n'"""
    if isinstance(text, bytes):
        text = text.decode('latin-1')
    if text and not text.endswith('\n'):
        d.issue('syntax', 'last line is not terminated by a newline')
    ls = text.split('\n')
    if ls and ls[-1] == '':
        ls.pop()
    return ls


# ---------------------------------------------------------------------------
# Motorola S-records

def decode_srec(text):
    d = Decoded('MOTO')
    lines = _lines(text, d)
    terminated = False
    for no, ln in enumerate(lines, 1):
        if terminated:
            d.issue('record-after-terminator', 'line %d follows the termination record' % no)
        if len(ln) < 4 or ln[0] != 'S' or ln[1] not in '0123456789' or not _ishex(ln[2:]) or len(ln) % 2:
            d.issue('syntax', 'line %d is not an S-record: %r' % (no, ln[:60]))
            continue
        t = int(ln[1])
        body = _hexbytes(ln[2:])
        count, rest = body[0], body[1:]
        if count != len(rest):
            d.issue('count', 'line %d: count field %d but %d bytes follow' % (no, count, len(rest)))
            continue
        if count < 3:
            d.issue('count', 'line %d: count field %d < 3' % (no, count))
            continue
        if ((sum(body[:-1]) & 0xff) ^ 0xff) != body[-1]:
            d.issue('checksum', 'line %d: checksum %02X, computed %02X (%s)' % (no, body[-1], (sum(body[:-1]) & 0xff) ^ 0xff, ln[:50]))
        d.kinds.add('S%d' % t)
        aw = {0: 2, 1: 2, 2: 3, 3: 4, 5: 2, 6: 3, 7: 4, 8: 3, 9: 2}.get(t)
        if aw is None:
            d.issue('syntax', 'line %d: reserved record type S%d' % (no, t))
            continue
        if len(rest) - 1 < aw:
            d.issue('count', 'line %d: S%d record too short for its address field' % (no, t))
            continue
        addr = int.from_bytes(rest[:aw], 'big')
        data = rest[aw:-1]
        if t == 0:
            d.recs.append(Rec(no, 'header', addr, data, aw, raw=ln))
        elif t in (1, 2, 3):
            d.recs.append(Rec(no, 'data', addr, data, aw, raw=ln))
        elif t in (5, 6):
            if data:
                d.issue('syntax', 'line %d: S%d record with a data field' % (no, t))
            d.recs.append(Rec(no, 'count', addr, b'', aw, raw=ln))
        else:
            if data:
                d.issue('syntax', 'line %d: S%d record with a data field' % (no, t))
            d.recs.append(Rec(no, 'term', addr, b'', aw, raw=ln))
            d.entry = addr
            d.entry_kind = 'S%d' % t
            terminated = True
    return d


# ---------------------------------------------------------------------------
# Intel hex

def decode_ihex(text, eof_variant=0):
    """eof_variant 1 / 2: the file ends with the literal line ':00000001' / ':0000000000'
    (the two alternative end lines the AS manual tabulates); 0: a regular type 01 record."""
    d = Decoded('INTEL')
    lines = _lines(text, d)
    literal_end = {1: ':00000001', 2: ':0000000000'}.get(eof_variant)
    ended = False
    if literal_end is not None:
        if not lines or lines[-1] != literal_end:
            d.issue('end-record', 'last line is %r, expected the end line %r' % (lines[-1] if lines else None, literal_end))
        else:
            lines = lines[:-1]
            ended = True
            d.kinds.add('end-variant-%d' % eof_variant)
    mode, base = 'i8', 0
    seen_end = False
    for no, ln in enumerate(lines, 1):
        if seen_end:
            d.issue('record-after-terminator', 'line %d follows the end-of-file record' % no)
        if len(ln) < 11 or ln[0] != ':' or not _ishex(ln[1:]) or (len(ln) - 1) % 2:
            d.issue('syntax', 'line %d is not an Intel hex record: %r' % (no, ln[:60]))
            continue
        body = _hexbytes(ln[1:])
        n, off, t = body[0], (body[1] << 8) | body[2], body[3]
        info = body[4:-1]
        if n != len(info):
            d.issue('count', 'line %d: RECLEN %d but %d info bytes' % (no, n, len(info)))
            continue
        if sum(body) & 0xff:
            d.issue('checksum', 'line %d: checksum %02X, computed %02X (%s)' % (no, body[-1], (-sum(body[:-1])) & 0xff, ln[:50]))
        d.kinds.add('%02X' % t)
        if t == 0:
            r = Rec(no, 'data', 0, info, 2, mode=mode, base=base, off=off, raw=ln)
            r.addr = r.addr_of(0)
            d.recs.append(r)
        elif t == 1:
            if n:
                d.issue('syntax', 'line %d: end record with data' % no)
            seen_end = True
            d.recs.append(Rec(no, 'term', off, b'', 2, raw=ln))
            if off:
                # 8-bit format: start address in the end record
                if d.entry is None:
                    d.entry, d.entry_kind = off, 'eof'
        elif t in (2, 4):
            if n != 2 or off != 0:
                d.issue('syntax', 'line %d: type %02X record needs RECLEN 02 and OFFSET 0000' % (no, t))
                continue
            v = (info[0] << 8) | info[1]
            if t == 2:
                mode, base = 'seg', v << 4
            else:
                mode, base = 'lin', v << 16
            d.recs.append(Rec(no, 'ext', base, b'', 2, mode=mode, raw=ln))
        elif t in (3, 5):
            if n != 4 or off != 0:
                d.issue('syntax', 'line %d: type %02X record needs RECLEN 04 and OFFSET 0000' % (no, t))
                continue
            if t == 3:
                cs, ip = (info[0] << 8) | info[1], (info[2] << 8) | info[3]
                v = (cs << 4) + ip
            else:
                v = int.from_bytes(info, 'big')
            d.recs.append(Rec(no, 'start', v, info, 4, raw=ln))
            d.entry, d.entry_kind = v, '%02X' % t
        else:
            d.issue('syntax', 'line %d: unknown record type %02X' % (no, t))
    if not seen_end and not ended:
        d.issue('end-record', 'no end-of-file record')
    return d


# ---------------------------------------------------------------------------
# MOS Technology

def decode_mos(text):
    d = Decoded('MOS')
    lines = _lines(text, d)
    ndata = 0
    ended = False
    prev_printed = None
    for no, ln in enumerate(lines, 1):
        if ended:
            d.issue('record-after-terminator', 'line %d follows the end record' % no)
        if len(ln) < 11 or ln[0] != ';' or not _ishex(ln[1:]) or (len(ln) - 1) % 2:
            d.issue('syntax', 'line %d is not a MOS record: %r' % (no, ln[:60]))
            continue
        body = _hexbytes(ln[1:])
        n = body[0]
        if len(body) != 1 + 2 + n + 2:
            d.issue('count', 'line %d: count field %d but %d data bytes' % (no, n, len(body) - 5))
            continue
        addr = (body[1] << 8) | body[2]
        data = body[3:3 + n]
        printed = (body[-2] << 8) | body[-1]
        own = sum(body[:-2]) & 0xffff
        if n == 0:
            ended = True
            d.kinds.add('end')
            d.recs.append(Rec(no, 'term', addr, b'', 2, raw=ln))
            if addr != ndata:
                d.issue('trailer-count', 'end record states %d data records, the file has %d (%s)' % (addr, ndata, ln))
            if printed != own:
                d.issue('trailer-checksum', 'end record checksum %04X, computed %04X (%s)' % (printed, own, ln))
            continue
        ndata += 1
        d.kinds.add('data')
        if printed != own:
            if prev_printed is not None and printed == ((own + prev_printed) & 0xffff):
                d.issue('checksum-accumulates-across-lines',
                        'line %d: checksum %04X = own sum %04X + checksum of the previous line %04X (%s)' % (no, printed, own, prev_printed, ln[:50]))
            else:
                d.issue('checksum', 'line %d: checksum %04X, computed %04X (%s)' % (no, printed, own, ln[:50]))
        prev_printed = printed
        d.recs.append(Rec(no, 'data', addr, data, 2, raw=ln))
    if not ended:
        d.issue('trailer-missing', 'no end record (;00 + record count)')
    return d


# ---------------------------------------------------------------------------
# Tektronix hex

def _nibsum(s):
    return sum(int(c, 16) for c in s) & 0xff


def decode_tek(text):
    d = Decoded('TEK')
    lines = _lines(text, d)
    ended = False
    for no, ln in enumerate(lines, 1):
        if ended:
            d.issue('record-after-terminator', 'line %d follows the termination block' % no)
        if len(ln) < 9 or ln[0] != '/' or not _ishex(ln[1:]) or (len(ln) - 1) % 2:
            d.issue('syntax', 'line %d is not a Tektronix hex block: %r' % (no, ln[:60]))
            continue
        addr = int(ln[1:5], 16)
        n = int(ln[5:7], 16)
        c1 = int(ln[7:9], 16)
        want1 = _nibsum(ln[1:7])
        if c1 != want1:
            bytesum = (int(ln[1:3], 16) + int(ln[3:5], 16) + n) & 0xff
            if c1 == bytesum:
                d.issue('header-checksum-sums-bytes-not-digits',
                        'line %d: first checksum %02X is the sum of the BYTES of address and count; the format sums the six hex digits: %02X (%s)' % (no, c1, want1, ln[:40]))
            else:
                d.issue('header-checksum', 'line %d: first checksum %02X, computed %02X (%s)' % (no, c1, want1, ln[:40]))
        if n == 0:
            if len(ln) != 9:
                d.issue('count', 'line %d: termination block with trailing characters' % no)
            ended = True
            d.kinds.add('term')
            d.recs.append(Rec(no, 'term', addr, b'', 2, raw=ln))
            d.entry, d.entry_kind = addr, 'tek-term'
            continue
        if len(ln) != 9 + 2 * n + 2:
            d.issue('count', 'line %d: count field %d but %d data bytes' % (no, n, (len(ln) - 11) // 2))
            continue
        ds = ln[9:9 + 2 * n]
        c2 = int(ln[9 + 2 * n:], 16)
        want2 = _nibsum(ds)
        data = _hexbytes(ds)
        if c2 != want2:
            if c2 == (sum(data) & 0xff):
                d.issue('data-checksum-sums-bytes-not-digits',
                        'line %d: second checksum %02X is the sum of the data BYTES; the format sums the hex digits: %02X (%s)' % (no, c2, want2, ln[:40]))
            else:
                d.issue('data-checksum', 'line %d: second checksum %02X, computed %02X (%s)' % (no, c2, want2, ln[:40]))
        d.kinds.add('data')
        d.recs.append(Rec(no, 'data', addr, data, 2, raw=ln))
    return d


# ---------------------------------------------------------------------------
# Atmel generic

def decode_atmel(text, addr_len=3):
    d = Decoded('ATMEL')
    lines = _lines(text, d)
    pat = re.compile(r'^([0-9A-Fa-f]{%d}):([0-9A-Fa-f]{4})$' % (2 * addr_len))
    for no, ln in enumerate(lines, 1):
        m = pat.match(ln)
        if not m:
            d.issue('syntax', 'line %d is not an Atmel generic line with a %d-byte address: %r' % (no, addr_len, ln[:40]))
            continue
        w = int(m.group(2), 16)
        d.kinds.add('word')
        # data: the 16-bit word, low byte first (AVR program words are little endian)
        d.recs.append(Rec(no, 'data', int(m.group(1), 16), bytes([w & 0xff, w >> 8]), addr_len, raw=ln))
    return d


# ---------------------------------------------------------------------------
# C arrays

_TOK = re.compile(r'\s*(?:(/\*.*?\*/)|([A-Za-z_][A-Za-z0-9_]*)|(0[xX][0-9A-Fa-f]+|[0-9]+)([uUlL]*)|([{}\[\]=,;*()]))', re.S)


class CSyntax(Exception):
    pass


def _ctokens(src):
    pos = 0
    out = []
    n = len(src)
    while True:
        while pos < n and src[pos] in ' \t\r\n':
            pos += 1
        if pos >= n:
            return out
        m = _TOK.match(src, pos)
        if not m:
            raise CSyntax('unexpected text %r' % src[pos:pos + 30])
        pos = m.end()
        if m.group(1):
            continue
        if m.group(2):
            out.append(('id', m.group(2)))
        elif m.group(3):
            out.append(('num', int(m.group(3), 0) if m.group(3).lower().startswith('0x') else int(m.group(3), 10), m.group(4), m.group(3)))
        else:
            out.append(('p', m.group(5)))


def decode_c(text):
    """Returns Decoded with .blocks = [{'name':..., 'data': bytes|None, 'start':..., 'len':..., 'end':...}],
    .macros (name -> (value, suffix, literal)), .fields (descriptor fields in order: (ctype, name)),
    .arrays (name -> (bytes, [literals]))."""
    d = Decoded('C')
    d.macros = {}
    d.arrays = {}
    d.fields = []
    d.rows = []
    d.blocks = []
    if isinstance(text, bytes):
        text = text.decode('latin-1')
    if text and not text.endswith('\n'):
        d.issue('syntax', 'last line is not terminated by a newline')
    # 1. preprocessor lines
    code = []
    guard = None
    depth = 0
    pp = []
    for no, ln in enumerate(text.split('\n'), 1):
        s = ln.strip()
        if s.startswith('#'):
            pp.append((no, s))
            m = re.match(r'^#\s*ifndef\s+([A-Za-z_]\w*)$', s)
            if m:
                depth += 1
                if guard is None and not d.macros and not code_nonblank(code):
                    guard = m.group(1)
                continue
            m = re.match(r'^#\s*endif\b\s*(/\*.*\*/)?$', s)
            if m:
                depth -= 1
                if depth < 0:
                    d.issue('syntax', 'line %d: #endif without #if' % no)
                continue
            m = re.match(r'^#\s*define\s+([A-Za-z_]\w*)(?:\s+(\S.*))?$', s)
            if m:
                name, val = m.group(1), m.group(2)
                if val is None:
                    if name in d.macros:
                        d.issue('macro-redefined', 'line %d: %s defined twice' % (no, name))
                    d.macros[name] = (None, '', '')
                    continue
                vm = re.match(r'^(0[xX][0-9A-Fa-f]+|[0-9]+)([uUlL]*)$', val.strip())
                if not vm:
                    d.issue('syntax', 'line %d: macro value %r is not an integer constant' % (no, val))
                    continue
                v = int(vm.group(1), 0) if vm.group(1).lower().startswith('0x') else int(vm.group(1))
                if name in d.macros and d.macros[name][0] != v:
                    d.issue('macro-redefined', 'line %d: %s redefined with a different value (%#x, before %#x)' % (no, name, v, d.macros[name][0]))
                d.macros[name] = (v, vm.group(2), vm.group(1))
                continue
            d.issue('syntax', 'line %d: unknown preprocessor line %r' % (no, s[:50]))
            continue
        code.append(ln)
    if depth != 0:
        d.issue('syntax', 'unbalanced #ifndef/#endif')
    d.guard = guard
    if guard is None or guard not in d.macros:
        d.issue('syntax', 'no include guard (#ifndef X / #define X) at the top')
    # 2. declarations
    try:
        toks = _ctokens('\n'.join(code))
    except CSyntax as e:
        d.issue('syntax', str(e))
        return d
    i = 0

    def peek(k=0):
        return toks[i + k] if i + k < len(toks) else ('eof',)

    def expect(kind, val=None):
        nonlocal i
        t = peek()
        if t[0] != kind or (val is not None and t[1] != val):
            raise CSyntax('expected %s %s, found %r (token %d)' % (kind, val or '', t[:2], i))
        i += 1
        return t

    def value():
        """integer constant or macro name -> (value, refname)"""
        nonlocal i
        t = peek()
        if t[0] == 'num':
            i += 1
            return t[1], None
        if t[0] == 'id':
            i += 1
            return None, t[1]
        raise CSyntax('expected a constant or a name, found %r' % (t[:2],))

    typedef_name = None
    try:
        while peek()[0] != 'eof':
            t = peek()
            if t == ('id', 'typedef'):
                i += 1
                expect('id', 'struct')
                expect('p', '{')
                while peek() != ('p', '}'):
                    words = []
                    ptr = False
                    while peek() != ('p', ';'):
                        w = peek()
                        if w == ('p', '*'):
                            ptr = True
                        elif w[0] == 'id':
                            words.append(w[1])
                        else:
                            raise CSyntax('unexpected %r in a struct member' % (w[:2],))
                        i += 1
                    expect('p', ';')
                    if len(words) < 2:
                        raise CSyntax('struct member without a type')
                    d.fields.append((' '.join(words[:-1]) + (' *' if ptr else ''), words[-1]))
                expect('p', '}')
                typedef_name = expect('id')[1]
                expect('p', ';')
            elif t == ('id', 'static'):
                i += 1
                expect('id', 'const')
                t2 = expect('id')
                if t2[1] == 'unsigned':
                    expect('id', 'char')
                    name = expect('id')[1]
                    expect('p', '[')
                    expect('p', ']')
                    expect('p', '=')
                    expect('p', '{')
                    vals, lits = [], []
                    while peek() != ('p', '}'):
                        tv = expect('num')
                        if tv[1] > 0xff:
                            raise CSyntax('array element %#x does not fit an unsigned char' % tv[1])
                        vals.append(tv[1])
                        lits.append(tv[3])
                        if peek() == ('p', ','):
                            i += 1
                        elif peek() != ('p', '}'):
                            raise CSyntax('missing comma in array %s after element %d' % (name, len(vals)))
                    expect('p', '}')
                    expect('p', ';')
                    if name in d.arrays:
                        d.issue('array-redefined', 'array %s defined twice' % name)
                    if not vals:
                        d.issue('syntax', 'array %s is empty (not valid ISO C)' % name)
                    d.arrays[name] = (bytes(vals), lits)
                else:
                    if t2[1] != typedef_name:
                        raise CSyntax('table of unknown type %s' % t2[1])
                    tname = expect('id')[1]
                    d.table_name = tname
                    expect('p', '[')
                    expect('p', ']')
                    expect('p', '=')
                    expect('p', '{')
                    while peek() != ('p', '}'):
                        expect('p', '{')
                        row = []
                        while peek() != ('p', '}'):
                            row.append(value())
                            if peek() == ('p', ','):
                                i += 1
                            elif peek() != ('p', '}'):
                                raise CSyntax('missing comma in a descriptor')
                        expect('p', '}')
                        d.rows.append(row)
                        if peek() == ('p', ','):
                            i += 1
                        elif peek() != ('p', '}'):
                            raise CSyntax('missing comma between descriptors')
                    expect('p', '}')
                    expect('p', ';')
            else:
                raise CSyntax('unexpected token %r at top level' % (t[:2],))
    except CSyntax as e:
        d.issue('syntax', str(e))
        return d
    # 3. descriptors -> blocks
    if typedef_name is None:
        d.issue('syntax', 'no descriptor struct')
        return d
    if not d.rows:
        d.issue('table', 'descriptor table has no terminating all-zero entry')
        return d
    last = d.rows[-1]
    if any(v != 0 or ref is not None for v, ref in last) or len(last) != len(d.fields):
        d.issue('table', 'descriptor table does not end with an all-zero entry')
    for row in d.rows[:-1]:
        if len(row) != len(d.fields):
            d.issue('table', 'descriptor with %d initialisers for %d members' % (len(row), len(d.fields)))
            continue
        blk = {'data': None, 'start': None, 'len': None, 'end': None}
        for (ctype, fname), (v, ref) in zip(d.fields, row):
            if fname not in blk:
                d.issue('table', 'unknown descriptor member %s' % fname)
                continue
            if fname == 'data':
                if ref is None or ref not in d.arrays:
                    d.issue('table', 'data member refers to %r which is not a defined array' % (ref if ref else v))
                    continue
                blk['data'] = d.arrays[ref][0]
                blk['name'] = ref
            else:
                if ref is not None:
                    if ref not in d.macros or d.macros[ref][0] is None:
                        d.issue('table', '%s member refers to undefined macro %s' % (fname, ref))
                        continue
                    v = d.macros[ref][0]
                blk[fname] = v
        d.blocks.append(blk)
        d.kinds.add('block')
    used = {b.get('name') for b in d.blocks}
    for name in d.arrays:
        if name not in used:
            d.issue('table', 'array %s is not referenced by the descriptor table' % name)
    for name, (v, suf, lit) in d.macros.items():
        if name.endswith('_entry'):
            d.entry, d.entry_kind = v, 'define'
    return d


def code_nonblank(lines):
    return any(l.strip() for l in lines)


# ---------------------------------------------------------------------------
# self-test on published / hand-made vectors

SREC_SAMPLE = (          # srec(5) / Motorola programmer's reference manual example
    'S00600004844521B\n'
    'S1130000285F245F2212226A000424290008237C2A\n'
    'S11300100002000800082629001853812341001813\n'
    'S113002041E900084E42234300182342000824A952\n'
    'S107003000144ED492\n'
    'S5030004F8\n'
    'S9030000FC\n')
SREC_S2S3 = (            # hand-made: S2 at $010000 01 02 03 04, S3 at $00001000 01 02 03 04
    'S208010000010203' '04' 'EC\n'
    'S309000010000102' '0304' 'DC\n'
    'S70512345678E6\n')
IHEX_SAMPLE = (          # widely published example (Wikipedia "Intel HEX")
    ':10010000214601360121470136007EFE09D2190140\n'
    ':100110002146017E17C20001FF5F16002148011928\n'
    ':10012000194E79234623965778239EDA3F01B2CAA7\n'
    ':100130003F0156702B5E712B722B732146013421C7\n'
    ':00000001FF\n')
IHEX_EXT = (
    ':020000021200EA\n'
    ':0400000300003800C1\n'
    ':02FFFF00AABB9B\n'          # segmented: second byte wraps to offset 0000 of segment 1200
    ':020000040800F2\n'
    ':02FFFF00AABB9B\n'          # linear: second byte is at 0800FFFF+1
    ':04000005000000CD2A\n'
    ':00000001FF\n')
MOS_SAMPLE = (           # KIM-1 user manual, appendix F
    ';180000FFEEDDCCBBAA0099887766554433221122334455667788990AFC\n'
    ';0000010001\n')
TEK_SAMPLE = (           # hand-made from the definition: address 0000, 12 bytes 01..0C
    '/00000C0C0102030405060708090A0B0C4E\n'
    '/100010020123456789ABCDEF0123456789ABCDEFF0\n'
    '/00000000\n')
ATMEL_SAMPLE = '000000:940C\n000001:0034\n'
C_SAMPLE = (
    '#ifndef _x_H\n#define _x_H\n\n'
    '#define x_start 0x00000100ul\n#define x_len 0x00000003u\n#define x_end 0x00000102ul\n'
    'static const unsigned char x_data[] =\n{\n  0x01,0x02,\n  0xff\n};\n\n'
    'typedef struct\n{\n  const char *data;\n  unsigned long start;\n  unsigned len;\n  unsigned long end;\n} x_blk;\n'
    'static const x_blk x_blks[] =\n{\n  { x_data, x_start, x_len, x_end },\n  { 0, 0, 0, 0 }\n};\n\n'
    '#define x_entry 0x00000100ul\n\n#endif /* _x_H */\n')


def selftest():
    """returns a list of failure descriptions (empty = decoders behave as their definitions say)"""
    bad = []

    def ok(cond, what):
        if not cond:
            bad.append(what)

    def flip(text, lineidx, col):
        ls = text.split('\n')
        c = ls[lineidx][col]
        ls[lineidx] = ls[lineidx][:col] + ('1' if c != '1' else '2') + ls[lineidx][col + 1:]
        return '\n'.join(ls)

    d = decode_srec(SREC_SAMPLE)
    ok(not d.issues, 'srec sample: %s' % d.issues)
    ok([(r.typ, r.addr, len(r.data)) for r in d.recs] == [('header', 0, 3), ('data', 0, 16), ('data', 16, 16), ('data', 32, 16),
                                                           ('data', 48, 4), ('count', 4, 0), ('term', 0, 0)], 'srec sample structure')
    ok(d.recs[1].data[:4] == bytes.fromhex('285F245F'), 'srec sample data')
    d = decode_srec(SREC_S2S3)
    ok(not d.issues, 'srec S2/S3: %s' % d.issues)
    ok([(r.typ, r.addr, r.width, bytes(r.data)) for r in d.recs] == [('data', 0x10000, 3, b'\1\2\3\4'), ('data', 0x1000, 4, b'\1\2\3\4'),
                                                                    ('term', 0x12345678, 4, b'')], 'srec S2/S3 structure')
    ok(d.entry == 0x12345678, 'srec entry')
    ok(any(k == 'checksum' for k, _ in decode_srec(flip(SREC_SAMPLE, 1, 10)).issues), 'srec corrupted data not detected')
    ok(any(k == 'count' for k, _ in decode_srec(SREC_SAMPLE.replace('S107003000144ED492', 'S108003000144ED491')).issues), 'srec wrong count not detected')
    ok(any(k == 'syntax' for k, _ in decode_srec(SREC_SAMPLE.replace('S5030004F8', 'X5030004F8')).issues), 'srec syntax')
    ok(any(k == 'record-after-terminator' for k, _ in decode_srec(SREC_SAMPLE + 'S107003000144ED492\n').issues), 'srec data after terminator')

    d = decode_ihex(IHEX_SAMPLE)
    ok(not d.issues, 'ihex sample: %s' % d.issues)
    ok([(r.typ, r.addr, len(r.data)) for r in d.recs] == [('data', 0x100, 16), ('data', 0x110, 16), ('data', 0x120, 16), ('data', 0x130, 16), ('term', 0, 0)],
       'ihex sample structure')
    ok(d.entry is None, 'ihex sample entry')
    d = decode_ihex(IHEX_EXT)
    ok(not d.issues, 'ihex ext: %s' % d.issues)
    dr = d.data_recs()
    ok(len(dr) == 2 and [dr[0].addr_of(0), dr[0].addr_of(1)] == [0x12000 + 0xffff, 0x12000], 'ihex segmented wrap')
    ok(len(dr) == 2 and [dr[1].addr_of(0), dr[1].addr_of(1)] == [0x0800ffff, 0x08010000], 'ihex linear no wrap')
    ok(d.entry == 0xcd and d.entry_kind == '05', 'ihex start linear')
    ok(any(r.typ == 'start' and r.addr == 0x3800 for r in d.recs), 'ihex start segment')
    ok(any(k == 'checksum' for k, _ in decode_ihex(flip(IHEX_SAMPLE, 2, 12)).issues), 'ihex corrupted data not detected')
    ok(any(k == 'end-record' for k, _ in decode_ihex(IHEX_SAMPLE.replace(':00000001FF\n', '')).issues), 'ihex missing end')
    ok(not decode_ihex(IHEX_SAMPLE.replace(':00000001FF', ':00000001'), 1).issues, 'ihex end variant 1')
    ok(not decode_ihex(IHEX_SAMPLE.replace(':00000001FF', ':0000000000'), 2).issues, 'ihex end variant 2')
    ok(decode_ihex(IHEX_SAMPLE, 1).issues, 'ihex end variant 1 must be required when asked for')
    d = decode_ihex(IHEX_SAMPLE.replace(':00000001FF', ':00123401B9'))
    ok(not d.issues and d.entry == 0x1234 and d.entry_kind == 'eof', 'ihex start address in end record: %s' % d.issues)

    d = decode_mos(MOS_SAMPLE)
    ok(not d.issues, 'mos sample: %s' % d.issues)
    ok(len(d.recs) == 2 and d.recs[0].addr == 0 and len(d.recs[0].data) == 24 and d.recs[0].data[0] == 0xff, 'mos structure')
    two = ';0201000102' '0006\n' ';0201020304' '000C\n' ';0000020002\n'
    ok(not decode_mos(two).issues, 'mos two records: %s' % decode_mos(two).issues)
    cum = ';0201000102' '0006\n' ';0201020304' '0012\n' ';0000020002\n'
    ok([k for k, _ in decode_mos(cum).issues] == ['checksum-accumulates-across-lines'], 'mos cumulative checksum classification')
    ok([k for k, _ in decode_mos(two.replace(';0000020002', ';0000040004')).issues] == ['trailer-count'], 'mos trailer count')
    ok([k for k, _ in decode_mos(two.replace(';0000020002', ';0000020003')).issues] == ['trailer-checksum'], 'mos trailer checksum')
    ok([k for k, _ in decode_mos(two.replace(';0000020002\n', '')).issues] == ['trailer-missing'], 'mos trailer missing')
    ok(any(k == 'checksum' for k, _ in decode_mos(flip(MOS_SAMPLE, 0, 9)).issues), 'mos corrupted data not detected')

    d = decode_tek(TEK_SAMPLE)
    ok(not d.issues, 'tek sample: %s' % d.issues)
    ok([(r.typ, r.addr, len(r.data)) for r in d.recs] == [('data', 0, 12), ('data', 0x1000, 16), ('term', 0, 0)], 'tek structure')
    bytesum = '/100010200123456789ABCDEF0123456789ABCDEF80\n'
    ok(sorted(k for k, _ in decode_tek(bytesum).issues) == ['data-checksum-sums-bytes-not-digits', 'header-checksum-sums-bytes-not-digits'],
       'tek byte-sum classification: %s' % decode_tek(bytesum).issues)
    ok(any(k == 'data-checksum' for k, _ in decode_tek(flip(TEK_SAMPLE, 0, 12)).issues), 'tek corrupted data not detected')
    ok(any(k == 'header-checksum' for k, _ in decode_tek(flip(TEK_SAMPLE, 0, 2)).issues), 'tek corrupted address not detected')

    d = decode_atmel(ATMEL_SAMPLE)
    ok(not d.issues and [(r.addr, bytes(r.data)) for r in d.recs] == [(0, b'\x0c\x94'), (1, b'\x34\x00')], 'atmel sample')
    ok(decode_atmel(ATMEL_SAMPLE, 2).issues, 'atmel address length must be checked')
    ok(not decode_atmel('0000:940C\n', 2).issues, 'atmel short address')

    d = decode_c(C_SAMPLE)
    ok(not d.issues, 'c sample: %s' % d.issues)
    ok(d.blocks == [{'data': b'\x01\x02\xff', 'start': 0x100, 'len': 3, 'end': 0x102, 'name': 'x_data'}], 'c blocks %r' % d.blocks)
    ok(d.entry == 0x100, 'c entry')
    ok(decode_c(C_SAMPLE.replace('0x01,0x02', '0x01 0x02')).issues, 'c missing comma not detected')
    ok(decode_c(C_SAMPLE.replace('{ 0, 0, 0, 0 }', '{ 0, 0, 0 }')).issues, 'c short terminator not detected')
    ok(any(k == 'macro-redefined' for k, _ in decode_c(C_SAMPLE.replace('#define x_len', '#define x_start 0x1u\n#define x_len')).issues), 'c macro redefinition')
    return bad
