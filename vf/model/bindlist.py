"""Reference model for PBIND and PLIST (property C07).

Everything here is written from the user manual, not from pbind.c / plist.c /
toolutils.c / headids.c:

* doc/file-formats.md "Code Files": record structure, table of family header
  bytes, table of segment codings, meaning of Gran (start address counts
  address units, Length counts bytes, "end address $303 for start $300,
  length 12, granularity 4"), short records $01..$7f = segment CODE with the
  granularity "implicitly given by the processor type".
* doc/utility-programs.md "PLIST": one line per record, columns code type /
  (segment) / start address / length in bytes / end address, everything in
  hexadecimal, finally the creator string and a summarized code length.
* doc/utility-programs.md "BIND": concatenates the records of several code
  files, `-f <Header[,Header]>` copies only records with these header IDs,
  numbers may be written `$31`, `31h`, `0x31` or decimal, a missing
  extension `.p` is added.

The one table the manual does not contain is the granularity of the CODE
segment per processor family.  CODE_GRAN below was recorded from the code
files the *assembler* writes for the 201 golden programs of the repository
(asl always writes $81 records with an explicit Gran byte; that byte comes
from the per-target code generators, a code path that shares nothing with
toolutils.c Granularity(), which is part of the code under test here).
"""
import re

from .. import pfile

# doc/file-formats.md, "Table: Header Bytes for the Different Processor Families".
# ($35 is listed twice in the manual - Z8000 and Super8 - either name is accepted.)
MANUAL_FAMILIES = {
    0x01: '680x0, 6833x', 0x02: 'ATARI_VECTOR', 0x03: 'M*Core', 0x04: 'XGATE', 0x05: 'PowerPC',
    0x06: 'XCore', 0x07: 'TMS1000', 0x08: 'NS32xxx', 0x09: 'DSP56xxx', 0x0a: 'CP1600',
    0x11: '65xx/MELPS-740', 0x12: 'MELPS-4500', 0x13: 'M16', 0x14: 'M16C', 0x15: 'F2MC8L',
    0x16: 'F2MC16L', 0x19: '65816/MELPS-7700', 0x1a: 'PDK13', 0x1b: 'PDK14', 0x1c: 'PDK15',
    0x1d: 'PDK16', 0x21: 'MCS-48', 0x25: 'SYM53C8xx', 0x27: 'KENBAK', 0x29: '29xxx', 0x2a: 'i960',
    0x31: 'MCS-51', 0x32: 'ST9', 0x33: 'ST7', 0x35: 'Z8000|Super8', 0x36: 'MN161x', 0x37: '2650',
    0x38: '1802/1805', 0x39: 'MCS-96/196/296', 0x3a: '8X30x', 0x3b: 'AVR', 0x3c: 'XA',
    0x3d: 'AVR (8-Bit Code-Segment)', 0x3e: '8008', 0x3f: '4004/4040', 0x40: 'H16', 0x41: '8080/8085',
    0x42: '8086...V35', 0x43: 'SX20', 0x44: 'F8', 0x45: 'S12Z', 0x46: '78K4', 0x47: 'TMS320C6x',
    0x48: 'TMS9900', 0x49: 'TMS370xxx', 0x4a: 'MSP430', 0x4b: 'TMS320C54x', 0x4c: '80C166/167',
    0x4d: 'OLMS-50', 0x4e: 'OLMS-40', 0x4f: 'MIL STD 1750', 0x50: 'HMCS-400', 0x51: 'Z80/180/380',
    0x52: 'TLCS-900', 0x53: 'TLCS-90', 0x54: 'TLCS-870', 0x55: 'TLCS-47', 0x56: 'TLCS-9000',
    0x57: 'TLCS-870/C', 0x58: 'NEC 78K3', 0x59: 'eZ8', 0x5a: 'TC9331', 0x5b: 'KCPSM3',
    0x5c: 'LatticeMico8', 0x5d: 'NEC 75xx', 0x5e: '68RS08', 0x5f: 'COP4', 0x60: '78K2',
    0x61: '6800, 6301, 6811', 0x62: '6805/HC08', 0x63: '6809', 0x64: '6804', 0x65: '68HC16',
    0x66: '68HC12', 0x67: 'ACE', 0x68: 'H8/300(H)', 0x69: 'H8/500', 0x6a: '807x', 0x6b: 'KCPSM',
    0x6c: 'SH7000', 0x6d: 'SC14xxx', 0x6e: 'SC/MP', 0x6f: 'COP8', 0x70: 'PIC16C8x', 0x71: 'PIC16C5x',
    0x72: 'PIC17C4x', 0x73: 'TMS-7000', 0x74: 'TMS3201x', 0x75: 'TMS320C2x', 0x76: 'TMS320C3x/C4x',
    0x77: 'TMS320C20x/C5x', 0x78: 'ST6', 0x79: 'Z8', 0x7a: 'uPD78(C)10', 0x7b: '75K0', 0x7c: '78K0',
    0x7d: 'uPD7720', 0x7e: 'uPD7725', 0x7f: 'uPD77230',
}

# Families whose short form in the manual is spelled so differently from any
# abbreviation that only a shared stem (>= 2 characters) can be demanded.
LOOSE_NAME = {0x05, 0x31, 0x3d, 0x51, 0x61, 0x75, 0x77, 0x7a}

# family -> granularity of segment CODE, as written by asl itself into the Gran
# byte of the $81 records of the golden programs (see module docstring).
# Families of the manual table that no golden program produces ($1a..$1d, $6d)
# are absent: the generator never uses them.
CODE_GRAN = {
    0x01: 1, 0x02: 2, 0x03: 1, 0x04: 1, 0x05: 1, 0x06: 1, 0x07: 1, 0x08: 1, 0x09: 4, 0x0a: 2,
    0x11: 1, 0x12: 2, 0x13: 1, 0x14: 1, 0x15: 1, 0x16: 1, 0x19: 1, 0x21: 1, 0x25: 1, 0x27: 1,
    0x29: 1, 0x2a: 1, 0x31: 1, 0x32: 1, 0x33: 1, 0x35: 1, 0x36: 2, 0x37: 1, 0x38: 1, 0x39: 1,
    0x3a: 2, 0x3b: 2, 0x3c: 1, 0x3d: 1, 0x3e: 1, 0x3f: 1, 0x40: 1, 0x41: 1, 0x42: 1, 0x43: 2,
    0x44: 1, 0x45: 1, 0x46: 1, 0x47: 1, 0x48: 1, 0x49: 1, 0x4a: 1, 0x4b: 2, 0x4c: 1, 0x4d: 2,
    0x4e: 1, 0x4f: 2, 0x50: 2, 0x51: 1, 0x52: 1, 0x53: 1, 0x54: 1, 0x55: 1, 0x56: 1, 0x57: 1,
    0x58: 1, 0x59: 1, 0x5a: 4, 0x5b: 4, 0x5c: 4, 0x5d: 1, 0x5e: 1, 0x5f: 1, 0x60: 1, 0x61: 1,
    0x62: 1, 0x63: 1, 0x64: 1, 0x65: 1, 0x66: 1, 0x67: 1, 0x68: 1, 0x69: 1, 0x6a: 1, 0x6b: 2,
    0x6c: 1, 0x6e: 1, 0x6f: 1, 0x70: 2, 0x71: 2, 0x72: 2, 0x73: 1, 0x74: 2, 0x75: 2, 0x76: 4,
    0x77: 2, 0x78: 1, 0x79: 1, 0x7a: 1, 0x7b: 1, 0x7c: 1, 0x7d: 4, 0x7e: 4, 0x7f: 4,
}

FAMILIES = sorted(set(MANUAL_FAMILIES) & set(CODE_GRAN))

# doc/file-formats.md, "Table: Codings of the Segment Field" (0..9).  The table calls
# segment 6 BDATA, the SEGMENT statement of the assembler calls it BITDATA: both
# spellings are accepted.  Segment 10 is EEDATA (segment numbers in
# doc/assembler-usage.md, SEGMENT in doc/pseudo-instructions.md; asl writes it for
# AVR and PIC16C8x).  Segment 0 is "<undefined>" in the table, which is not a name
# a listing can be held to: for it any word that is not the name of another segment
# is accepted (the tool prints NOTHING).
SEGMENTS = {0: (), 1: ('CODE',), 2: ('DATA',), 3: ('IDATA',), 4: ('XDATA',), 5: ('YDATA',),
            6: ('BDATA', 'BITDATA'), 7: ('IO',), 8: ('REG',), 9: ('ROMDATA',), 10: ('EEDATA',)}


def segment_of_name(word):
    """segment number a printed segment name stands for (0 for a word that names no segment 1..10)"""
    w = word.upper()
    for k, names in SEGMENTS.items():
        if w in names:
            return k
    return 0


def segment_name_ok(seg, word):
    return segment_of_name(word) == seg


def short_gran(family):
    return CODE_GRAN[family]


# ---------------------------------------------------------------------------
# reading

def read(buf):
    """strict reader; short records get the granularity of their family's CODE segment"""
    return pfile.parse(buf, short_gran=short_gran, strict=True)


def norm(rec):
    """header-encoding independent value of a record"""
    if rec.kind == 'data':
        return ('data', rec.cpu, rec.seg, rec.gran, rec.start, bytes(rec.data))
    if rec.kind == 'entry':
        return ('entry', rec.entry)
    return (rec.kind,)


DATA_FIELDS = ('kind', 'family', 'segment', 'granularity', 'start', 'payload')


def first_altered_field(a, b):
    """a, b: normalised data records; name of the first field that differs (length before payload)"""
    for i in (1, 2, 3, 4):
        if a[i] != b[i]:
            return DATA_FIELDS[i]
    if len(a[5]) != len(b[5]):
        return 'length'
    return 'payload'


def is_subsequence(small, big):
    it = iter(big)
    return all(any(x == y for y in it) for x in small)


# ---------------------------------------------------------------------------
# PBIND

def bind_expected(inputs, flt):
    """inputs: list of record lists (in command line order); flt: None or set of family bytes.
    returns (data-and-entry sequence, data-only sequence) of normalised records"""
    full = []
    for recs in inputs:
        for r in recs:
            if r.kind == 'data':
                if flt is None or r.cpu in flt:
                    full.append(norm(r))
            elif r.kind == 'entry':
                full.append(norm(r))
    return full, [x for x in full if x[0] == 'data']


def number_spelling(rng, v):
    """the notations doc/utility-programs.md allows for numbers on the command line"""
    k = rng.randrange(5)
    if k == 0:
        return '$%x' % v
    if k == 1:
        return '0x%x' % v
    if k == 2:
        # a hexadecimal number ending in h must start with a digit to be a number
        s = '%xh' % v
        return s if s[0].isdigit() else '0' + s
    if k == 3:
        return '$%02X' % v
    return '%d' % v


# ---------------------------------------------------------------------------
# PLIST

_HEX8 = re.compile(r'^[0-9A-Fa-f]{8}$')
_HEX4 = re.compile(r'^[0-9A-Fa-f]{4}$')
_TOTAL = re.compile(r'(\S+)\s+bytes?\s+(\S+)\s*$')


class Listing:
    def __init__(self):
        self.rows = []        # raw text of the table rows
        self.totals = []      # (number text, segment name)
        self.ok = False
        self.why = ''


def parse_listing(text):
    """split PLIST's output into table rows (between the dashed rule and the
    following empty line) and the summary lines after it"""
    lst = Listing()
    lines = text.split('\n')
    start = None
    for i, l in enumerate(lines):
        s = l.strip()
        if len(s) >= 20 and set(s) == {'-'}:
            start = i + 1
            break
    if start is None:
        lst.why = 'no table header rule'
        return lst
    i = start
    while i < len(lines) and lines[i].strip() != '':
        lst.rows.append(lines[i])
        i += 1
    for l in lines[i:]:
        if not l.strip():
            continue
        m = _TOTAL.search(l)
        if m:
            lst.totals.append((m.group(1), m.group(2)))
        else:
            lst.totals.append((None, l.strip()))
    lst.ok = True
    return lst


def parse_data_row(row):
    """-> dict(family, segment, start, length, end) or None"""
    tok = row.split()
    if len(tok) < 5:
        return None
    end, length, start, seg = tok[-1], tok[-2], tok[-3], tok[-4]
    if not (_HEX8.match(end) and _HEX4.match(length) and _HEX8.match(start)):
        return None
    fam = ' '.join(tok[:-4])
    return {'family': fam, 'segment': seg, 'start': int(start, 16), 'length': int(length, 16), 'end': int(end, 16)}


def _n(s):
    return re.sub(r'[^A-Z0-9]', '', s.upper())


def _wild(a, b):
    """equal length, an X on either side stands for any character (680x0, NS32xxx ...)"""
    return len(a) == len(b) and all(x == y or x == 'X' or y == 'X' for x, y in zip(a, b))


def _common(a, b, n=2):
    return any(a[i:i + n] in b for i in range(len(a) - n + 1))


def family_name_ok(family, printed):
    """does the printed code type denote the family the manual's table gives for this header byte?"""
    p = _n(printed)
    if len(p) < 2 or printed.startswith('?'):
        return False
    for manual in MANUAL_FAMILIES[family].split('|'):
        m = _n(manual)
        if p == m or p in m or m in p or _wild(p, m):
            return True
        # alternatives inside one manual entry: "65xx/MELPS-740", "6800, 6301, 6811"
        for part in re.split(r'[/,]', manual):
            q = _n(part)
            if len(q) >= 2 and (p == q or _wild(p, q)):
                return True
        if family in LOOSE_NAME and _common(p, m):
            return True
    return False
