"""Instruction tables of the Motorola 6800 and the Intel 4004 for the C15 round-trip check.

Written from the ISA definitions (Motorola M6800 programming reference: opcode map;
Intel MCS-4 user's manual: instruction set), NOT from the assembler's or the
disassembler's tables.  Each entry yields assembler text in the syntax the AS
manual / golden tests use, the length of the instruction and the bytes the ISA
defines for it, so a generated program has a known layout and a second,
independent opinion about its image.

An instruction is described by a dict:
  mn     mnemonic (lower case)
  mode   addressing mode tag (goes into the evidence)
  len    length in bytes
  flow   'seq' falls through | 'cond' falls through or goes to target |
         'call' goes to target and comes back | 'jump' goes to target only |
         'stop' does not fall through (return / computed jump)
  target None | 'rel8' (6800: -128..127 from the end of the instruction) |
         'abs16' | 'abs12' (4004 JUN/JMS) | 'page8' (4004 JCN/ISZ: same 256-byte page as the
         byte following the instruction)
  text(tlabel)            -> operand field text (tlabel = name of the target label or None)
  code(addr, taddr)       -> bytes
"""


def _h2(v):
    return '$%02x' % v


def _h4(v):
    return '$%04x' % v


# ---------------------------------------------------------------------------
# Motorola 6800

M68_INHERENT = {
    'nop': 0x01, 'tap': 0x06, 'tpa': 0x07, 'inx': 0x08, 'dex': 0x09, 'clv': 0x0a, 'sev': 0x0b,
    'clc': 0x0c, 'sec': 0x0d, 'cli': 0x0e, 'sei': 0x0f, 'sba': 0x10, 'cba': 0x11, 'tab': 0x16,
    'tba': 0x17, 'daa': 0x19, 'aba': 0x1b, 'tsx': 0x30, 'ins': 0x31, 'pula': 0x32, 'pulb': 0x33,
    'des': 0x34, 'txs': 0x35, 'psha': 0x36, 'pshb': 0x37, 'wai': 0x3e, 'swi': 0x3f,
}
M68_STOP = {'rts': 0x39, 'rti': 0x3b}
# read-modify-write group: accumulator A 4x, accumulator B 5x, indexed 6x, extended 7x
M68_RMW = {'neg': 0x0, 'com': 0x3, 'lsr': 0x4, 'ror': 0x6, 'asr': 0x7, 'asl': 0x8, 'rol': 0x9,
           'dec': 0xa, 'inc': 0xc, 'tst': 0xd, 'clr': 0xf}
# accumulator/memory group: A: 8x imm, 9x dir, Ax idx, Bx ext; B: Cx..Fx
M68_ACC = {'sub': 0x0, 'cmp': 0x1, 'sbc': 0x2, 'and': 0x4, 'bit': 0x5, 'lda': 0x6, 'sta': 0x7,
           'eor': 0x8, 'adc': 0x9, 'ora': 0xa, 'add': 0xb}
# 16-bit group: (opcode of the immediate form or None, direct, indexed, extended)
M68_R16 = {'cpx': (0x8c, 0x9c, 0xac, 0xbc), 'lds': (0x8e, 0x9e, 0xae, 0xbe), 'sts': (None, 0x9f, 0xaf, 0xbf),
           'ldx': (0xce, 0xde, 0xee, 0xfe), 'stx': (None, 0xdf, 0xef, 0xff)}
M68_BCC = {'bhi': 0x22, 'bls': 0x23, 'bcc': 0x24, 'bcs': 0x25, 'bne': 0x26, 'beq': 0x27, 'bvc': 0x28,
           'bvs': 0x29, 'bpl': 0x2a, 'bmi': 0x2b, 'bge': 0x2c, 'blt': 0x2d, 'bgt': 0x2e, 'ble': 0x2f}


def _fixed(mn, op, flow='seq', mode='inh'):
    return dict(mn=mn, mode=mode, len=1, flow=flow, target=None,
                text=lambda t: '', code=lambda a, ta: bytes([op]))


def _rel(mn, op, flow):
    return dict(mn=mn, mode='rel', len=2, flow=flow, target='rel8',
                text=lambda t: t, code=lambda a, ta: bytes([op, (ta - (a + 2)) & 0xff]))


def _abs_t(mn, op, flow):
    return dict(mn=mn, mode='ext-label', len=3, flow=flow, target='abs16',
                text=lambda t: t, code=lambda a, ta: bytes([op, ta >> 8, ta & 0xff]))


def _imm8(mn, op, v):
    return dict(mn=mn, mode='imm8', len=2, flow='seq', target=None,
                text=lambda t: '#' + _h2(v), code=lambda a, ta: bytes([op, v]))


def _imm16(mn, op, v):
    return dict(mn=mn, mode='imm16', len=3, flow='seq', target=None,
                text=lambda t: '#' + _h4(v), code=lambda a, ta: bytes([op, v >> 8, v & 0xff]))


def _dir(mn, op, v):
    return dict(mn=mn, mode='dir', len=2, flow='seq', target=None,
                text=lambda t: _h2(v), code=lambda a, ta: bytes([op, v]))


def _idx(mn, op, v, flow='seq'):
    return dict(mn=mn, mode='idx', len=2, flow=flow, target=None,
                text=lambda t: '%s,x' % _h2(v), code=lambda a, ta: bytes([op, v]))


def _ext(mn, op, v):
    return dict(mn=mn, mode='ext', len=3, flow='seq', target=None,
                text=lambda t: _h4(v), code=lambda a, ta: bytes([op, v >> 8, v & 0xff]))


def m6800_forms():
    """list of (name, maker(rng) -> instruction dict) covering every mnemonic x addressing mode"""
    forms = []

    def add(name, f):
        forms.append((name, f))

    for mn, op in M68_INHERENT.items():
        add(mn, (lambda mn=mn, op=op: lambda rng: _fixed(mn, op))())
    for mn, low in M68_RMW.items():
        add(mn + 'a', (lambda mn=mn, low=low: lambda rng: _fixed(mn + 'a', 0x40 | low, mode='acc'))())
        add(mn + 'b', (lambda mn=mn, low=low: lambda rng: _fixed(mn + 'b', 0x50 | low, mode='acc'))())
        add(mn + ' idx', (lambda mn=mn, low=low: lambda rng: _idx(mn, 0x60 | low, rng.randrange(256)))())
        # no direct form exists for this group, so any 16-bit address (also < $100) is extended
        add(mn + ' ext', (lambda mn=mn, low=low: lambda rng: _ext(mn, 0x70 | low, rng.choice([rng.randrange(0x10000), rng.randrange(256)])))())
    for mn, low in M68_ACC.items():
        for acc, base in (('a', 0x80), ('b', 0xc0)):
            name = mn + acc
            if mn != 'sta':
                add(name + ' imm', (lambda name=name, op=base | low: lambda rng: _imm8(name, op, rng.randrange(256)))())
            add(name + ' dir', (lambda name=name, op=base | 0x10 | low: lambda rng: _dir(name, op, rng.randrange(256)))())
            add(name + ' idx', (lambda name=name, op=base | 0x20 | low: lambda rng: _idx(name, op, rng.randrange(256)))())
            # a direct form exists: the assembler chooses it below $100, so extended needs >= $100
            add(name + ' ext', (lambda name=name, op=base | 0x30 | low: lambda rng: _ext(name, op, rng.randrange(0x100, 0x10000)))())
    for mn, (imm, d, x, e) in M68_R16.items():
        if imm is not None:
            add(mn + ' imm', (lambda mn=mn, op=imm: lambda rng: _imm16(mn, op, rng.randrange(0x10000)))())
        add(mn + ' dir', (lambda mn=mn, op=d: lambda rng: _dir(mn, op, rng.randrange(256)))())
        add(mn + ' idx', (lambda mn=mn, op=x: lambda rng: _idx(mn, op, rng.randrange(256)))())
        add(mn + ' ext', (lambda mn=mn, op=e: lambda rng: _ext(mn, op, rng.randrange(0x100, 0x10000)))())
    for mn, op in M68_BCC.items():
        add(mn, (lambda mn=mn, op=op: lambda rng: _rel(mn, op, 'cond'))())
    add('bsr', lambda rng: _rel('bsr', 0x8d, 'call'))
    add('jsr ext', lambda rng: _abs_t('jsr', 0xbd, 'call'))
    add('jsr idx', lambda rng: _idx('jsr', 0xad, rng.randrange(256)))
    return forms


def m6800_enders():
    """instructions that end a routine (control does not fall through)"""
    return [
        ('rts', lambda rng: _fixed('rts', 0x39, 'stop')),
        ('rti', lambda rng: _fixed('rti', 0x3b, 'stop')),
        ('bra', lambda rng: _rel('bra', 0x20, 'jump')),
        ('jmp ext', lambda rng: _abs_t('jmp', 0x7e, 'jump')),
        ('jmp idx', lambda rng: _idx('jmp', 0x6e, rng.randrange(256), flow='stop')),
    ]


# ---------------------------------------------------------------------------
# Intel 4004

I4_FIXED = {
    'nop': 0x00, 'wrm': 0xe0, 'wmp': 0xe1, 'wrr': 0xe2, 'wpm': 0xe3, 'wr0': 0xe4, 'wr1': 0xe5, 'wr2': 0xe6,
    'wr3': 0xe7, 'sbm': 0xe8, 'rdm': 0xe9, 'rdr': 0xea, 'adm': 0xeb, 'rd0': 0xec, 'rd1': 0xed, 'rd2': 0xee,
    'rd3': 0xef, 'clb': 0xf0, 'clc': 0xf1, 'iac': 0xf2, 'cmc': 0xf3, 'cma': 0xf4, 'ral': 0xf5, 'rar': 0xf6,
    'tcc': 0xf7, 'dac': 0xf8, 'tcs': 0xf9, 'stc': 0xfa, 'daa': 0xfb, 'kbp': 0xfc, 'dcl': 0xfd,
}
I4_REG = {'inc': 0x60, 'add': 0x80, 'sub': 0x90, 'ld': 0xa0, 'xch': 0xb0}


def _reg(rng, n):
    # single registers: R0..R9, RA..RF (golden test t_4004), decimal two-digit form R10..R15
    if n >= 10 and rng.random() < 0.5:
        return 'r%d' % n
    return 'r%x' % n


def _pair(rng, p):
    # pairs: RnRm with hex digits (manual, 4004/4040 hints) or RnP (golden test t_4004)
    if rng.random() < 0.5:
        return 'r%dp' % p
    return 'r%xr%x' % (2 * p, 2 * p + 1)


def i4004_forms():
    forms = []

    def add(name, f):
        forms.append((name, f))

    for mn, op in I4_FIXED.items():
        add(mn, (lambda mn=mn, op=op: lambda rng: dict(mn=mn, mode='fixed', len=1, flow='seq', target=None,
                                                       text=lambda t: '', code=lambda a, ta: bytes([op])))())
    for mn, base in I4_REG.items():
        def mk(rng, mn=mn, base=base):
            n = rng.randrange(16)
            r = _reg(rng, n)
            # ADD/SUB/LD accept an optional leading accumulator operand (golden test t_4004: "add a, r0")
            txt = ('a,' + r) if (mn in ('add', 'sub', 'ld') and rng.random() < 0.4) else r
            return dict(mn=mn, mode='reg', len=1, flow='seq', target=None, text=lambda t: txt,
                        code=lambda a, ta: bytes([base | n]))
        add(mn, mk)

    def mk_fim(rng):
        p = rng.randrange(8)
        v = rng.randrange(256)
        ps = _pair(rng, p)
        return dict(mn='fim', mode='pair,imm8', len=2, flow='seq', target=None,
                    text=lambda t: '%s,%s' % (ps, '0%02xh' % v), code=lambda a, ta: bytes([0x20 | (p << 1), v]))
    add('fim', mk_fim)
    for mn, op in (('src', 0x21), ('fin', 0x30)):
        def mk(rng, mn=mn, op=op):
            p = rng.randrange(8)
            ps = _pair(rng, p)
            return dict(mn=mn, mode='pair', len=1, flow='seq', target=None, text=lambda t: ps,
                        code=lambda a, ta: bytes([op | (p << 1)]))
        add(mn, mk)

    def mk_ldm(rng):
        v = rng.randrange(16)
        return dict(mn='ldm', mode='imm4', len=1, flow='seq', target=None, text=lambda t: '%d' % v,
                    code=lambda a, ta: bytes([0xd0 | v]))
    add('ldm', mk_ldm)

    def mk_jcn(rng):
        # condition: the numeric form covers all 16 encodings; the letter forms are those of the golden test
        c = rng.randrange(16)
        letters = {4: 'z', 12: 'nz', 2: 'c', 10: 'nc', 1: 't', 9: 'nt'}
        cs = letters[c] if (c in letters and rng.random() < 0.5) else '%d' % c
        mn = rng.choice(['jcn', 'jcn', 'jcm'])
        return dict(mn=mn, mode='cond%d' % c, len=2, flow='cond', target='page8',
                    text=lambda t: '%s,%s' % (cs, t), code=lambda a, ta: bytes([0x10 | c, ta & 0xff]))
    add('jcn', mk_jcn)

    def mk_isz(rng):
        n = rng.randrange(16)
        r = _reg(rng, n)
        return dict(mn='isz', mode='reg,page8', len=2, flow='cond', target='page8',
                    text=lambda t: '%s,%s' % (r, t), code=lambda a, ta: bytes([0x70 | n, ta & 0xff]))
    add('isz', mk_isz)
    add('jms', lambda rng: dict(mn='jms', mode='abs12', len=2, flow='call', target='abs12',
                                text=lambda t: t, code=lambda a, ta: bytes([0x50 | (ta >> 8), ta & 0xff])))
    return forms


def i4004_enders():
    def mk_bbl(rng):
        v = rng.randrange(16)
        return dict(mn='bbl', mode='imm4', len=1, flow='stop', target=None, text=lambda t: '%d' % v,
                    code=lambda a, ta: bytes([0xc0 | v]))

    def mk_jin(rng):
        p = rng.randrange(8)
        ps = _pair(rng, p)
        return dict(mn='jin', mode='pair', len=1, flow='stop', target=None, text=lambda t: ps,
                    code=lambda a, ta: bytes([0x31 | (p << 1)]))
    return [
        ('bbl', mk_bbl),
        ('jun', lambda rng: dict(mn='jun', mode='abs12', len=2, flow='jump', target='abs12',
                                 text=lambda t: t, code=lambda a, ta: bytes([0x40 | (ta >> 8), ta & 0xff]))),
        ('jin', mk_jin),
    ]


# ---------------------------------------------------------------------------
# Toshiba TLCS-870 (87C00): only what the boundary programs of C15 need (TLCS-870 series instruction set:
# NOP 00, RET 05, JRS T/F,a 80+d5 / A0+d5, JR cc,a D0+cc d8, JR a FB d8; the target is relative to the
# address of the instruction + 2 in all three jump forms)

T870_CC = {'z': 0, 'nz': 1, 'cs': 2, 'cc': 3, 'le': 4, 'gt': 5, 't': 6, 'f': 7,
           'eq': 0, 'ne': 1, 'lt': 2, 'ge': 3}      # the aliases are those of the golden test t_87c800


def t870_nop():
    return dict(mn='nop', mode='fixed', len=1, flow='seq', target=None, text=lambda t: '', code=lambda a, ta: b'\x00')


def t870_ret():
    return dict(mn='ret', mode='fixed', len=1, flow='stop', target=None, text=lambda t: '', code=lambda a, ta: b'\x05')


def t870_jrs(cond):
    base = 0x80 if cond == 't' else 0xa0
    return dict(mn='jrs', mode='rel5/' + cond, len=1, flow='cond', target='rel5',
                text=lambda t: '%s,%s' % (cond, t), code=lambda a, ta: bytes([base | ((ta - (a + 2)) & 0x1f)]))


def t870_jr(cond):
    if cond is None:
        return dict(mn='jr', mode='rel8', len=2, flow='jump', target='rel8',
                    text=lambda t: t, code=lambda a, ta: bytes([0xfb, (ta - (a + 2)) & 0xff]))
    return dict(mn='jr', mode='rel8/' + cond, len=2, flow='cond', target='rel8',
                text=lambda t: '%s,%s' % (cond, t), code=lambda a, ta: bytes([0xd0 | T870_CC[cond], (ta - (a + 2)) & 0xff]))


# ---------------------------------------------------------------------------
# helpers for the boundary programs

def m6800_nop():
    return _fixed('nop', 0x01)


def m6800_rts():
    return _fixed('rts', 0x39, 'stop')


def m6800_branch(mn):
    if mn == 'bra':
        return _rel('bra', 0x20, 'jump')
    if mn == 'bsr':
        return _rel('bsr', 0x8d, 'call')
    return _rel(mn, M68_BCC[mn], 'cond')


def i4004_nop():
    return dict(mn='nop', mode='fixed', len=1, flow='seq', target=None, text=lambda t: '', code=lambda a, ta: b'\x00')


def i4004_bbl(v):
    return dict(mn='bbl', mode='imm4', len=1, flow='stop', target=None, text=lambda t: '%d' % v,
                code=lambda a, ta: bytes([0xc0 | v]))


def i4004_jcn(c, mn='jcn'):
    return dict(mn=mn, mode='cond%d' % c, len=2, flow='cond', target='page8',
                text=lambda t: '%d,%s' % (c, t), code=lambda a, ta: bytes([0x10 | c, ta & 0xff]))


def i4004_isz(n):
    return dict(mn='isz', mode='reg,page8', len=2, flow='cond', target='page8',
                text=lambda t: 'r%x,%s' % (n, t), code=lambda a, ta: bytes([0x70 | n, ta & 0xff]))
