"""Reference model of AS conditional assembly, written from doc/pseudo-instructions.md
('Conditional Assembly', 'EXITM', 'MACRO', 'REPT', 'INCLUDE') and the operator table of
doc/assembler-usage.md.  Nothing here is derived from asmif.c.

A program is a JSON-able dict

    {'consts': {name: int},         # name EQU int, defined up front (always defined)
     'cmddefs': {name: int},        # symbols defined on the command line (-D name[=value], default value TRUE = 1)
     'vars':   {name: int},         # name SET int, defined up front, re-SET inside branches
     'macros': [{'name', 'params': [...], 'body': [items]}],
     'files':  {'src': [names], 'inc': [names], 'incdir': d},   # include files next to the source / in the -i directory d (a subdirectory)
     'fwdref': 0|2|3,               # number of passes forced: 2 = the program starts with a reference to a label defined on its last
                                    # line; 3 = additionally LDA of a 16-bit constant defined at the end (assumed zero-page in pass 1,
                                    # absolute from pass 2 on, which moves every address once more)
     'items':  [items]}

item  := {'t':'mark','id':n}                      emits the 16-bit marker n (low byte first)
       | {'t':'def','kind':'label'|'equ'|'set','name':s,'val':n}   defines a global symbol
       | {'t':'setv','name':v,'val':n}             v SET n
       | {'t':'emitv','name':v}                    emits the current 16-bit value of variable v
       | {'t':'use','name':u}                      references constant u (emits its 16-bit value)
       | {'t':'poison','text':line}                a statement that would raise an error if it were assembled
       | {'t':'if','cid':k,'head':cond,'body':[..],'elifs':[[expr,[..]],..],'else':[..]|None,'else_kw':s,'end_kw':s}
       | {'t':'switch','cid':k,'styp':'int'|'flt'|'str','sel':opd,'cases':[[[opd,..],[..]],..],'else':[..]|None}
       | {'t':'call','name':m,'args':[opd|['blank'],..]}
       | {'t':'rept','n':k,'body':[..]}
       | {'t':'irp','param':p,'args':[opd,..],'body':[..]}      body once per argument, p replaced by the argument
       | {'t':'while','var':w,'n':k,'body':[..]}                w SET 0 / WHILE w<k / w SET w+1 / body / ENDM  (the manual's counting idiom)
       | {'t':'exitm'}
cond  := ['expr',e] | ['def',name,neg] | ['used',name,neg] | ['exist',name,neg,quoted] | ['blank',[arg,..],neg]
arg   := ['txt',s] | ['param',p]                  (s may be '')
e     := ['int',n] | ['flt',x] | ['str',s] | ['sym',name] | ['param',p] | ['cmp',op,e,e]
       | ['not',e] | ['and',e,e] | ['or',e,e] | ['band',e,e]          (band: binary AND '&' of two integers)
       | ['isdef',name]                                               (built-in function DEFINED(name))
opd   := ['int',n] | ['flt',x] | ['str',s] | ['sym',name] | ['param',p] | ['add',opd,opd]

Semantics taken from the manual:
 * IF: 'true' is any value different from 0 (not only 1, not only the low byte).
 * IF: the first block whose IF/ELSEIF expression is true (not 0) is assembled, all others are skipped; the
   block of a parameterless ELSEIF (or ELSE) is assembled only if all previous expressions were false.
 * IFDEF/IFNDEF: symbol defined before the statement; IFUSED/IFNUSED: referenced at least once up to now;
   IFEXIST/IFNEXIST: INCLUDE search rules (extension INC added to a name without one, directory of the source
   first, then the -i list; the list is ignored for a name with a path, which is relative to the source's directory); IFB: all arguments of the list are empty strings (an empty list included); IFNB: not IFB.
 * SWITCH/CASE: only the first CASE whose value list contains the selector is assembled; ELSECASE if none did;
   a warning is issued at ENDCASE if no CASE matched and there is no ELSECASE.
 * all of this is a function of the position in the source, not of the pass: 'defined before' / 'referenced up to now' mean the
   statements above the probe in THIS pass (symbol values survive a pass, their defined/used marks do not), so a program that needs
   two or three passes selects the same branches in every pass.
 * statements in skipped blocks have no effect at all (no code, no symbols, no references, no diagnostics).
 * EXITM (executed, i.e. not skipped) ends the innermost macro expansion / REPT / IRP / WHILE and resets the stack of open
   IF/SWITCH constructs to the state before that expansion started.
 * macro parameters are inserted textually; a missing or empty argument is an empty string.
"""


class ExitM(Exception):
    pass


class ModelError(Exception):
    """The program is outside the modelled subset (generator bug): harness failure, never a verdict."""


def fmt_int(n, hexy=False):
    if hexy and n >= 0:
        return '$%x' % n
    return str(n)


def fmt_flt(x):
    s = repr(float(x))
    if 'e' in s or 'inf' in s or 'nan' in s:
        raise ModelError('float literal %r' % x)
    return s


# ---------------------------------------------------------------------------
# rendering

def r_expr(e, top=True):
    k = e[0]
    if k == 'int':
        s = fmt_int(e[1], len(e) > 2 and e[2])
        return s if (top or e[1] >= 0) else '(%s)' % s
    if k == 'flt':
        return fmt_flt(e[1])
    if k == 'str':
        return '"%s"' % e[1]
    if k == 'sym':
        return e[1]
    if k == 'param':
        return e[1]
    if k == 'cmp':
        s = '%s%s%s' % (r_expr(e[2], False), e[1], r_expr(e[3], False))
    elif k == 'not':
        s = '~~%s' % r_expr(e[1], False)
    elif k == 'and':
        s = '%s&&%s' % (r_expr(e[1], False), r_expr(e[2], False))
    elif k == 'or':
        s = '%s||%s' % (r_expr(e[1], False), r_expr(e[2], False))
    elif k == 'add':
        s = '%s+%s' % (r_expr(e[1], False), r_expr(e[2], False))
    elif k == 'band':
        s = '%s&%s' % (r_expr(e[1], False), r_expr(e[2], False))
    elif k == 'isdef':
        return 'defined(%s)' % e[1]
    else:
        raise ModelError('expr ' + repr(e))
    return s if top else '(%s)' % s


def r_arg(a):
    if a[0] == 'blank':
        return ''
    if a[0] == 'txt':
        return a[1]
    if a[0] == 'int' and a[1] < 0:
        # macro arguments are inserted textually: an unparenthesised negative number would change the meaning of the
        # expression it lands in (~~-256 is not ~~(-256): unary minus is parsed like a binary operator)
        return '(%d)' % a[1]
    return r_expr(a)


def r_cond_head(c):
    k = c[0]
    if k == 'expr':
        return 'if', r_expr(c[1])
    if k == 'def':
        return ('ifndef' if c[2] else 'ifdef'), c[1]
    if k == 'used':
        return ('ifnused' if c[2] else 'ifused'), c[1]
    if k == 'exist':
        return ('ifnexist' if c[2] else 'ifexist'), ('"%s"' % c[1] if c[3] else c[1])
    if k == 'blank':
        return ('ifnb' if c[2] else 'ifb'), ','.join(r_arg(a) for a in c[1])
    raise ModelError('cond ' + repr(c))


def head_name(c):
    return r_cond_head(c)[0].upper()


def render_items(items, lines, ind=0):
    pad = '\t' + ' ' * ind
    for it in items:
        t = it['t']
        if t == 'mark':
            lines.append('%sbyt\t%d,%d' % (pad, it['id'] & 255, it['id'] >> 8))
        elif t == 'def':
            if it['kind'] == 'label':
                lines.append('%s:' % it['name'])
            else:
                lines.append('%s\t%s\t%d' % (it['name'], it['kind'], it['val']))
        elif t == 'setv':
            lines.append('%s\tset\t%d' % (it['name'], it['val']))
        elif t in ('emitv', 'use'):
            lines.append('%sadr\t%s' % (pad, it['name']))
        elif t == 'poison':
            lines.append(it['text'])
        elif t == 'if':
            op, arg = r_cond_head(it['head'])
            lines.append('%s%s%s' % (pad, op, ('\t' + arg) if arg else ''))
            render_items(it['body'], lines, ind + 1)
            for e, body in it['elifs']:
                lines.append('%selseif\t%s' % (pad, r_expr(e)))
                render_items(body, lines, ind + 1)
            if it['else'] is not None:
                lines.append('%s%s' % (pad, it.get('else_kw', 'else')))
                render_items(it['else'], lines, ind + 1)
            lines.append('%s%s' % (pad, it.get('end_kw', 'endif')))
        elif t == 'switch':
            lines.append('%sswitch\t%s' % (pad, r_expr(it['sel'])))
            for vals, body in it['cases']:
                lines.append('%scase\t%s' % (pad, ','.join(r_expr(v) for v in vals)))
                render_items(body, lines, ind + 1)
            if it['else'] is not None:
                lines.append('%selsecase' % pad)
                render_items(it['else'], lines, ind + 1)
            lines.append('%sendcase' % pad)
        elif t == 'call':
            args = ','.join(r_arg(a) for a in it['args'])
            lines.append('%s%s%s' % (pad, it['name'], ('\t' + args) if args else ''))
        elif t == 'rept':
            lines.append('%srept\t%d' % (pad, it['n']))
            render_items(it['body'], lines, ind + 1)
            lines.append('%sendm' % pad)
        elif t == 'while':
            lines.append('%s\tset\t0' % it['var'])
            lines.append('%swhile\t%s<%d' % (pad, it['var'], it['n']))
            lines.append('%s\tset\t%s+1' % (it['var'], it['var']))
            render_items(it['body'], lines, ind + 1)
            lines.append('%sendm' % pad)
        elif t == 'irp':
            lines.append('%sirp\t%s,%s' % (pad, it['param'], ','.join(r_arg(a) for a in it['args'])))
            render_items(it['body'], lines, ind + 1)
            lines.append('%sendm' % pad)
        elif t == 'exitm':
            lines.append('%sexitm' % pad)
        else:
            raise ModelError('item ' + repr(it))


def render(prog):
    lines = ['\tcpu\t6502']
    for name, val in prog.get('consts', {}).items():
        lines.append('%s\tequ\t%d' % (name, val))
    for name, val in prog.get('vars', {}).items():
        lines.append('%s\tset\t%d' % (name, val))
    for m in prog.get('macros', []):
        lines.append('%s\tmacro\t%s' % (m['name'], ','.join(m['params'])))
        render_items(m['body'], lines, 1)
        lines.append('\tendm')
    if prog.get('fwdref'):
        lines.append('\tadr\tfwdlabel')
        if prog['fwdref'] >= 3:
            lines.append('\tlda\tfwdconst')
    render_items(prog['items'], lines)
    if prog.get('fwdref'):
        if prog['fwdref'] >= 3:
            lines.append('fwdconst\tequ\t$1234')
        lines.append('fwdlabel:')
    return '\n'.join(lines) + '\n'


def prologue_len(prog):
    return {0: 0, 2: 2, 3: 5}[int(prog.get('fwdref') or 0)]


# ---------------------------------------------------------------------------
# interpretation

class Result:
    def __init__(self):
        self.out = bytearray()
        self.defined = {}       # NAME -> int value or None (label)
        self.tracked = set()    # every NAME that some 'def' item of the program could define
        self.warnings = 0
        self.taken = {}         # cid -> set of branch indices that were assembled at least once
        self.reached = {}       # cid -> number of times the construct was executed
        self.maxdepth = 0
        self.exitm_unwound = 0  # number of open constructs discarded by executed EXITMs
        self.stmts = set()      # statement kinds executed (for the evidence)
        self.passes = 1         # passes the assembler needs
        self.ifvals = set()     # classes of the operand values of evaluated IF/ELSEIF expressions


def collect(items, fn):
    for it in items:
        fn(it)
        t = it['t']
        if t == 'if':
            collect(it['body'], fn)
            for _, b in it['elifs']:
                collect(b, fn)
            if it['else'] is not None:
                collect(it['else'], fn)
        elif t == 'switch':
            for _, b in it['cases']:
                collect(b, fn)
            if it['else'] is not None:
                collect(it['else'], fn)
        elif t in ('rept', 'irp', 'while'):
            collect(it['body'], fn)


def all_items(prog, fn):
    for m in prog.get('macros', []):
        collect(m['body'], fn)
    collect(prog['items'], fn)


def branches(it):
    """ordered list of (role, body) of a construct"""
    if it['t'] == 'if':
        br = [('head', it['body'])] + [('elseif', b) for _, b in it['elifs']]
        if it['else'] is not None:
            br.append(('else', it['else']))
        return br
    br = [('case', b) for _, b in it['cases']]
    if it['else'] is not None:
        br.append(('elsecase', it['else']))
    return br


def kind_of(it):
    if it['t'] == 'if':
        return head_name(it['head'])
    return 'SWITCH-' + it['styp']


def value_class(v):
    """coarse class of an IF/ELSEIF operand value (evidence of reach)"""
    if v == 0:
        return '0'
    if v == 1:
        return '1'
    c = 'neg' if v < 0 else ('>=2^31' if v >= 2 ** 31 else ('>=2^16' if v >= 2 ** 16 else ('>=2^8' if v >= 256 else '2..255')))
    if v & 0xffff == 0:
        c += ',low16=0'
    elif v & 0xff == 0:
        c += ',low8=0'
    return c


class Machine:
    def __init__(self, prog):
        self.prog = prog
        self.res = Result()
        self.consts = dict(prog.get('consts', {}))
        self.consts.update(prog.get('cmddefs', {}))
        self.vars = dict(prog.get('vars', {}))
        self.used = set()
        self.macros = {m['name']: m for m in prog.get('macros', [])}
        files = prog.get('files', {})
        self.files = set(files.get('src', [])) | set(files.get('inc', []))
        self.pathfiles = set('%s/%s' % (files.get('incdir'), n) for n in files.get('inc', []))
        self.depth = 0
        self.env = [{}]
        for n, v in self.consts.items():
            self.res.defined[n.upper()] = v
        for n, v in self.vars.items():
            self.res.defined[n.upper()] = v

        def track(it):
            if it['t'] == 'def':
                self.res.tracked.add(it['name'].upper())
        all_items(prog, track)

    # -- values
    def value(self, e):
        k = e[0]
        if k in ('int', 'flt', 'str'):
            return e[1]
        if k == 'sym':
            n = e[1]
            if n in self.vars:
                return self.vars[n]
            if n in self.consts:
                self.used.add(n)
                return self.consts[n]
            v = self.res.defined.get(n.upper(), KeyError)
            if v is KeyError or v is None:
                raise ModelError('expression uses symbol %s without a known value' % n)
            return v
        if k == 'param':
            b = self.env[-1].get(e[1])
            if b is None or b[0] == 'blank':
                raise ModelError('blank parameter in an expression')
            return self.value(b)
        if k == 'isdef':
            return 1 if e[1].upper() in self.res.defined else 0
        if k == 'add':
            return self.value(e[1]) + self.value(e[2])
        if k == 'band':
            a, b = self.value(e[1]), self.value(e[2])
            if not (isinstance(a, int) and isinstance(b, int)):
                raise ModelError('binary AND of non-integers')
            return a & b
        if k == 'cmp':
            a, b = self.value(e[2]), self.value(e[3])
            if isinstance(a, str) != isinstance(b, str):
                raise ModelError('mixed comparison')
            op = e[1]
            r = {'=': a == b, '==': a == b, '<>': a != b, '<': a < b, '<=': a <= b, '>': a > b, '>=': a >= b}[op]
            return 1 if r else 0
        if k == 'not':
            return 0 if self.value(e[1]) != 0 else 1
        if k == 'and':
            a, b = self.value(e[1]), self.value(e[2])
            return 1 if (a != 0 and b != 0) else 0
        if k == 'or':
            a, b = self.value(e[1]), self.value(e[2])
            return 1 if (a != 0 or b != 0) else 0
        raise ModelError('expr ' + repr(e))

    def truth(self, c):
        k = c[0]
        if k == 'expr':
            v = self.value(c[1])
            if not isinstance(v, int):
                raise ModelError('IF with a non-integer expression')
            if not (-2 ** 31 <= v < 2 ** 32):
                # the assembler range-checks the operand ('range overflow'); the manual gives no range: not generated
                raise ModelError('IF operand outside 32 bits')
            self.res.ifvals.add(value_class(v))
            return v != 0
        if k == 'def':
            return (c[1].upper() in self.res.defined) != bool(c[2])
        if k == 'used':
            if c[1] not in self.consts:
                raise ModelError('IFUSED on a symbol that is not a predefined constant')
            return (c[1] in self.used) != bool(c[2])
        if k == 'exist':
            name = c[1]
            if '.' not in name:
                name += '.inc'
            if '/' in name:
                return (name in self.pathfiles) != bool(c[2])
            return (name in self.files) != bool(c[2])
        if k == 'blank':
            blank = True
            for a in c[1]:
                if a[0] == 'param':
                    b = self.env[-1].get(a[1])
                    txt = '' if (b is None or b[0] == 'blank') else 'x'
                else:
                    txt = a[1]
                if txt != '':
                    blank = False
            return blank != bool(c[2])
        raise ModelError('cond ' + repr(c))

    def emit16(self, v):
        self.res.out += bytes([v & 255, (v >> 8) & 255])

    # -- execution of an assembled (not skipped) item list
    def run(self, items):
        for it in items:
            self.step(it)

    def step(self, it):
        t = it['t']
        res = self.res
        res.stmts.add(t)
        if t == 'mark':
            self.emit16(it['id'])
        elif t == 'def':
            n = it['name'].upper()
            if n in res.defined and it['kind'] != 'set':
                raise ModelError('symbol %s defined twice' % n)
            res.defined[n] = None if it['kind'] == 'label' else it['val']
        elif t == 'setv':
            self.vars[it['name']] = it['val']
            res.defined[it['name'].upper()] = it['val']
        elif t == 'emitv':
            self.emit16(self.vars[it['name']])
        elif t == 'use':
            self.used.add(it['name'])
            self.emit16(self.consts[it['name']])
        elif t == 'poison':
            raise ModelError('poison statement in an assembled block')
        elif t == 'if':
            self.do_construct(it)
        elif t == 'switch':
            self.do_construct(it)
        elif t == 'call':
            m = self.macros[it['name']]
            env = {}
            for i, p in enumerate(m['params']):
                env[p] = it['args'][i] if i < len(it['args']) else ['blank']
            self.env.append(env)
            d0 = self.depth
            try:
                self.run(m['body'])
            except ExitM:
                res.exitm_unwound += self.depth - d0
                self.depth = d0
            finally:
                self.env.pop()
        elif t == 'rept':
            d0 = self.depth
            try:
                for _ in range(max(0, it['n'])):
                    self.run(it['body'])
            except ExitM:
                res.exitm_unwound += self.depth - d0
                self.depth = d0
        elif t == 'while':
            d0 = self.depth
            w = it['var']
            self.vars[w] = 0
            try:
                while self.vars[w] < it['n']:
                    self.vars[w] += 1
                    self.run(it['body'])
            except ExitM:
                res.exitm_unwound += self.depth - d0
                self.depth = d0
        elif t == 'irp':
            d0 = self.depth
            try:
                for a in it['args']:
                    env = dict(self.env[-1])
                    env[it['param']] = a
                    self.env.append(env)
                    try:
                        self.run(it['body'])
                    finally:
                        self.env.pop()
            except ExitM:
                res.exitm_unwound += self.depth - d0
                self.depth = d0
        elif t == 'exitm':
            raise ExitM()
        else:
            raise ModelError('item ' + repr(it))

    def do_construct(self, it):
        res = self.res
        cid = it['cid']
        res.reached[cid] = res.reached.get(cid, 0) + 1
        res.taken.setdefault(cid, set())
        res.stmts.add(kind_of(it))
        sel = None
        br = branches(it)
        if it['t'] == 'if':
            if self.truth(it['head']):
                sel = 0
            else:
                for i, (e, _) in enumerate(it['elifs']):
                    if self.truth(['expr', e]):
                        sel = i + 1
                        break
                if sel is None and it['else'] is not None:
                    sel = len(br) - 1
        else:
            s = self.value(it['sel'])
            for i, (vals, _) in enumerate(it['cases']):
                hit = False
                for v in vals:
                    x = self.value(v)
                    if type(x) is not type(s):
                        raise ModelError('CASE value of another type than the selector')
                    if x == s:
                        hit = True
                        break
                if hit:
                    sel = i
                    break
            if sel is None:
                if it['else'] is not None:
                    sel = len(br) - 1
                else:
                    res.warnings += 1
        if sel is not None:
            res.taken[cid].add(sel)
            res.stmts.add('%s/%s' % (kind_of(it), br[sel][0]))
            self.depth += 1
            res.maxdepth = max(res.maxdepth, self.depth)
            self.run(br[sel][1])     # ExitM propagates: the construct is discarded by the unwinding
            self.depth -= 1
        else:
            res.stmts.add('%s/none' % kind_of(it))


def predict(prog):
    m = Machine(prog)
    if prog.get('fwdref'):
        m.res.out += b'\0\0'
        if prog['fwdref'] >= 3:
            m.res.out += b'\xad\x34\x12'      # 6502: LDA absolute $1234
    try:
        m.run(prog['items'])
    except ExitM:
        raise ModelError('EXITM outside macro')
    if prog.get('fwdref'):
        # the label stands behind the last emitted byte; the program starts at address 0
        n = len(m.res.out)
        m.res.out[0:2] = bytes([n & 255, n >> 8])
        m.res.passes = int(prog['fwdref'])
    return m.res
