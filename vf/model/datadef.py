"""Reference model of the data-definition pseudo-instructions of AS (property C09).

Written from doc/pseudo-instructions.md (sections DC, DS, DN/DB/DW/DD/DQ/DT, DS,
BYT/FCB, ADR/FDB, FCC, DFS/RMB, BYTE, WORD, LONG, FLOAT/DOUBLE, DATA, STRING/
RSTRING, RES, BSS, ZERO, PADDING, PACKING, BIGENDIAN, CHARSET), from
doc/assembler-usage.md (integer/float/string constants, multi character
constants) and from the public definitions of IEEE-754 binary16/32/64 and of
the 80/96-bit extended format (x87 / MC68881).  Nothing in here looks at the
C sources of the assembler.

A generated program is a list of items.  Directives (cpu, org, padding, ...)
carry no expectation; every data statement carries
  expect = 'ok'     slots: the bytes it must lay down in file order (None = the
                    manual leaves the value open: pad bytes, unused half words),
                    reserve: address units skipped without emitting anything
  expect = 'err'    the statement must be rejected with an error
Where the manual is silent about a combination the generator does not produce
it; each such restriction carries a comment starting with 'MANUAL-SILENT'.
"""
import math
from fractions import Fraction

# ---------------------------------------------------------------------------
# encoders (public format definitions)

FMT = {            # exponent bits, stored fraction bits
    'half': (5, 10),
    'single': (8, 23),
    'double': (11, 52),
}


def ieee_fields(x, ebits, fbits):
    """IEEE-754 binary interchange encoding of the double x with round-to-nearest-even.
    -> (sign, biased exponent, fraction) ; overflow gives infinity."""
    sign = 1 if math.copysign(1.0, x) < 0 else 0
    if x != x:
        raise ValueError('NaN is not generated')
    bias = (1 << (ebits - 1)) - 1
    emax = bias
    emin = 1 - bias
    if math.isinf(x):
        return sign, (1 << ebits) - 1, 0
    f = Fraction(abs(x))
    if f == 0:
        return sign, 0, 0
    # e = floor(log2(f))
    e = f.numerator.bit_length() - f.denominator.bit_length()
    if Fraction(2) ** e > f:
        e -= 1
    assert Fraction(2) ** e <= f < Fraction(2) ** (e + 1)
    if e < emin:
        e = emin
    scaled = f / (Fraction(2) ** (e - fbits))       # integer part has fbits+1 bits for normal numbers
    m = scaled.numerator // scaled.denominator
    rem = scaled - m
    if rem > Fraction(1, 2) or (rem == Fraction(1, 2) and (m & 1)):
        m += 1
    if m >= (1 << (fbits + 1)):
        m >>= 1
        e += 1
    if m >= (1 << fbits):
        if e > emax:
            return sign, (1 << ebits) - 1, 0
        return sign, e + bias, m - (1 << fbits)
    return sign, 0, m          # subnormal (or zero after rounding)


def ieee_int(x, fmt):
    ebits, fbits = FMT[fmt]
    s, e, f = ieee_fields(x, ebits, fbits)
    return (s << (ebits + fbits)) | (e << fbits) | f


def ieee_bytes(x, fmt, big):
    ebits, fbits = FMT[fmt]
    n = (1 + ebits + fbits) // 8
    return list(ieee_int(x, fmt).to_bytes(n, 'big' if big else 'little'))


def ext80_fields(x):
    """80-bit extended: sign, 15-bit exponent (bias 16383), 64-bit mantissa with explicit integer bit.
    Every finite double is exactly representable as a *normalised* extended number."""
    sign = 1 if math.copysign(1.0, x) < 0 else 0
    if math.isinf(x):
        return sign, 0x7fff, 1 << 63
    f = Fraction(abs(x))
    if f == 0:
        return sign, 0, 0
    e = f.numerator.bit_length() - f.denominator.bit_length()
    if Fraction(2) ** e > f:
        e -= 1
    m = f / (Fraction(2) ** (e - 63))
    assert m.denominator == 1
    m = m.numerator
    assert (m >> 63) == 1
    return sign, e + 16383, m


def ext80_bytes(x, big):
    s, e, m = ext80_fields(x)
    v = (((s << 15) | e) << 64) | m
    return list(v.to_bytes(10, 'big' if big else 'little'))


def ext96_bytes_be(x):
    """MC68881 96-bit memory format: sign/exponent word, 16 zero bits, 64-bit mantissa (big endian)."""
    s, e, m = ext80_fields(x)
    return list(((s << 15) | e).to_bytes(2, 'big')) + [0, 0] + list(m.to_bytes(8, 'big'))


def twos(v, bits):
    return v & ((1 << bits) - 1)


def int_fits(v, bits):
    """the one range rule of the manual's examples: a field takes what fits as signed or as unsigned"""
    return -(1 << (bits - 1)) <= v <= (1 << bits) - 1


# ---------------------------------------------------------------------------
# literals

def fmt_float(x):
    """decimal literal that strtod() maps back to exactly x, in the notation of the manual
    ([-]digits[.digits][E[-]exp]); always with a decimal point, never with '+'."""
    neg = math.copysign(1.0, x) < 0
    r = repr(abs(x))
    if 'e' in r:
        man, ex = r.split('e')
        if '.' not in man:
            man += '.0'
        exn = int(ex)
        r = '%se%d' % (man, exn)
    elif '.' not in r:
        r += '.0'
    assert float(r) == abs(x)
    return ('-' if neg else '') + r


def fmt_int(rng, v, hexstyle):
    """integer literal; decimal, or hexadecimal in the target's documented default syntax"""
    if v == -(1 << 63):
        return '(-9223372036854775807-1)'
    if v < 0:
        s = fmt_int(rng, -v, hexstyle)
        return rng.choice(['-%s', '-%s', '(-%s)']) % s
    if hexstyle and rng.random() < 0.3:
        if hexstyle == '$':
            return '$%x' % v
        if hexstyle == '0x':
            return '0x%x' % v
        if hexstyle == 'h':
            h = '%xh' % v
            return h if h[0].isdigit() else '0' + h
    return '%d' % v


# characters that may appear literally inside a generated double-quoted string
PLAIN = ('abcdefghijklmnopqrstuvwxyzABCDEFGHIJKLMNOPQRSTUVWXYZ0123456789'
         ' .,:!?()+-*/=<>#@_%&|~^[]')
# escapes of doc/assembler-usage.md "String Constants" (NUL is documented as not portable: never generated)
ESCAPES = [('\\b', 8), ('\\a', 7), ('\\e', 27), ('\\t', 9), ('\\n', 10), ('\\r', 13), ('\\\\', 92),
           ('\\h', 39), ('\\i', 34), ('\\H', 39), ('\\I', 34), ('\\T', 9), ('\\N', 10)]


def gen_string(rng, nmin, nmax, charset=None):
    """-> (source text inside the quotes, list of character codes).
    MANUAL-SILENT: whether a character written as a numeric escape also goes through CHARSET;
    numeric escapes are only generated for codes that the active table maps to themselves."""
    n = rng.randrange(nmin, nmax + 1)
    src = []
    codes = []
    after_num = False
    while len(codes) < n:
        k = rng.random()
        if k < 0.8 or after_num:
            # the character after a numeric escape is never a digit or letter (it could be read as one more digit)
            c = rng.choice(' .,:!?()+-*/=<>#@_' if after_num else PLAIN)
            if c == '[' and not codes:
                c = 'x'
            src.append(c)
            codes.append(ord(c))
            after_num = False
        elif k < 0.9:
            t, v = rng.choice(ESCAPES)
            src.append(t)
            codes.append(v)
        else:
            v = rng.randrange(1, 256)
            if charset is not None and charset[v] != v:
                continue
            form = rng.randrange(3)
            if form == 0:
                t = '\\%d' % v               # decimal, no leading zero (a leading 0 selects octal)
            elif form == 1:
                t = '\\x%02x' % v
            else:
                t = '\\0%o' % v              # octal: prefix 0
            src.append(t)
            codes.append(v)
            after_num = True
    return ''.join(src), codes


# ---------------------------------------------------------------------------
# targets

class Target:
    def __init__(self, cpu, fam, gran=1, big=False, unit_big=False, hexs=None, budget=3000, org_max=0x400,
                 padding=None, bigendian=False, packing=False, segs=None, aliases=None):
        self.cpu = cpu
        self.fam = fam                # list of statement families usable on it
        self.gran = gran              # bytes per address unit in CODE
        self.big = big                # byte order of multi-byte values
        self.unit_big = unit_big      # byte order inside one address unit in the code file (word-granular targets)
        self.hexs = hexs
        self.budget = budget          # address units a generated program may occupy
        self.org_max = org_max
        self.padding = padding        # None: PADDING not valid; else it is switched explicitly
        self.bigendian = bigendian    # BIGENDIAN valid
        self.packing = packing        # PACKING valid
        self.segs = segs or {}


TARGETS = {
    # PADDING is documented as "by default only enabled for the 680x0 family"; the generator nevertheless
    # always states PADDING ON/OFF explicitly before the first statement that depends on it
    # (MANUAL-SILENT/contradicted: defaults of other families are not relied upon).
    '68000': Target('68000', ['M16'], big=True, hexs='$', padding=True),
    '6809': Target('6809', ['M8', 'M16'], big=True, hexs='$', padding=True),
    '6800': Target('6800', ['M8', 'M16'], big=True, hexs='$', padding=True),
    '6502': Target('6502', ['M8'], big=False, hexs='$'),
    'z80': Target('z80', ['INTEL'], hexs='h'),
    '8080': Target('8080', ['INTEL'], hexs='h'),
    '8086': Target('8086', ['INTEL'], hexs='h'),
    '8051': Target('8051', ['INTEL'], hexs='h', bigendian=True),
    'msp430': Target('msp430', ['MSP'], hexs='h', padding=True),
    'tms9900': Target('tms9900', ['MSP'], big=True, hexs='h', padding=True),
    'atmega8': Target('atmega8', ['AVR'], gran=2, hexs='0x', packing=True, budget=1500, org_max=0x200,
                      segs={'data': (1, 0x60, 0x100, 500)}),
    '320c25': Target('320c25', ['TI'], gran=2, hexs=None, budget=1500),
    '320c30': Target('320c30', ['C3X'], gran=4, hexs='h', budget=800),
    '56000': Target('56000', ['DSP56'], gran=4, big=True, unit_big=True, hexs='$', budget=300),
    '16c84': Target('16c84', ['PIC'], gran=2, hexs='$', budget=500, org_max=0x100),
}


class State:
    def __init__(self, tgt):
        self.tgt = tgt
        self.addr = 0
        self.gran = tgt.gran
        self.seg = 'code'
        self.padding = False
        self.padding_known = False
        self.bigendian = False
        self.packing = False
        self.charset = list(range(256))
        self.left = tgt.budget


class Item:
    """one source line"""
    def __init__(self, text, kind='dir'):
        self.text = text
        self.kind = kind           # 'dir' or statement kind such as 'dc.w'
        self.fam = None
        self.expect = None         # None for directives
        self.slots = []            # bytes in file order (int | None)
        self.pad = 0               # pad bytes before the data (value open)
        self.reserve = 0           # units reserved
        self.spans = []            # (first slot, end slot, argument class)
        self.errcls = None
        self.addr = None           # unit address at which the statement starts (filled by the generator)
        self.gran = 1
        self.seg = 'code'
        self.flags = ''
        self.cpu = None

    def classes(self):
        return sorted(set(c for _, _, c in self.spans))


# ---------------------------------------------------------------------------
# value pools

def pick_int_ok(rng, bits):
    lo = -(1 << (bits - 1))
    hi = (1 << bits) - 1
    if bits >= 64:
        # MANUAL-SILENT: integer constants above 2^63-1 (integers are "64 bits on some platforms")
        hi = (1 << 63) - 1
    k = rng.randrange(12)
    if k == 0:
        return lo, 'int-signed-min'
    if k == 1:
        return hi, 'int-unsigned-max'
    if k == 2:
        return (1 << (bits - 1)) - 1, 'int-signed-max'
    if k == 3:
        return 1 << (bits - 1), 'int-above-signed-max'
    if k == 4:
        return -1, 'int-minus-one'
    if k == 5:
        return 0, 'int-zero'
    if k == 6:
        return lo + 1, 'int-signed-min'
    if k == 7:
        return hi - 1, 'int-unsigned-max'
    if k <= 9:
        return rng.randrange(lo, 0), 'int-negative'
    return rng.randrange(0, hi + 1), 'int-positive'


def pick_int_bad(rng, bits):
    """value that does not fit a field of `bits` bits (bits < 64) -> (value, class)"""
    lo = -(1 << (bits - 1))
    hi = (1 << bits) - 1
    k = rng.randrange(10)
    if k == 0:
        v = lo - 1
    elif k == 1:
        v = hi + 1
    elif k == 2:
        v = lo - rng.randrange(1, 1000)
    elif k == 3:
        v = hi + rng.randrange(1, 1000)
    elif k == 4:
        v = (1 << 32) + rng.randrange(0, hi + 1)          # low bits alone would fit
    elif k == 5:
        v = -(1 << 32) - rng.randrange(1, -lo + 1)
    elif k == 6:
        v = (rng.randrange(1, 1 << 20) << 32) + rng.randrange(0, hi + 1)
    elif k == 7:
        v = rng.choice([(1 << 63) - 1, -(1 << 63), (1 << 62) + 5])
    elif k == 8:
        v = hi + (1 << rng.randrange(bits, 62))
    else:
        v = lo - (1 << rng.randrange(bits, 62))
    if bits >= 63 or int_fits(v, bits):
        v = hi + 1
    assert not int_fits(v, bits) and -(1 << 63) <= v < (1 << 63)
    if bits == 32:
        cls = 'needs-more-than-32-bit'
    elif bits < 32 and (v >= (1 << 32) or v < -(1 << 32)):
        cls = 'beyond-32-bit'
    elif v > hi:
        cls = 'above-unsigned-limit'
    else:
        cls = 'below-signed-limit'
    return v, cls


DBL_MAX = 1.7976931348623157e308
FLT_MAX = 3.4028234663852886e38          # (2^24-1) * 2^104
HALF_MAX = 65504.0                       # (2^11-1) * 2^5
# values at the upper end of the finite range of each format: all are exactly representable in the format
# and must be laid down exactly
FLOAT_INSIDE = {
    'half': [HALF_MAX, 65472.0, 65504.0, 32768.0],
    'single': [FLT_MAX, 3.4028232635611926e38, 3.4e38, 3.3e38],
    'double': [DBL_MAX, math.nextafter(DBL_MAX, 0.0), 1.7e308],
    'ext': [DBL_MAX, 1.0e308],
}
# values that do not fit: from the IEEE overflow threshold (max finite + half an ulp, which round-to-nearest-even
# turns into infinity) upwards.  "A value that does not fit the field is rejected with an error"; the manual
# documents neither saturation nor infinity for any of these statements.
# MANUAL-SILENT (not generated): magnitudes strictly between max finite and the overflow threshold (they round
# to max finite, the assembler rejects them), and literals above the double range such as 1e309 (the manual
# limits floating point values to "roughly 10^308"; what a larger literal denotes is not described - the
# pinned tree reads it as infinity and stores infinity).
FLOAT_OUTSIDE = {
    'half': [65520.0, HALF_MAX * (1 + 2.0 ** -11), 2 * HALF_MAX, 1.0e5, 1.0e39, 1.0e300, DBL_MAX],
    'single': [3.4028235677973366e38, FLT_MAX * (1 + 2.0 ** -24), 2 * FLT_MAX, 3.5e38, 1.0e39, 1.0e300, DBL_MAX],
}


def _rand_sig(rng, bits):
    """random odd significand with exactly `bits` bits"""
    return (1 << (bits - 1)) | rng.getrandbits(bits - 1) | 1


def pick_float(rng, fmt):
    """-> (double, class) for a float that the field `fmt` ('half','single','double','ext') must accept.
    All values are doubles, written as literals that strtod maps back exactly."""
    sign = -1.0 if rng.random() < 0.4 else 1.0
    if fmt == 'ext':
        k = rng.randrange(6)
        # MANUAL-SILENT + pinned by golden images t_dc/t_dx: the encoding of 0.0 in the 80/96-bit formats
        # (the recorded images carry exponent $3C00); zero is therefore not generated for extended fields.
        if k == 0:
            return sign * math.ldexp(rng.randrange(1, 1 << 52), -1074), 'ext-from-double-subnormal'
        if k == 1:
            return sign * math.ldexp(1.0, rng.randrange(-1022, 1024)), 'ext-power-of-two'
        if k == 2:
            return sign * float(rng.randrange(1, 1 << 20)), 'ext-small-integer'
        if k == 3:
            return sign * rng.choice([5e-324, 2.2250738585072014e-308, 2.225073858507201e-308, 1.7976931348623157e308]), 'ext-double-limits'
        return sign * math.ldexp(_rand_sig(rng, 53), rng.randrange(-1021, 970) - 52), 'ext-normal'
    ebits, fbits = FMT[fmt]
    bias = (1 << (ebits - 1)) - 1
    emin = 1 - bias
    p = fbits + 1
    k = rng.randrange(14)
    if fmt == 'double':
        # conversion is the identity; what can go wrong is byte order and subnormal handling
        if k < 3:
            return sign * math.ldexp(rng.randrange(1, 1 << 52), -1074), 'double-subnormal'
        if k == 3:
            return sign * 0.0, 'double-zero'
        if k == 4:
            # the largest finite doubles fit a 64-bit field exactly
            return sign * rng.choice([DBL_MAX, math.nextafter(DBL_MAX, 0.0), 1.7e308, 1.6e308]), 'double-max'
        return sign * math.ldexp(_rand_sig(rng, 53), rng.randrange(-1022, 1020) - 52), 'double-normal'
    if k == 0:
        return sign * 0.0, fmt + '-zero'
    if k == 1:
        # exactly representable normal number
        return sign * math.ldexp(_rand_sig(rng, rng.randrange(1, p + 1)), rng.randrange(emin, bias - p)), fmt + '-exact'
    if k == 2:
        # largest finite number
        return sign * rng.choice(FLOAT_INSIDE[fmt]), fmt + '-max'
    if k in (3, 4):
        # exact tie between two neighbouring numbers of the format -> even
        e = rng.randrange(emin, bias - 1)
        m = (1 << fbits) | rng.getrandbits(fbits)
        return sign * math.ldexp(2 * m + 1, e - fbits - 1), fmt + '-halfway'
    if k == 5:
        # just beside a tie
        e = rng.randrange(emin, bias - 1)
        m = (1 << fbits) | rng.getrandbits(fbits)
        x = math.ldexp(2 * m + 1, e - fbits - 1)
        x = math.nextafter(x, rng.choice([0.0, math.inf]))
        return sign * x, fmt + '-near-halfway'
    if k == 6:
        # exactly representable subnormal
        return sign * math.ldexp(rng.randrange(1, 1 << fbits), emin - fbits), fmt + '-subnormal-exact'
    if k in (7, 8):
        # between two subnormals (53 significant bits): needs rounding at a position fixed by emin
        x = math.ldexp(rng.randrange(1, 1 << fbits) + rng.random(), emin - fbits)
        return sign * x, fmt + '-subnormal-inexact'
    if k == 9:
        # tie between two subnormals
        return sign * math.ldexp(2 * rng.randrange(0, 1 << fbits) + 1, emin - fbits - 1), fmt + '-subnormal-halfway'
    if k == 10:
        # below the smallest subnormal: rounds to zero or to the smallest subnormal
        x = math.ldexp(rng.random() + 0.01, emin - fbits - rng.randrange(0, 3))
        return sign * x, fmt + '-underflow'
    if k == 11:
        # rounding carries into the next binade / from subnormal into normal
        e = rng.randrange(emin - 1, bias - 1)
        x = math.ldexp((1 << (p + 6)) - rng.randrange(1, 32), e - p - 5)
        return sign * x, fmt + '-carry'
    return sign * math.ldexp(_rand_sig(rng, 53), rng.randrange(emin, bias - 1) - 52), fmt + '-inexact'


def pick_float_overflow(rng, fmt):
    """a finite double that does not fit the format (half, single)"""
    sign = -1.0 if rng.random() < 0.4 else 1.0
    ebits, fbits = FMT[fmt]
    bias = (1 << (ebits - 1)) - 1
    if rng.random() < 0.6:
        return sign * rng.choice(FLOAT_OUTSIDE[fmt]), fmt + '-overflow'
    return sign * math.ldexp(1.0 + rng.random(), rng.randrange(bias + 1, bias + 40)), fmt + '-overflow'


# ---------------------------------------------------------------------------
# statement builders.  Each returns an Item (expect set) or None if it has nothing to offer in this state.

class Gen:
    def __init__(self, rng, tgt):
        self.rng = rng
        self.tgt = tgt
        self.st = State(tgt)
        self.big = False       # big statements (up to the documented 1 KiB of code per line) wanted
        self.force = None      # statement kind forced for the next statement (directed cases)
        self.fixed = None      # ('ok'|'bad', value, class): float value forced for the next statement

    def pf(self, fmt):
        if self.fixed and self.fixed[0] == 'ok':
            return self.fixed[1], self.fixed[2]
        return pick_float(self.rng, fmt)

    def pfo(self, fmt):
        if self.fixed and self.fixed[0] == 'bad':
            return self.fixed[1], self.fixed[2]
        return pick_float_overflow(self.rng, fmt)

    def reps(self, normal):
        """pool of [n] repeat counts"""
        return [None, 9, 20, 33, 64, 100] if self.big else normal

    def nargs(self, normal):
        # "The parameter count may be between 1 and 20"
        return self.rng.choice([8, 13, 20] if self.big else normal)

    def pick_kind(self, pool):
        if self.force in pool:
            return self.force
        return self.rng.choice(pool)

    # -- helpers ------------------------------------------------------------
    def xlat(self, codes):
        return [self.st.charset[c] for c in codes]

    def string_arg(self, nmin=1, nmax=8):
        """double-quoted string -> (text, translated codes)"""
        src, codes = gen_string(self.rng, nmin, nmax, self.st.charset)
        return '"%s"' % src, self.xlat(codes)

    def char_const(self, nchars):
        """single-quoted (multi) character constant -> (text, integer value).  Characters are plain
        alphanumerics; 'AB' == $4142 (first character most significant), each character through CHARSET."""
        cs = [self.rng.choice('abcdefghijklmnopqrstuvwxyzABCDEFGHIJKLMNOPQRSTUVWXYZ0123456789') for _ in range(nchars)]
        v = 0
        for c in cs:
            v = (v << 8) | self.st.charset[ord(c)]
        return "'%s'" % ''.join(cs), v

    def int_arg(self, bits, allow_char=True):
        """in-range integer argument -> (text, value, class)"""
        rng = self.rng
        if allow_char and rng.random() < 0.12:
            n = 1 if bits < 16 else rng.choice([1, 1, bits // 8 if bits <= 32 else 4, 2])
            n = max(1, min(n, bits // 8))
            t, v = self.char_const(n)
            return t, v, 'char-const-%d' % n
        v, cls = pick_int_ok(rng, bits)
        return fmt_int(rng, v, self.tgt.hexs), v, cls

    def value_bytes(self, v, nbytes, big):
        return list(twos(v, nbytes * 8).to_bytes(nbytes, 'big' if big else 'little'))

    def finish(self, it, fam, kind):
        st = self.st
        it.fam = fam
        it.kind = kind
        it.cpu = self.tgt.cpu
        it.addr = st.addr
        it.gran = st.gran
        it.seg = st.seg
        fl = []
        if self.tgt.padding is not None:
            fl.append('pad' if st.padding else 'nopad')
        if self.tgt.bigendian:
            fl.append('BE' if st.bigendian else 'LE')
        if self.tgt.packing:
            fl.append('pack' if st.packing else 'nopack')
        if st.seg != 'code':
            fl.append(st.seg)
        it.flags = ','.join(fl)
        if it.expect == 'ok':
            nb = it.pad + len(it.slots)
            assert nb % st.gran == 0, (it.text, nb, st.gran)
            units = nb // st.gran + it.reserve
            st.addr += units
            st.left -= units
        return it

    def need_pad(self, size):
        st = self.st
        return 1 if (st.padding and size >= 2 and (st.addr & 1) and st.gran == 1) else 0

    # -- Motorola DC / DS ---------------------------------------------------
    M16_SIZES = {'b': (1, 'int'), 'w': (2, 'int'), 'l': (4, 'int'), 'q': (8, 'int'),
                 'c': (2, 'half'), 's': (4, 'single'), 'd': (8, 'double'), 'x': (12, 'ext')}

    def m16_dc(self, bad=False):
        rng = self.rng
        st = self.st
        attr = self.pick_kind(['b', 'b', 'w', 'w', 'l', 'q', 'c', 's', 'd', 'x', ''])
        if not attr and self.tgt.cpu != '68000':
            # MANUAL-SILENT: "The default attribute is W" (section DC) vs. "the omission of an attribute generally
            # leads to the natural operand size of a processor family": DC without attribute only on the 68000
            attr = 'w'
        size, typ = self.M16_SIZES[attr or 'w']       # "The default attribute is W"
        mnem = 'dc' + ('.' + attr if attr else '')
        it = Item('')
        mode = rng.choice(['val', 'val', 'val', 'str', 'res']) if typ == 'int' else rng.choice(['val', 'val', 'val', 'res'])
        if self.fixed:
            mode = 'val'
        if bad:
            mode = rng.choice(['val', 'val', 'val', 'mix'])
            if self.fixed:
                mode = 'val'
            if typ == 'double' or typ == 'ext' or attr == 'q':
                # every double fits DC.D and DC.X, every 64-bit integer fits DC.Q: nothing to reject but a mix
                mode = 'mix'
        nargs = rng.choice([1, 2, 3] if self.big else [1, 1, 2, 3, 4, 6])
        # MANUAL-SILENT: whether a reservation of words at an odd address is padded; such statements are
        # only generated where no padding question arises.
        if mode == 'res' and self.need_pad(size):
            mode = 'val'
        args = []
        if mode == 'res':
            tot = 0
            for _ in range(nargs):
                rep = rng.choice(self.reps([None, None, 1, 2, 3, 7]))
                args.append(('[%d]' % rep if rep else '') + '?')
                tot += (rep or 1) * size
            it.text = '%s\t%s' % (mnem, ','.join(args))
            it.expect = 'ok'
            it.reserve = tot
            it.spans = [(0, 0, 'reserve')]
            return self.finish(it, 'M16', mnem + ':?')
        if mode == 'mix':
            # "question marks as operands must not be mixed with 'normal' constants in a single statement"
            t, v, c = self.int_arg(8 if typ != 'int' else size * 8, allow_char=False)
            if typ != 'int':
                t = fmt_float(1.5)
            a = [t, '?']
            rng.shuffle(a)
            it.text = '%s\t%s' % (mnem, ','.join(a))
            it.expect = 'err'
            it.errcls = 'mixed-constant-and-placeholder'
            return self.finish(it, 'M16', mnem)
        it.pad = self.need_pad(size)
        badidx = rng.randrange(nargs) if bad else -1
        alt = False
        for i in range(nargs):
            rep = rng.choice(self.reps([None, None, None, 1, 2, 3, 5]))
            pre = '[%d]' % rep if rep else ''
            n = rep or 1
            if i == badidx:
                if typ == 'int':
                    v, cls = pick_int_bad(rng, size * 8)
                    args.append(pre + fmt_int(rng, v, self.tgt.hexs))
                    it.errcls = cls
                    it.expect = 'err'
                else:
                    x, cls = self.pfo(typ)
                    args.append(pre + fmt_float(x))
                    it.errcls = cls
                    it.expect = 'err'
                continue
            s0 = len(it.slots)
            if typ == 'int':
                if mode == 'str' and (i == 0 or rng.random() < 0.5):
                    # DC.B: string constant; wider sizes: dc.w "ab" disposes two words, one per character
                    t, codes = self.string_arg(1, 6 if size == 1 else 3)
                    args.append(pre + t)
                    for _ in range(n):
                        for c in codes:
                            it.slots += self.value_bytes(c, size, True)
                    cls = 'string'
                else:
                    t, v, cls = self.int_arg(size * 8)
                    args.append(pre + t)
                    it.slots += self.value_bytes(v, size, True) * n
            else:
                x, cls = self.pf(typ)
                args.append(pre + fmt_float(x))
                if typ == 'ext':
                    b = ext96_bytes_be(x)
                else:
                    b = ieee_bytes(x, typ, True)
                it.slots += b * n
            if rep:
                cls += '+rep'
            it.spans.append((s0, len(it.slots), cls))
        if it.expect is None:
            it.expect = 'ok'
        it.text = '%s\t%s' % (mnem, ','.join(args))
        if it.expect != 'ok':
            if it.expect == 'err':
                it.slots = []
                it.spans = []
        if len(it.slots) > 1000 or len(it.text) > 200:
            return None
        return self.finish(it, 'M16', mnem)

    def m16_ds(self, bad=False):
        if bad:
            return None
        rng = self.rng
        attr = rng.choice(['b', 'b', 'w', 'l', 'q', 's', 'd', 'x', ''])
        if not attr and self.tgt.cpu != '68000':
            attr = 'w'
        size = self.M16_SIZES[attr or 'w'][0]
        mnem = 'ds' + ('.' + attr if attr else '')
        it = Item('')
        n = rng.choice([1, 1, 2, 3, 5, 20])
        if size == 2 and rng.random() < 0.5:
            # "The other purpose is the alignment of the program counter which is achieved by a count
            # specification of 0 ... with a DS.W 0 the program counter will be rounded up to the next even
            # address".  That fixes the outcome for every program counter and either PADDING setting
            # (padding in front of the statement and the alignment itself lead to the same even address):
            # advance 1 at an odd address, 0 at an even one, nothing emitted.
            # MANUAL-SILENT: the boundary meant for the other sizes ("DS.D 0 ... next double word boundary").
            n = 0
            it.reserve = self.st.addr & 1
        else:
            if self.need_pad(size):
                attr, size, mnem = 'b', 1, 'ds.b'
            it.reserve = n * size
        it.text = '%s\t%d' % (mnem, n)
        it.expect = 'ok'
        it.spans = [(0, 0, 'reserve' if n else 'align')]
        return self.finish(it, 'M16', mnem)

    # -- Motorola 8-bit: BYT/FCB/BYTE, ADR/FDB, FCC, DFS/RMB ---------------------
    def m8_byt(self, bad=False):
        rng = self.rng
        mnem = rng.choice(['byt', 'fcb', 'byte'])
        it = Item('')
        nargs = self.nargs([1, 1, 2, 3, 5])
        badidx = rng.randrange(nargs) if bad else -1
        args = []
        for i in range(nargs):
            rep = rng.choice(self.reps([None, None, None, 1, 2, 4]))
            pre = '[%d]' % rep if rep else ''
            n = rep or 1
            s0 = len(it.slots)
            if i == badidx:
                v, cls = pick_int_bad(rng, 8)
                args.append(pre + fmt_int(rng, v, self.tgt.hexs))
                it.errcls = cls
                continue
            if rng.random() < 0.3:
                t, codes = self.string_arg(1, 6)
                args.append(pre + t)
                it.slots += codes * n
                cls = 'string'
            else:
                t, v, cls = self.int_arg(8)
                args.append(pre + t)
                it.slots += [twos(v, 8)] * n
            it.spans.append((s0, len(it.slots), cls + ('+rep' if rep else '')))
        it.text = '%s\t%s' % (mnem, ','.join(args))
        it.expect = 'err' if bad else 'ok'
        if bad:
            it.slots, it.spans = [], []
        return self.finish(it, 'M8', 'byt/fcb')

    def m8_adr(self, bad=False):
        rng = self.rng
        # MANUAL-SILENT: whether PADDING also aligns ADR/FDB words on the 68xx ("created e.g. via DC")
        if self.need_pad(2):
            return None
        mnem = rng.choice(['adr', 'fdb'])
        it = Item('')
        nargs = self.nargs([1, 1, 2, 3, 5])
        badidx = rng.randrange(nargs) if bad else -1
        args = []
        for i in range(nargs):
            rep = rng.choice(self.reps([None, None, None, 1, 2, 4]))
            pre = '[%d]' % rep if rep else ''
            n = rep or 1
            s0 = len(it.slots)
            if i == badidx:
                v, cls = pick_int_bad(rng, 16)
                args.append(pre + fmt_int(rng, v, self.tgt.hexs))
                it.errcls = cls
                continue
            t, v, cls = self.int_arg(16)
            args.append(pre + t)
            it.slots += self.value_bytes(v, 2, self.tgt.big) * n
            it.spans.append((s0, len(it.slots), cls + ('+rep' if rep else '')))
        it.text = '%s\t%s' % (mnem, ','.join(args))
        it.expect = 'err' if bad else 'ok'
        if bad:
            it.slots, it.spans = [], []
        return self.finish(it, 'M8', 'adr/fdb')

    def m8_fcc(self, bad=False):
        if bad:
            return None
        rng = self.rng
        it = Item('')
        args = []
        for i in range(rng.choice([1, 1, 2, 3])):
            rep = rng.choice(self.reps([None, None, 1, 2, 3]))
            t, codes = self.string_arg(1, 8)
            s0 = len(it.slots)
            args.append(('[%d]' % rep if rep else '') + t)
            it.slots += codes * (rep or 1)
            it.spans.append((s0, len(it.slots), 'string' + ('+rep' if rep else '')))
        it.text = 'fcc\t%s' % ','.join(args)
        it.expect = 'ok'
        return self.finish(it, 'M8', 'fcc')

    def m8_dfs(self, bad=False):
        if bad:
            return None
        rng = self.rng
        it = Item('%s\t%d' % (rng.choice(['dfs', 'rmb']), rng.choice([1, 2, 3, 10, 100])))
        it.reserve = int(it.text.split('\t')[1])
        it.expect = 'ok'
        it.spans = [(0, 0, 'reserve')]
        return self.finish(it, 'M8', 'dfs/rmb')

    # -- Intel DN DB DW DD DQ DT DS ----------------------------------------------
    def intel_tree(self, kind, depth, reserve, state):
        """one argument of a Dx statement -> (text, list of elements) ; an element is
        ('v', [bytes LSB first] or nibble, class) or ('r',) for a reserved element"""
        rng = self.rng
        if depth < 2 and rng.random() < ((0.8 if self.big else 0.35) if depth == 0 else 0.25):
            # "n DUP (list)"; the list may contain DUPs again.  MANUAL-SILENT: a count of 0.
            n = rng.choice([17, 33, 64, 129, 200] if (self.big and depth == 0) else [1, 2, 2, 3, 4, 7])
            parts = []
            elems = []
            for _ in range(rng.choice([1, 1, 2, 3])):
                t, e = self.intel_tree(kind, depth + 1, reserve, state)
                parts.append(t)
                elems += e
            elems = [(e[0], e[1], e[2] + '+dup') if e[0] == 'v' else e for e in elems]
            sp = rng.choice([' ', ' ', '  '])
            return '%d%s%s%s(%s)' % (n, sp, rng.choice(['dup', 'DUP', 'Dup']), rng.choice(['', ' ']), ','.join(parts)), elems * n
        if reserve:
            return '?', [('r', None, 'reserve')]
        be = self.st.bigendian
        if kind == 'dn':
            t, v, cls = self.int_arg(4, allow_char=False)
            return t, [('v', twos(v, 4), cls)]
        if kind == 'db':
            if rng.random() < 0.3:
                t, codes = self.string_arg(1, 6)
                return t, [('v', [c], 'string') for c in codes]
            t, v, cls = self.int_arg(8)
            return t, [('v', [twos(v, 8)], cls)]
        if kind == 'dw':
            if rng.random() < 0.3 or self.fixed:
                x, cls = self.pf('half')       # "DW: 16-bit integer or half precision"
                return fmt_float(x), [('v', ieee_bytes(x, 'half', False), cls)]
            t, v, cls = self.int_arg(16)
            return t, [('v', self.value_bytes(v, 2, False), cls)]
        if kind == 'dd':
            if rng.random() < 0.4 or self.fixed:
                x, cls = self.pf('single')
                return fmt_float(x), [('v', ieee_bytes(x, 'single', False), cls)]
            t, v, cls = self.int_arg(32)
            return t, [('v', self.value_bytes(v, 4, False), cls)]
        if kind == 'dq':
            # "DQ: double precision (64 bits)" - integer arguments are not described, but they are accepted, and "BIGENDIAN ... for the
            # instructions DB, DW, DD, DQ, and DT" leaves one reading for them: the 64-bit two's complement value, LSB first unless big-endian
            if not self.fixed and rng.random() < 0.3:
                v = rng.choice([rng.randrange(0, 1 << 62), 0x0123456789abcdef, rng.randrange(-(1 << 62), 0), 1, -1, rng.randrange(1 << 31, 1 << 34)])
                return fmt_int(rng, v, self.tgt.hexs), [('v', self.value_bytes(v, 8, False), 'int64')]
            x, cls = self.pf('double')
            return fmt_float(x), [('v', ieee_bytes(x, 'double', False), cls)]
        if kind == 'dt':
            x, cls = self.pf('ext')
            return fmt_float(x), [('v', ext80_bytes(x, False), cls)]
        raise AssertionError(kind)

    ELEM_BITS = {'dn': 4, 'db': 8, 'dw': 16, 'dd': 32, 'dq': 64, 'dt': 80}

    def pack_elems(self, it, elems, kind):
        """lay elements out in the current segment: returns False if not expressible"""
        st = self.st
        gran = st.gran
        be = st.bigendian
        bits = self.ELEM_BITS[kind]
        if all(e[0] == 'r' for e in elems):
            tot_bits = bits * len(elems)
            unit_bits = gran * 8
            # MANUAL-SILENT: reservation of a fraction of an address unit (only DS of SC14xxx is described)
            if tot_bits % unit_bits:
                return False
            it.reserve = tot_bits // unit_bits
            it.spans = [(0, 0, 'reserve')]
            return True
        if bits >= 8:
            # byte string in increasing significance per element, reversed for BIGENDIAN ON
            if gran == 1:
                for e in elems:
                    s0 = len(it.slots)
                    b = list(e[1])
                    if be:
                        b.reverse()
                    it.slots += b
                    it.spans.append((s0, len(it.slots), e[2]))
                return True
            # word-granular segment (AVR CODE): "bytes are packed in pairs into 16 bit words ... for little
            # endian, the LSB is filled first"; a wider element occupies consecutive words, low word first
            assert gran == 2 and not be
            flat = []
            for e in elems:
                for b in e[1]:
                    flat.append((b, e[2]))
            if len(flat) % 2:
                flat.append((None, 'unused-half'))      # "one half of the last word remains unused"
            for i, (b, c) in enumerate(flat):
                it.slots.append(b)
                if b is not None:
                    it.spans.append((i, i + 1, c))
            return True
        # nibbles: two per byte / four per word, "the LSB is filled first" for little endian,
        # most significant nibble first under BIGENDIAN ON
        per = gran * 2
        vals = [(e[1], e[2]) for e in elems]
        while len(vals) % per:
            vals.append((None, 'unused-half'))
        for u in range(0, len(vals), per):
            grp = vals[u:u + per]
            if any(v is None for v, _ in grp):
                # MANUAL-SILENT: value of the unused nibbles -> the bytes touched by them are left open,
                # except whole bytes that are completely defined
                pass
            # nibble i of the unit (i = 0 least significant)
            unit_nibbles = list(grp)
            if be:
                unit_nibbles.reverse()
            for byte_i in range(gran):              # file order inside the unit: little endian
                lo = unit_nibbles[2 * byte_i]
                hi = unit_nibbles[2 * byte_i + 1]
                s0 = len(it.slots)
                if lo[0] is None or hi[0] is None:
                    it.slots.append(None)
                else:
                    it.slots.append(lo[0] | (hi[0] << 4))
                    it.spans.append((s0, s0 + 1, lo[1]))
        return True

    def intel_dx(self, bad=False, kinds=('dn', 'db', 'db', 'dw', 'dw', 'dd', 'dq', 'dt'), fam='INTEL'):
        rng = self.rng
        st = self.st
        kind = self.pick_kind(kinds)
        if kind == 'dn' and st.bigendian:
            # MANUAL-SILENT: BIGENDIAN is documented "for the instructions DB, DW, DD, DQ, and DT"; the nibble
            # order of DN under BIGENDIAN ON is not described
            kind = 'db'
        mnem = kind
        if self.tgt.cpu == 'z80' and kind in ('db', 'dw') and rng.random() < 0.2:
            mnem = 'def' + kind[1]             # "DEFB/DEFW may be used instead of DB/DW in Z80-mode"
        it = Item('')
        if bad:
            which = rng.choice(['range', 'range', 'mix', 'float', 'float'])
            if self.fixed:
                which = 'float'
            if kind in ('dq', 'dt'):
                which = 'mix'
            if which == 'float' and kind not in ('dw', 'dd'):
                which = 'range'
            if which == 'mix':
                t, _ = self.intel_tree(kind, 2, False, None)
                a = [t, '?']
                rng.shuffle(a)
                it.text = '%s\t%s' % (mnem, ','.join(a))
                it.expect = 'err'
                it.errcls = 'mixed-constant-and-placeholder'
                return self.finish(it, fam, kind)
            parts = []
            nargs = rng.choice([1, 2, 3])
            badidx = rng.randrange(nargs)
            for i in range(nargs):
                if i != badidx:
                    t, _ = self.intel_tree(kind, 1, False, None)
                    parts.append(t)
                    continue
                if which == 'float':
                    fmt = 'half' if kind == 'dw' else 'single'
                    x, cls = self.pfo(fmt)
                    t = fmt_float(x)
                    it.errcls = cls
                    it.expect = 'err'
                else:
                    v, cls = pick_int_bad(rng, self.ELEM_BITS[kind])
                    t = fmt_int(rng, v, self.tgt.hexs)
                    it.errcls = cls
                    it.expect = 'err'
                if rng.random() < 0.3:
                    t = '%d dup (%s)' % (rng.choice([1, 2, 3]), t)
                parts.append(t)
            it.text = '%s\t%s' % (mnem, ','.join(parts))
            return self.finish(it, fam, kind)
        reserve = rng.random() < 0.15 and not self.fixed
        parts = []
        elems = []
        for _ in range(rng.choice([1, 1, 2, 3, 4])):
            t, e = self.intel_tree(kind, 0, reserve, None)
            parts.append(t)
            elems += e
        it.text = '%s\t%s' % (mnem, ','.join(parts))
        if len(elems) * self.ELEM_BITS[kind] // 8 > 1000 or len(it.text) > 200:
            return None
        if st.gran != 1 and kind in ('dq', 'dt'):
            return None
        if not self.pack_elems(it, elems, kind):
            return None
        it.expect = 'ok'
        return self.finish(it, fam, kind + (':?' if reserve else ''))

    def intel_ds(self, bad=False):
        if bad or self.st.gran != 1:
            return None
        n = self.rng.choice([1, 2, 3, 16, 100])
        it = Item('ds\t%d' % n)
        it.reserve = n
        it.expect = 'ok'
        it.spans = [(0, 0, 'reserve')]
        return self.finish(it, 'INTEL', 'ds')

    # -- MSP430 / TMS9900: BYTE WORD BSS ------------------------------------------
    def msp_byte(self, bad=False):
        rng = self.rng
        it = Item('')
        nargs = self.nargs([1, 1, 2, 3, 5])
        badidx = rng.randrange(nargs) if bad else -1
        args = []
        for i in range(nargs):
            s0 = len(it.slots)
            if i == badidx:
                v, cls = pick_int_bad(rng, 8)
                args.append(fmt_int(rng, v, self.tgt.hexs))
                it.errcls = cls
                continue
            if rng.random() < 0.3:
                t, codes = self.string_arg(1, 6)
                args.append(t)
                it.slots += codes
                cls = 'string'
            else:
                t, v, cls = self.int_arg(8)
                args.append(t)
                it.slots.append(twos(v, 8))
            it.spans.append((s0, len(it.slots), cls))
        it.text = 'byte\t%s' % ','.join(args)
        it.expect = 'err' if bad else 'ok'
        if bad:
            it.slots, it.spans = [], []
        return self.finish(it, 'MSP', 'byte')

    def msp_word(self, bad=False):
        rng = self.rng
        it = Item('')
        it.pad = 0 if bad else self.need_pad(2)
        nargs = self.nargs([1, 1, 2, 3, 5])
        badidx = rng.randrange(nargs) if bad else -1
        args = []
        for i in range(nargs):
            s0 = len(it.slots)
            if i == badidx:
                v, cls = pick_int_bad(rng, 16)
                args.append(fmt_int(rng, v, self.tgt.hexs))
                it.errcls = cls
                continue
            # MANUAL-SILENT: string arguments of WORD
            t, v, cls = self.int_arg(16, allow_char=False)
            args.append(t)
            it.slots += self.value_bytes(v, 2, self.tgt.big)
            it.spans.append((s0, len(it.slots), cls))
        it.text = 'word\t%s' % ','.join(args)
        it.expect = 'err' if bad else 'ok'
        if bad:
            it.slots, it.spans, it.pad = [], [], 0
        return self.finish(it, 'MSP', 'word')

    def msp_bss(self, bad=False):
        if bad:
            return None
        n = self.rng.choice([1, 2, 3, 4, 11, 64])
        it = Item('bss\t%d' % n)
        it.reserve = n
        it.expect = 'ok'
        it.spans = [(0, 0, 'reserve')]
        return self.finish(it, 'MSP', 'bss')

    # -- word-granular helpers -----------------------------------------------------
    def unit_bytes(self, v, bits=None):
        """one address unit holding the integer v -> bytes in file order"""
        g = self.st.gran
        b = list(twos(v, g * 8).to_bytes(g, 'big' if self.tgt.unit_big else 'little'))
        return b

    def packed_units(self, it, bytevals, per, msb_first, cls_of):
        """pack byte values `per` to an address unit; msb_first: first value goes to the most significant
        byte.  Unfilled positions are left open.  bytevals: list of (value, class)."""
        g = self.st.gran
        assert per == g
        vals = list(bytevals)
        while len(vals) % per:
            vals.append((None, 'unused-half'))
        for u in range(0, len(vals), per):
            grp = vals[u:u + per]            # grp[0] is the first value
            # significance order, least significant first
            lsf = list(reversed(grp)) if msb_first else grp
            order = list(reversed(lsf)) if self.tgt.unit_big else lsf
            for v, c in order:
                s0 = len(it.slots)
                it.slots.append(v)
                if v is not None:
                    it.spans.append((s0, s0 + 1, c))

    # -- TMS320C2x: WORD LONG DATA STRING RSTRING FLOAT DOUBLE BSS RES -----------------
    def ti_stmt(self, bad=False):
        rng = self.rng
        kind = self.pick_kind(['word', 'word', 'long', 'data', 'data', 'string', 'rstring', 'float', 'double'])
        it = Item('')
        nargs = self.nargs([1, 1, 2, 3, 5])
        if bad and kind == 'double':
            kind = 'word'
        badidx = rng.randrange(nargs) if bad else -1
        args = []
        bytevals = []
        force_int = False
        for i in range(nargs):
            s0 = len(it.slots)
            if kind in ('word', 'long'):
                bits = 16 if kind == 'word' else 32
                if i == badidx:
                    v, cls = pick_int_bad(rng, bits)
                    args.append(fmt_int(rng, v, None))
                    it.errcls = cls
                    continue
                # MANUAL-SILENT: string arguments of WORD/LONG
                t, v, cls = self.int_arg(bits, allow_char=False)
                args.append(t)
                v = twos(v, bits)
                it.slots += self.unit_bytes(v & 0xffff)
                if kind == 'long':
                    it.slots += self.unit_bytes(v >> 16)       # "with the order LoWord-HiWord"
                it.spans.append((s0, len(it.slots), cls))
            elif kind == 'data':
                # integers in the word range; strings: "two characters fit into one word (LSB first)".
                # MANUAL-SILENT: a string with an odd number of characters followed by more arguments
                if i == badidx:
                    v, cls = pick_int_bad(rng, 16)
                    args.append(fmt_int(rng, v, None))
                    it.errcls = cls
                    continue
                if rng.random() < 0.35 and not force_int:
                    last = (i == nargs - 1)
                    t, codes = self.string_arg(1, 6)
                    if not last and len(codes) % 2:
                        # an odd string followed by another *string* is the silent case; followed by an integer there is one reading only:
                        # an integer has the width of a word, so the half-filled word is closed and the integer gets the next one
                        if rng.random() < 0.5 and i + 1 != badidx:
                            force_int = True
                        else:
                            t, codes = self.string_arg(2, 2)
                    args.append(t)
                    self.packed_units(it, [(c, 'string') for c in codes], 2, False, None)
                else:
                    force_int = False
                    t, v, cls = self.int_arg(16, allow_char=False)
                    args.append(t)
                    it.slots += self.unit_bytes(twos(v, 16))
                    it.spans.append((s0, len(it.slots), cls))
            elif kind in ('string', 'rstring'):
                # like DATA, integers limited to bytes, two to a word: STRING upper byte first, RSTRING lower first
                if i == badidx:
                    v, cls = pick_int_bad(rng, 8)
                    args.append(fmt_int(rng, v, None))
                    it.errcls = cls
                    continue
                if rng.random() < 0.5:
                    t, codes = self.string_arg(1, 6)
                    args.append(t)
                    bytevals += [(c, 'string') for c in codes]
                else:
                    t, v, cls = self.int_arg(8, allow_char=False)
                    args.append(t)
                    bytevals.append((twos(v, 8), cls))
            else:
                fmt = 'single' if kind == 'float' else 'double'
                if i == badidx:
                    x, cls = self.pfo(fmt)
                    args.append(fmt_float(x))
                    it.errcls = cls
                    continue
                # "The least significant byte is copied to the first allocated memory location"
                x, cls = self.pf(fmt)
                args.append(fmt_float(x))
                it.slots += ieee_bytes(x, fmt, False)
                it.spans.append((s0, len(it.slots), cls))
        if bytevals and not bad:
            self.packed_units(it, bytevals, 2, kind == 'string', None)
        it.text = '%s\t%s' % (kind, ','.join(args))
        it.expect = 'ok'
        if bad:
            it.expect = 'err'
            it.slots, it.spans = [], []
        return self.finish(it, 'TI', kind)

    def ti_bss(self, bad=False):
        if bad:
            return None
        n = self.rng.choice([1, 2, 3, 16, 50])
        it = Item('%s\t%d' % (self.rng.choice(['bss', 'res']), n))
        it.reserve = n
        it.expect = 'ok'
        it.spans = [(0, 0, 'reserve')]
        return self.finish(it, 'TI', 'bss/res')

    # -- TMS320C3x: WORD DATA BSS ----------------------------------------------------------
    def c3x_stmt(self, bad=False):
        rng = self.rng
        kind = self.pick_kind(['word', 'data'])
        it = Item('')
        nargs = self.nargs([1, 1, 2, 3, 5])
        badidx = rng.randrange(nargs) if bad else -1
        args = []
        for i in range(nargs):
            s0 = len(it.slots)
            if i == badidx:
                v, cls = pick_int_bad(rng, 32)
                args.append(fmt_int(rng, v, self.tgt.hexs))
                it.errcls = cls
                continue
            if kind == 'data' and rng.random() < 0.35:
                # "the assembler puts four characters into one word (MSB first)"
                last = (i == nargs - 1)
                t, codes = self.string_arg(1, 9)
                if not last and len(codes) % 4:
                    t, codes = self.string_arg(4, 4)
                args.append(t)
                self.packed_units(it, [(c, 'string') for c in codes], 4, True, None)
            else:
                t, v, cls = self.int_arg(32, allow_char=False)
                args.append(t)
                it.slots += self.unit_bytes(twos(v, 32))
                it.spans.append((s0, len(it.slots), cls))
        it.text = '%s\t%s' % (kind, ','.join(args))
        it.expect = 'err' if bad else 'ok'
        if bad:
            it.slots, it.spans = [], []
        return self.finish(it, 'C3X', kind)

    def c3x_bss(self, bad=False):
        if bad:
            return None
        n = self.rng.choice([1, 2, 3, 16])
        it = Item('bss\t%d' % n)
        it.reserve = n
        it.expect = 'ok'
        it.spans = [(0, 0, 'reserve')]
        return self.finish(it, 'C3X', 'bss')

    # -- DSP56000: DC (one argument: several are rejected in CODE on the pinned tree, left out) / DS ---
    def dsp_dc(self, bad=False):
        rng = self.rng
        it = Item('')
        if bad:
            v, cls = pick_int_bad(rng, 24)
            it.text = 'dc\t%s' % fmt_int(rng, v, self.tgt.hexs)
            it.errcls = cls
            it.expect = 'err'
            return self.finish(it, 'DSP56', 'dc')
        # "integer numbers ... in the range of -8M up to 16M-1".  MANUAL-SILENT: order of the three
        # characters of a string inside a word -> strings are not generated.
        t, v, cls = self.int_arg(24, allow_char=False)
        it.text = 'dc\t%s' % t
        it.slots = self.unit_bytes(twos(v, 24))
        it.spans = [(0, 4, cls)]
        it.expect = 'ok'
        return self.finish(it, 'DSP56', 'dc')

    def dsp_ds(self, bad=False):
        if bad:
            return None
        n = self.rng.choice([1, 2, 3, 9])
        it = Item('ds\t%d' % n)
        it.reserve = n
        it.expect = 'ok'
        it.spans = [(0, 0, 'reserve')]
        return self.finish(it, 'DSP56', 'ds')

    # -- PIC 16C8x: DATA RES ZERO ------------------------------------------------------------
    def pic_stmt(self, bad=False):
        rng = self.rng
        it = Item('')
        k = rng.randrange(6)
        if not bad and k == 0:
            n = rng.choice([1, 2, 3, 10])
            it.text = 'res\t%d' % n
            it.reserve = n
            it.spans = [(0, 0, 'reserve')]
            it.expect = 'ok'
            return self.finish(it, 'PIC', 'res')
        if not bad and k == 1:
            n = rng.choice([1, 2, 5])
            it.text = 'zero\t%d' % n          # "a continuous string of zero words"
            it.slots = [0, 0] * n
            it.spans = [(0, 2 * n, 'zero-words')]
            it.expect = 'ok'
            return self.finish(it, 'PIC', 'zero')
        nargs = self.nargs([1, 1, 2, 3, 5])
        badidx = rng.randrange(nargs) if bad else -1
        args = []
        for i in range(nargs):
            s0 = len(it.slots)
            if i == badidx:
                v, cls = pick_int_bad(rng, 14)
                args.append(fmt_int(rng, v, self.tgt.hexs))
                it.errcls = cls
                continue
            if rng.random() < 0.3:
                # "On 16C5x/16C8x ... characters occupy one word"
                t, codes = self.string_arg(1, 5)
                args.append(t)
                for c in codes:
                    it.slots += self.unit_bytes(c)
                cls = 'string'
            else:
                t, v, cls = self.int_arg(14, allow_char=False)
                args.append(t)
                it.slots += self.unit_bytes(twos(v, 14))
            it.spans.append((s0, len(it.slots), cls))
        it.text = 'data\t%s' % ','.join(args)
        it.expect = 'err' if bad else 'ok'
        if bad:
            it.slots, it.spans = [], []
        return self.finish(it, 'PIC', 'data')

    # -- AVR: DATA (PACKING), RES, Intel Dx in CODE (packed) and DATA segment -----------------
    def avr_data(self, bad=False):
        rng = self.rng
        st = self.st
        if st.seg != 'code':
            return None
        it = Item('')
        nargs = self.nargs([1, 1, 2, 3, 5])
        badidx = rng.randrange(nargs) if bad else -1
        args = []
        if st.packing:
            # "two byte values are packed into a single word by DATA, similar to the single characters of
            # string arguments.  The value range of course reduces to -128...+255"
            vals = []
            for i in range(nargs):
                if i == badidx:
                    v, cls = pick_int_bad(rng, 8)
                    args.append(fmt_int(rng, v, self.tgt.hexs))
                    it.errcls = cls
                    continue
                if rng.random() < 0.3:
                    t, codes = self.string_arg(1, 5)
                    args.append(t)
                    vals += [(c, 'string') for c in codes]
                else:
                    t, v, cls = self.int_arg(8, allow_char=False)
                    args.append(t)
                    vals.append((twos(v, 8), cls))
            if not bad:
                self.packed_units(it, vals, 2, False, None)
        else:
            # "each integer argument obtains its own word and may take values from -32768...+65535";
            # "strings will always be packed".  MANUAL-SILENT: how an odd-length string is followed by
            # further arguments -> odd strings only as the last argument.
            force_int = False
            for i in range(nargs):
                s0 = len(it.slots)
                if i == badidx:
                    v, cls = pick_int_bad(rng, 16)
                    args.append(fmt_int(rng, v, self.tgt.hexs))
                    it.errcls = cls
                    continue
                if rng.random() < 0.3 and not force_int:
                    last = (i == nargs - 1)
                    t, codes = self.string_arg(1, 6)
                    if not last and len(codes) % 2:
                        # followed by an integer ("each integer argument obtains its own word") the half-filled word is closed: one reading only
                        if rng.random() < 0.5 and i + 1 != badidx:
                            force_int = True
                        else:
                            t, codes = self.string_arg(2, 2)
                    args.append(t)
                    self.packed_units(it, [(c, 'string') for c in codes], 2, False, None)
                else:
                    force_int = False
                    t, v, cls = self.int_arg(16, allow_char=False)
                    args.append(t)
                    it.slots += self.unit_bytes(twos(v, 16))
                    it.spans.append((s0, len(it.slots), cls))
        it.text = 'data\t%s' % ','.join(args)
        it.expect = 'err' if bad else 'ok'
        if bad:
            it.slots, it.spans = [], []
        return self.finish(it, 'AVR', 'data')

    def avr_res(self, bad=False):
        # "When used in code segments the argument counts words".  MANUAL-SILENT: RES in AVR data segments.
        if bad or self.st.seg != 'code':
            return None
        n = self.rng.choice([1, 2, 3, 12])
        it = Item('res\t%d' % n)
        it.reserve = n
        it.expect = 'ok'
        it.spans = [(0, 0, 'reserve')]
        return self.finish(it, 'AVR', 'res')

    def avr_dx(self, bad=False):
        return self.intel_dx(bad, kinds=('dn', 'db', 'db', 'db', 'dw', 'dw', 'dd'), fam='AVR')

    # -- program ------------------------------------------------------------------------------
    BUILDERS = {
        'M16': ['m16_dc', 'm16_dc', 'm16_dc', 'm16_dc', 'm16_ds'],
        'M8': ['m8_byt', 'm8_byt', 'm8_adr', 'm8_adr', 'm8_fcc', 'm8_dfs'],
        'INTEL': ['intel_dx', 'intel_dx', 'intel_dx', 'intel_dx', 'intel_dx', 'intel_ds'],
        'MSP': ['msp_byte', 'msp_byte', 'msp_word', 'msp_word', 'msp_bss'],
        'TI': ['ti_stmt', 'ti_stmt', 'ti_stmt', 'ti_stmt', 'ti_bss'],
        'C3X': ['c3x_stmt', 'c3x_stmt', 'c3x_stmt', 'c3x_bss'],
        'DSP56': ['dsp_dc', 'dsp_dc', 'dsp_dc', 'dsp_ds'],
        'PIC': ['pic_stmt'],
        'AVR': ['avr_data', 'avr_data', 'avr_dx', 'avr_dx', 'avr_res'],
    }

    # directed (big) cases: forced kind -> builder
    DIRECTED = {
        'M16': dict((a, 'm16_dc') for a in ['b', 'w', 'l', 'q', 'c', 's', 'd', 'x']),
        'M8': {'byt': 'm8_byt', 'adr': 'm8_adr', 'fcc': 'm8_fcc'},
        'INTEL': dict((k, 'intel_dx') for k in ['dn', 'db', 'dw', 'dd', 'dq', 'dt']),
        'AVR': {'dn': 'avr_dx', 'db': 'avr_dx', 'dw': 'avr_dx', 'dd': 'avr_dx', 'data': 'avr_data'},
        'MSP': {'byte': 'msp_byte', 'word': 'msp_word'},
        'TI': dict((k, 'ti_stmt') for k in ['word', 'long', 'data', 'string', 'rstring', 'float', 'double']),
        'C3X': {'word': 'c3x_stmt', 'data': 'c3x_stmt'},
        'PIC': {'data': 'pic_stmt'},
    }

    def directive(self):
        """maybe change PADDING / BIGENDIAN / PACKING / CHARSET / segment"""
        rng = self.rng
        st = self.st
        tgt = self.tgt
        out = []
        k = rng.randrange(5)
        if k == 0 and tgt.padding is not None:
            st.padding = not st.padding
            out.append(Item('padding\t%s' % ('on' if st.padding else 'off')))
        elif k == 1 and tgt.bigendian:
            st.bigendian = not st.bigendian
            out.append(Item('bigendian\t%s' % ('on' if st.bigendian else 'off')))
        elif k == 2 and tgt.packing:
            st.packing = not st.packing
            out.append(Item('packing\t%s' % ('on' if st.packing else 'off')))
        elif k == 3:
            out += self.charset_change()
        elif k == 4 and tgt.segs and rng.random() < 0.5:
            out += self.switch_seg()
        return out

    def charset_change(self):
        """the documented forms of CHARSET: single entry, range, string, reset.  The remapped source
        characters are letters and digits only; targets are 1..255.  The manual warns that character
        constants are themselves translated by an already modified table, so an index is written as a
        character constant only while the table still maps that character to itself."""
        rng = self.rng
        st = self.st
        if self.tgt.cpu == '56000':
            # on the pinned tree the 56000 mode does not split operands at commas for pseudo-ops either
            # (same reason as multi-argument DC); no strings are generated there anyway
            return []

        def idx(code):
            if st.charset[code] == code and rng.random() < 0.7:
                return "'%s'" % chr(code)
            return '%d' % code
        k = rng.randrange(5)
        if k == 0:
            st.charset = list(range(256))
            return [Item('charset')]
        if k == 1:
            c = ord(rng.choice('abcdefghijklmnopqrstuvwxyz0123456789'))
            v = rng.randrange(1, 256)
            t = "charset\t%s,%d" % (idx(c), v)
            st.charset[c] = v
            return [Item(t)]
        if k == 2:
            a = rng.randrange(ord('a'), ord('z'))
            b = rng.randrange(a, ord('z') + 1)
            v = rng.randrange(1, 256 - (b - a))
            t = "charset\t%s,%s,%d" % (idx(a), idx(b), v)
            for i in range(a, b + 1):
                st.charset[i] = v + (i - a)
            return [Item(t)]
        if k == 3:
            a = rng.randrange(ord('A'), ord('U'))
            # at least two characters: a one-character string could equally be read as an integer
            s = ''.join(rng.choice('abcdefghijklmnopqrstuvwxyz0123456789') for _ in range(rng.randrange(2, 6)))
            t = 'charset\t%s,"%s"' % (idx(a), s)
            # the characters of the string are target codes.  MANUAL-SILENT: whether they are themselves
            # translated first -> only characters that the table maps to themselves are used
            if any(st.charset[ord(ch)] != ord(ch) for ch in s):
                return []
            for i, ch in enumerate(s):
                st.charset[a + i] = ord(ch)
            return [Item(t)]
        a = rng.randrange(48, 58)
        v = rng.randrange(1, 256)
        st.charset[a] = v
        return [Item('charset\t%d,%d' % (a, v))]

    def switch_seg(self):
        st = self.st
        tgt = self.tgt
        self.saved = getattr(self, 'saved', {})
        self.saved[st.seg] = (st.addr, st.left, st.gran)
        names = ['code'] + sorted(tgt.segs)
        names.remove(st.seg)
        new = self.rng.choice(names)
        out = [Item('segment\t%s' % new)]
        if new in self.saved:
            st.addr, st.left, st.gran = self.saved[new]
            st.seg = new
            out.append(Item('org\t%d' % st.addr))      # stated explicitly, nothing is assumed about SEGMENT
        else:
            gran, lo, span, budget = tgt.segs[new]
            st.seg = new
            st.gran = gran
            st.addr = lo + self.rng.randrange(0, span)
            st.left = budget
            out.append(Item('org\t%d' % st.addr))
        return out

    def select_cpu(self, tgt, first):
        """CPU statement plus everything the model would otherwise have to assume about the state after it:
        the program counter (ORG), PADDING / BIGENDIAN / PACKING of the new target, and - after a switch -
        a reset of the character table."""
        rng = self.rng
        st = self.st
        self.tgt = tgt
        st.tgt = tgt
        items = [Item('cpu\t%s' % tgt.cpu)]
        if first:
            st.addr = rng.choice([0, 0, 1, 2, 0x10, 0x11, rng.randrange(0, tgt.org_max)])
        items.append(Item('org\t%d' % st.addr))
        st.padding = False
        st.bigendian = False
        st.packing = False
        if tgt.padding is not None:
            st.padding = rng.random() < 0.6
            items.append(Item('padding\t%s' % ('on' if st.padding else 'off')))
        if tgt.bigendian:
            st.bigendian = rng.random() < 0.5
            items.append(Item('bigendian\t%s' % ('on' if st.bigendian else 'off')))
        if tgt.packing:
            st.packing = rng.random() < 0.5
            items.append(Item('packing\t%s' % ('on' if st.packing else 'off')))
        if not first:
            st.charset = list(range(256))
            items.append(Item('charset'))
        return items

    def program(self, nstmts, bad_share=0.25, big=None, switch_to=()):
        """big: None, or the statement kind forced for the first statements of a directed case: the program
        then opens with statements near the documented limits (20 arguments, 1 KiB of code per line).
        switch_to: further targets (byte-granular, CODE only) selected by CPU statements in the course of the
        program; nstmts statements are generated under each target, the first statements after every CPU
        statement being a 16-bit and an 8-bit constant statement of the 65xx/68xx set where the target has it."""
        rng = self.rng
        st = self.st
        items = self.select_cpu(self.tgt, True)
        if rng.random() < 0.4:
            items += self.charset_change()
        todo = [TARGETS[c] for c in switch_to]
        n = 0
        guard = 0
        last_was_reserve = False
        opening = ['m8_adr', 'm8_byt', 'm8_adr'] if (switch_to and 'M8' in self.tgt.fam) else []
        while guard < nstmts * 6 * (1 + len(switch_to)):
            if n >= nstmts:
                if not todo or last_was_reserve:
                    if not todo:
                        break
                else:
                    items += self.select_cpu(todo.pop(0), False)
                    n = 0
                    opening = ['m8_adr', 'm8_byt', 'm8_adr'] if 'M8' in self.tgt.fam else []
            tgt = self.tgt
            guard += 1
            if rng.random() < 0.12 and not last_was_reserve and not opening:
                items += self.directive()
                continue
            fam = rng.choice(tgt.fam)
            name = rng.choice(self.BUILDERS[fam])
            if st.seg != 'code' and fam == 'AVR':
                name = 'avr_dx'
            bad = rng.random() < bad_share
            if opening:
                name = opening.pop(0)
                bad = False
            self.big = big is not None and n < 4
            self.force = big if self.big else None
            if self.big:
                bad = False
                if big in self.DIRECTED.get(fam, {}):
                    name = self.DIRECTED[fam][big]
            save_addr, save_left = st.addr, st.left
            it = getattr(self, name)(bad)
            if it is None:
                st.addr, st.left = save_addr, save_left
                continue
            if st.left < 0:
                # the segment's budget is used up: drop the statement and stop
                st.addr, st.left = save_addr, save_left
                break
            if it.expect == 'ok':
                # never two reservations in a row: a wrong advance is then attributable to one statement
                # (it shows at the next emission)
                if not it.slots and last_was_reserve:
                    st.addr, st.left = save_addr, save_left
                    continue
                last_was_reserve = not it.slots
            items.append(it)
            n += 1
        # sentinel: makes the advance of a trailing reservation observable
        it = self.sentinel()
        if it is not None:
            items.append(it)
        return items

    # float-typed statement kinds per family: (builder, forced kind, format)
    FLOAT_KINDS = {
        'M16': [('m16_dc', 'c', 'half'), ('m16_dc', 's', 'single'), ('m16_dc', 'd', 'double'), ('m16_dc', 'x', 'ext')],
        'INTEL': [('intel_dx', 'dw', 'half'), ('intel_dx', 'dd', 'single'), ('intel_dx', 'dq', 'double'), ('intel_dx', 'dt', 'ext')],
        'AVR': [('avr_dx', 'dw', 'half'), ('avr_dx', 'dd', 'single')],
        'TI': [('ti_stmt', 'float', 'single'), ('ti_stmt', 'double', 'double')],
    }
    # Not modelled (no image to compare, no rejection to demand), each for a stated reason:
    #  DC.P (680x0 packed decimal), EFLOAT/BFLOAT/TFLOAT (320C2x): the manual gives field widths but not the
    #    normalisation/digit layout, and their exponent fields hold every double, so nothing is out of range;
    #  SINGLE/EXTENDED (320C3x), SINGLE/DOUBLE (TMS99xxx, IBM/360 format): "processor-specific formats", the
    #    manual states neither layout nor rounding;
    #  DC.D/DQ/DOUBLE/DC.X/DT: every finite double fits, a value outside cannot be written (see FLOAT_OUTSIDE).

    def limits_program(self, bigendian=False):
        """directed program: every float-typed statement kind of the target with every value of FLOAT_INSIDE
        (must be laid down exactly) and FLOAT_OUTSIDE (must be rejected), both signs, one value per statement"""
        rng = self.rng
        st = self.st
        items = self.select_cpu(self.tgt, True)
        if self.tgt.bigendian and st.bigendian != bigendian:
            st.bigendian = bigendian
            items.append(Item('bigendian\t%s' % ('on' if bigendian else 'off')))
        for fam in self.tgt.fam:
            for name, kind, fmt in self.FLOAT_KINDS.get(fam, []):
                plan = [('ok', v, fmt + '-max') for v in FLOAT_INSIDE[fmt]]
                plan += [('bad', v, fmt + '-overflow') for v in FLOAT_OUTSIDE.get(fmt, [])]
                for what, v, cls in plan:
                    for sign in (1.0, -1.0):
                        for _ in range(20):
                            self.force = kind
                            self.fixed = (what, sign * v, cls)
                            sa, sl = st.addr, st.left
                            it = getattr(self, name)(what == 'bad')
                            if it is not None and it.errcls != 'mixed-constant-and-placeholder':
                                items.append(it)
                                break
                            st.addr, st.left = sa, sl
        self.force = None
        self.fixed = None
        it = self.sentinel()
        if it is not None:
            items.append(it)
        return items

    def sentinel(self):
        self.big = False
        self.force = None
        self.fixed = None
        fam = self.tgt.fam[0]
        for _ in range(50):
            name = {'M16': 'm16_dc', 'M8': 'm8_byt', 'INTEL': 'intel_dx', 'MSP': 'msp_byte', 'TI': 'ti_stmt',
                    'C3X': 'c3x_stmt', 'DSP56': 'dsp_dc', 'PIC': 'pic_stmt', 'AVR': 'avr_dx'}[fam]
            sa, sl = self.st.addr, self.st.left
            it = getattr(self, name)(False)
            if it is not None and it.slots and not it.reserve:
                return it
            self.st.addr, self.st.left = sa, sl
        return None
