"""Reference model for C20: where must a diagnostic point?

A program is a tree of source files.  Every node knows the physical lines it
occupies in its file.  `simulate()` walks the tree the way the manual describes
the macro processor (macro call -> body with parameters replaced, REPT n ->
body n times, IRP/IRPN/IRPC -> body once per argument / batch / character,
WHILE -> body while the condition holds, INCLUDE -> the file in place,
EXPECT/ENDEXPECT -> announced numbers are taken away, absent ones reported at
ENDEXPECT) and produces the ordered list of diagnostics that have to appear,
each with the position it has to name.

Numbers whose convention the manual leaves implicit are *sets* of acceptable
values (see `expected_pos`), everything the manual or the property pins down is
a one-element set.

Nothing in here looks at the assembler's sources or output.
"""

# --------------------------------------------------------------------------
# per-target statement templates; every faulty template was chosen so that the
# manual's error table names exactly one message for it
#   unk   -> 1200 unknown instruction
#   argc  -> 1110 wrong number of operands
#   range -> 1320 range overflow (value does not fit 8 bits)
#   undef -> 1010 symbol undefined (only reported after the second pass)
#   warn  -> a documented warning (None: target has no cheap self-contained one)

CPUS = {
    '6502': dict(clean=['nop', 'lda\t#1', 'byt\t1,2,3', 'sta\t$12'],
                 argc='lda\t#1,2,%d', range='byt\t%s', undef='lda\t#%s', warn=None,
                 cont_clean=('byt\t1,', '2'), cont_range=('byt\t', '%s')),
    'z80': dict(clean=['nop', 'ld\ta,1', 'db\t1,2,3', 'inc\ta'],
                argc='ld\ta,1,2,%d', range='db\t%s', undef='ld\ta,%s', warn=('db\t-1 dup (0)', 270),
                cont_clean=('db\t1,', '2'), cont_range=('db\t', '%s')),
    '8051': dict(clean=['nop', 'mov\ta,#1', 'db\t1,2,3', 'inc\ta'],
                 argc='mov\ta,#1,%d', range='db\t%s', undef='mov\ta,#%s', warn=('db\t-1 dup (0)', 270),
                 cont_clean=('db\t1,', '2'), cont_range=('db\t', '%s')),
    '68000': dict(clean=['nop', 'moveq\t#1,d0', 'dc.w\t1,2', 'addq.l\t#1,d0'],
                  argc='move.l\t#1,d0,%d', range='dc.b\t%s,0', undef='move.l\t#%s,d0', warn=('bra.s\t*+2', 60),
                  cont_clean=('dc.w\t1,', '2'), cont_range=('dc.b\t', '%s,0')),
}
NUM = {'unk': 1200, 'argc': 1110, 'range': 1320, 'undef': 1010}
# numbers that may be announced although they do not occur (all documented, none can be
# produced by a clean template)
ABSENT_POOL = [1200, 1110, 1320, 1000, 1445, 270, 60, 1350]

REPS = ('REPT', 'IRP', 'IRPN', 'IRPC', 'WHILE')


class Node:
    def __init__(self, kind, **kw):
        self.kind = kind
        self.lo = self.hi = None          # physical lines (1-based) in the file
        self.__dict__.update(kw)


class SrcFile:
    def __init__(self, name, items, final_newline=True):
        self.name = name
        self.items = items
        self.final_newline = final_newline
        self.lines = None


# --------------------------------------------------------------------------
# generator

class Gen:
    def __init__(self, rng, cpu, mode, rich):
        self.rng = rng
        self.cpu = cpu
        self.t = CPUS[cpu]
        self.mode = mode              # 'pass1' | 'undef'
        self.rich = rich              # thorough tier: includes inside bodies, deeper nesting
        self.n = 0
        self.files = []
        self.nfaults = 0

    def nid(self):
        self.n += 1
        return self.n

    # ---- single statements
    def clean(self, toplevel_label=False):
        r = self.rng
        k = r.randrange(10)
        if k == 0:
            return Node('stmt', text=[''], fault=None)
        if k == 1:
            return Node('stmt', text=['; remark %d' % self.nid()], fault=None)
        if k == 2 and toplevel_label:
            return Node('stmt', text=['lab%d:\t%s' % (self.nid(), self.t['clean'][0])], fault=None)
        return Node('stmt', text=['\t' + r.choice(self.t['clean'])], fault=None)

    def fault(self, kinds=None, var=None):
        """a faulty one-line statement.  var = (name, how): the range value comes from a parameter"""
        r = self.rng
        i = self.nid()
        if kinds is None:
            kinds = ['undef'] if self.mode == 'undef' else ['unk', 'unk', 'argc', 'range', 'range'] + (['warn'] if self.t['warn'] else [])
        kd = r.choice(kinds)
        self.nfaults += 1
        if kd == 'unk':
            txt = '\tzzq%d' % i + r.choice(['', '\t1', ' 1,2'])
            return Node('stmt', text=[txt], fault=dict(kind='unk', num=1200, cls='E', token='zzq%d' % i))
        if kd == 'argc':
            return Node('stmt', text=['\t' + self.t['argc'] % (7000 + i)], fault=dict(kind='argc', num=1110, cls='E', token=str(7000 + i)))
        if kd == 'range':
            v = 3000 + i
            return Node('stmt', text=['\t' + self.t['range'] % v], fault=dict(kind='range', num=1320, cls='E', token=str(v)))
        if kd == 'undef':
            return Node('stmt', text=['\t' + self.t['undef'] % ('undef%d' % i)], fault=dict(kind='undef', num=1010, cls='E', token='undef%d' % i))
        txt, num = self.t['warn']
        return Node('stmt', text=['\t' + txt], fault=dict(kind='warn', num=num, cls='W', token=None))

    def var_fault(self, expr):
        """range statement whose value is `expr` (text) — faulty exactly when it evaluates to > 255"""
        self.nfaults += 1
        return Node('stmt', text=['\t' + self.t['range'] % expr], fault=dict(kind='range', num=1320, cls='E', token=None, expr=expr))

    def continued(self):
        """statement spread over 2..4 physical lines (file level only, see module doc of c20)"""
        r = self.rng
        pad = r.randrange(0, 3)
        if self.mode == 'pass1' and r.random() < 0.6:
            i = self.nid()
            self.nfaults += 1
            if r.random() < 0.5:
                a, b = self.t['cont_range']
                v = 3000 + i
                text = ['\t' + a + '\\'] + ['\t\\'] * pad + ['\t' + b % v]
                return Node('stmt', text=text, fault=dict(kind='range', num=1320, cls='E', token=str(v)))
            text = ['\tzzq%d\t\\' % i] + ['\t\\'] * pad + ['\t1']
            return Node('stmt', text=text, fault=dict(kind='unk', num=1200, cls='E', token='zzq%d' % i))
        a, b = self.t['cont_clean']
        return Node('stmt', text=['\t' + a + '\\'] + ['\t\\'] * pad + ['\t' + b], fault=None)

    def if0(self):
        """lines in a branch that is not assembled: they are error-free by definition"""
        body = [Node('stmt', text=['\tzzq%d' % self.nid()], fault=None) for _ in range(self.rng.randrange(1, 3))]
        return [Node('stmt', text=['\tif\t0'], fault=None)] + body + [Node('stmt', text=['\tendif'], fault=None)]

    def expect_block(self):
        """EXPECT a,b.. / 1..4 one-line statements with pairwise different numbers / ENDEXPECT"""
        r = self.rng
        # (a jump-distance warning is not self-contained while symbols are still unknown: none in undef mode)
        kinds = ['unk', 'argc', 'range'] + (['warn'] if self.t['warn'] and self.mode == 'pass1' else [])
        r.shuffle(kinds)
        inner = []
        occurring = []
        for kd in kinds[:r.randrange(0, len(kinds) + 1)]:
            f = self.fault([kd])
            inner.append(f)
            occurring.append(f.fault['num'])
        if self.mode == 'undef':
            # every fault must be swallowed, nothing absent may be announced (pass 1 has to stay clean)
            announced = list(occurring)
            if not announced:
                f = self.fault(['unk'])
                inner.append(f)
                announced = [1200]
        else:
            announced = [n for n in occurring if r.random() < 0.7]
            absent = [n for n in ABSENT_POOL if n not in occurring]
            r.shuffle(absent)
            announced += absent[:r.choice([0, 0, 1, 1, 2, 3])]
            if not announced:
                announced = [absent[0]]
        r.shuffle(announced)
        body = []
        for f in inner:
            if r.random() < 0.5:
                body.append(self.clean())
            body.append(f)
        if r.random() < 0.5:
            body.append(self.clean())
        return ([Node('expect', text=['\texpect\t' + ','.join(str(n) for n in announced)], nums=announced)]
                + body + [Node('endexpect', text=['\tendexpect'])])

    # ---- bodies
    def body(self, depth, macros, var=None, allow_include=False):
        """list of nodes for the inside of a macro / repetition.  No labels (bodies are expanded several times),
        no continuation lines (whether a continued body line counts once or per physical line is not stated anywhere)."""
        r = self.rng
        out = []
        n = r.randrange(1, 5)
        for _ in range(n):
            k = r.randrange(20)
            if k < 5:
                out.append(self.clean())
            elif k < 10:
                out.append(self.fault())
            elif k < 12 and var is not None and self.mode == 'pass1':
                out.append(self.var_fault(var))
            elif k < 14 and macros:
                out.append(self.call(r.choice(macros)))
            elif k < 17 and depth < (3 if self.rich else 2):
                out.append(self.rep(depth + 1, macros))
            elif k == 17:
                out += self.expect_block()
            elif k == 18:
                out += self.if0()
            elif k == 19 and allow_include and self.rich and len(self.files) < 6:
                out.append(self.include(2, leaf=True))
            else:
                out.append(self.clean())
        if r.random() < 0.35:
            # make sure the LAST body line is often a faulty one (the step-back case of every position routine)
            out.append(self.fault() if var is None or self.mode != 'pass1' or r.random() < 0.5 else self.var_fault(var))
        return out

    def macrodef(self, macros):
        i = self.nid()
        name = 'mac%d' % i
        par = 'pa%d' % i
        body = self.body(1, macros, var=par, allow_include=True)
        return Node('macrodef', name=name, params=[par], body=body, text=['%s\tmacro\t%s' % (name, par)], end=['\tendm'])

    def call(self, m, cont=False):
        r = self.rng
        v = r.choice([1, 7, 200, 255, 256, 300, 1000])
        text = ['\t%s\t%d' % (m.name, v)]
        if cont:
            text = ['\t%s\t\\' % m.name, '\t%d' % v]
        return Node('call', macro=m, args=[v], text=text)

    def rep(self, depth, macros):
        r = self.rng
        i = self.nid()
        kind = r.choice(REPS)
        if kind == 'REPT':
            n = r.choice([1, 2, 2, 3])
            body = self.body(depth, macros)
            return Node('rep', rkind='REPT', text=['\trept\t%d' % n], body=body, end=['\tendm'],
                        iters=[(k + 1, {}) for k in range(n)])
        if kind == 'IRP':
            var = 'va%d' % i
            args = [r.choice([1, 2, 100, 255, 256, 300, 999]) for _ in range(r.randrange(1, 4))]
            body = self.body(depth, macros, var=var)
            return Node('rep', rkind='IRP', text=['\tirp\t%s,%s' % (var, ','.join(map(str, args)))], body=body, end=['\tendm'],
                        iters=[([str(a)], {var: a}) for a in args])
        if kind == 'IRPN':
            cnt = r.choice([1, 2, 2, 3])
            vars_ = ['vb%d%s' % (i, 'abc'[k]) for k in range(cnt)]
            nb = r.randrange(1, 4)
            args = [r.choice([1, 2, 100, 255, 256, 300, 999]) for _ in range(cnt * nb)]
            body = self.body(depth, macros, var=r.choice(vars_))
            iters = []
            for b in range(nb):
                batch = args[b * cnt:(b + 1) * cnt]
                iters.append(([str(a) for a in batch], dict(zip(vars_, batch))))
            return Node('rep', rkind='IRPN', text=['\tirpn\t%d,%s,%s' % (cnt, ','.join(vars_), ','.join(map(str, args)))],
                        body=body, end=['\tendm'], iters=iters)
        if kind == 'IRPC':
            var = 'ch%d' % i
            s = ''.join(r.choice('0123456789') for _ in range(r.randrange(1, 4)))
            body = self.body(depth, macros, var='25%d+%s' % (r.randrange(0, 6), var))
            return Node('rep', rkind='IRPC', text=['\tirpc\t%s,"%s"' % (var, s)], body=body, end=['\tendm'],
                        iters=[(c, {var: int(c)}) for c in s])
        # WHILE: counter incremented on the first body line
        cn = 'cnt%d' % i
        n = r.choice([1, 2, 3])
        body = [Node('stmt', text=['%s\tset\t%s+1' % (cn, cn)], fault=None)] + self.body(depth, macros, var='253+%s' % cn)
        return Node('rep', rkind='WHILE', pre=['%s\tset\t0' % cn], text=['\twhile\t%s<%d' % (cn, n)], body=body, end=['\tendm'],
                    iters=[(k + 1, {cn: k + 1}) for k in range(n)])

    def include(self, depth, leaf=False):
        name = 'i%d.inc' % (len(self.files) + 1)
        f = SrcFile(name, [], final_newline=self.rng.random() < 0.8)
        self.files.append(f)
        # leaf = included from inside a body, i.e. possibly several times: no macro definitions in it
        f.items = self.file_items(depth, leaf=leaf)
        if self.rng.random() < 0.15 and not any(it.kind == 'include' for it in walk(f.items)):
            # a file without further INCLUDEs may live in a subdirectory (the search rule for nested ones is another matter)
            f.name = name = 'sub/' + name
        style = self.rng.choice(['%s', '"%s"'])
        return Node('include', file=f, text=['\tinclude\t' + style % name])

    def file_items(self, depth, leaf=False):
        r = self.rng
        out = []
        macros = []
        n = r.randrange(2, 9) if depth else r.randrange(4, 14)
        for _ in range(n):
            k = r.randrange(24)
            if k < 5:
                out.append(self.clean(toplevel_label=(depth == 0)))
            elif k < 9:
                out.append(self.fault())
            elif k < 11:
                out.append(self.continued())
            elif k < 13 and not leaf:
                m = self.macrodef(list(macros))
                out.append(m)
                macros.append(m)
                if r.random() < 0.7:
                    out.append(self.call(m, cont=r.random() < 0.2))
            elif k < 15 and macros:
                out.append(self.call(r.choice(macros), cont=r.random() < 0.2))
            elif k < 19:
                out.append(self.rep(1, macros))
            elif k < 21 and not leaf and depth < 3 and len(self.files) < 6:
                out.append(self.include(depth + 1))
            elif k == 21:
                out += self.expect_block()
            elif k == 22:
                out += self.if0()
            else:
                out.append(self.fault())
        return out

    def program(self):
        main = SrcFile(self.rng.choice(['g.asm', 'prog.asm', 'm1.asm']), [])
        self.files.insert(0, main)
        main.items = [Node('stmt', text=['\tcpu\t' + self.cpu], fault=None)] + self.file_items(0)
        return main


def walk(items):
    for it in items:
        yield it
        for b in getattr(it, 'body', None) or []:
            for x in walk([b]):
                yield x


# --------------------------------------------------------------------------
# rendering: physical line numbers

def render(f):
    lines = []

    def emit(node):
        if node.kind == 'rep' and getattr(node, 'pre', None):
            lines.extend(node.pre)
        node.lo = len(lines) + 1
        lines.extend(node.text)
        node.open_hi = len(lines)
        if node.kind in ('macrodef', 'rep'):
            for b in node.body:
                emit(b)
            lines.extend(node.end)
        node.hi = len(lines)
        if node.kind == 'include':
            render(node.file)

    for it in f.items:
        emit(it)
    f.lines = lines
    f.text = '\n'.join(lines) + ('\n' if f.final_newline else '')
    return f


# --------------------------------------------------------------------------
# simulation

class Frame:
    def __init__(self, kind, label, origin, site_lo, site_hi, is_call, last_iter=None, next_label=None, body_last=None):
        self.kind = kind            # 'MACRO' or one of REPS
        self.label = label          # macro name / iteration number / list of argument texts / character
        self.origin = origin        # physical line of the opening statement: body line = physical - origin
        self.site_lo = site_lo      # physical lines of the statement that brought the body in (call, or REPT..ENDM)
        self.site_hi = site_hi
        self.is_call = is_call
        self.next_label = next_label  # label of the following iteration (None on the last) — only used to classify failures
        self.body_last = body_last    # body line number of the last body line — only used to classify failures


def _site_spec(fr, origin):
    """acceptable numbers for 'where, in the enclosing text, is this expansion': the manual does not say which
    line of a multi-line construct stands for it -> any line of REPT..ENDM; a macro call is one statement and is
    named by its (last, assembler-usage.md 'Line references ... last line') line"""
    if fr.is_call:
        return {fr.site_hi - origin}
    return set(range(fr.site_lo - origin, fr.site_hi - origin + 1))


def expected_pos(fname, chain, frames, node):
    """-> dict(file, n0, frames=[(kind, label, numset)], chain=[(file, numset)], site)"""
    if not frames:
        n0 = {node.hi}
        site = 'continued' if node.hi != node.lo else 'plain'
    else:
        n0 = _site_spec(frames[0], 0)
        site = 'call-site' if frames[0].is_call else 'repetition-site'
        if frames[0].is_call and len(frames) == 1:
            # "the source line that caused it" may as well be read as the line inside the definition
            n0 = n0 | {node.hi}
    fl = []
    for i, fr in enumerate(frames):
        if i == len(frames) - 1:
            nums = {node.hi - fr.origin}
        else:
            nums = _site_spec(frames[i + 1], fr.origin)
        fl.append((fr.kind, fr.label, nums))
    return dict(file=fname, n0=n0, frames=fl, chain=list(chain), site=site)


class Sim:
    def __init__(self, passno, with_undef):
        self.passno = passno
        self.with_undef = with_undef
        self.events = []
        self.swallowed = []
        self.pending = None         # list of announced numbers still open, or None outside EXPECT
        self.overflow = False
        self.ngroups = 0

    def emit(self, num, cls, pos, fault, ctx, frames):
        if len(self.events) > 400:
            self.overflow = True
            return
        self.events.append(dict(num=num, cls=cls, pos=pos, fault=fault, ctx=ctx, _frames=list(frames)))

    def run_file(self, f, chain):
        self.run_items(f.items, f.name, chain, [], {})

    def run_items(self, items, fname, chain, frames, env):
        for nd in items:
            if self.overflow:
                return
            k = nd.kind
            if k == 'stmt':
                fl = nd.fault
                if not fl:
                    continue
                if fl['kind'] == 'undef' and not self.with_undef:
                    continue
                if 'expr' in fl:
                    if eval(fl['expr'], {'__builtins__': {}}, dict(env)) <= 255:
                        continue
                pos = expected_pos(fname, chain, frames, nd)
                ctx = self.ctx_of(fl['kind'], frames, chain, nd, self.pending is not None)
                if self.pending is not None and fl['num'] in self.pending:
                    self.pending.remove(fl['num'])
                    self.swallowed.append(fl['num'])
                    continue
                self.emit(fl['num'], fl['cls'], pos, fl, ctx, frames)
            elif k == 'expect':
                self.pending = list(nd.nums)
            elif k == 'endexpect':
                pos = expected_pos(fname, chain, frames, nd)
                ctx = self.ctx_of('absent', frames, chain, nd, True)
                self.ngroups += 1
                for n in self.pending or []:
                    self.emit(2130, 'E', pos, dict(kind='absent', num=2130, cls='E', token=None, absent=n, group=self.ngroups), ctx, frames)
                self.pending = None
            elif k == 'macrodef':
                pass
            elif k == 'call':
                m = nd.macro
                fr = Frame('MACRO', m.name, m.lo, nd.lo, nd.hi, True, body_last=m.hi - 1 - m.lo)
                e2 = dict(env)
                e2.update(dict(zip(m.params, nd.args)))
                self.run_items(m.body, fname, chain, frames + [fr], e2)
            elif k == 'rep':
                for j, (label, delta) in enumerate(nd.iters):
                    nxt = nd.iters[j + 1][0] if j + 1 < len(nd.iters) else None
                    fr = Frame(nd.rkind, label, nd.lo, nd.lo, nd.hi, False, next_label=nxt, body_last=nd.hi - 1 - nd.lo)
                    e2 = dict(env)
                    e2.update(delta)
                    self.run_items(nd.body, fname, chain, frames + [fr], e2)
            elif k == 'include':
                here = expected_pos(fname, chain, frames, nd)
                self.run_file(nd.file, [(fname, here['n0'])] + list(chain))

    @staticmethod
    def ctx_of(fkind, frames, chain, nd, in_expect):
        shape = '>'.join(['file'] + [fr.kind for fr in frames])
        return dict(fkind=fkind, shape=shape, incdepth=len(chain), cont=(nd.hi != nd.lo), in_expect=in_expect,
                    last_body_line=bool(frames) and (nd.hi - frames[-1].origin == frames[-1].body_last))


def simulate(main, mode):
    """-> (events, swallowed-per-pass list, number of passes the manual implies) or None if too large.
    pass1 mode: everything is detected in the first pass.  undef mode: pass 1 is clean (everything announced is
    swallowed), the undefined symbols are reported after the second pass (error-messages.md, 1010)."""
    if mode == 'pass1':
        s = Sim(1, False)
        s.run_file(main, [])
        if s.overflow:
            return None
        return s.events, [s.swallowed]
    s1 = Sim(1, False)
    s1.run_file(main, [])
    s2 = Sim(2, True)
    s2.run_file(main, [])
    if s1.overflow or s2.overflow:
        return None
    if any(e['cls'] == 'E' for e in s1.events):
        raise AssertionError('generator: undef-mode program has pass-1 errors')
    return s1.events + s2.events, [s1.swallowed, s2.swallowed]


def generate(rng, cpu, mode, rich):
    """-> (Gen, main file) with at least one planted fault and a bounded number of expected diagnostics"""
    for _ in range(50):
        g = Gen(rng, cpu, mode, rich)
        main = g.program()
        render(main)
        res = simulate(main, mode)
        if res is None:
            continue
        ev, sw = res
        if not ev and not any(sw):
            continue
        if mode == 'undef' and not ev:
            continue          # without an unknown symbol there is no second pass to speak of
        if len(ev) > 150:
            continue
        return g, main, ev, sw
    raise AssertionError('generator: no acceptable program in 50 tries')
