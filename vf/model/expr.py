"""Reference model of AS formula expressions, written from doc/assembler-usage.md
('Formula Expressions': Integer/Floating Point/String Constants, String to Integer
Conversion, Operators, Functions) and doc/pseudo-instructions.md (RADIX, INTSYNTAX,
RELAXED).  Nothing here is derived from the C sources' behaviour; where the manual is
silent or contradicts itself the evaluator raises `Silent` and the generator drops
the case.

Values are pairs (type, payload): ('i', python int in [-2^63, 2^63)), ('f', float),
('s', bytes).
"""
import math
import struct

MASK = (1 << 64) - 1
IMIN = -(1 << 63)
IMAX = (1 << 63) - 1


class Silent(Exception):
    """the manual does not define this case: it must not be generated"""


class Undefined(Exception):
    """the manual defines this as an error (division by zero, argument outside the domain)"""


class IllTyped(Exception):
    """operand type not allowed for this operator/function according to the tables"""


def s64(x):
    x &= MASK
    return x - (1 << 64) if x >> 63 else x


# rank table of the manual: the operator of the highest rank is evaluated last
RANK = {'<>': 14, '!=': 14, '>=': 14, '<=': 14, '<': 14, '>': 14, '=': 14, '==': 14,
        '!!': 13, '||': 12, '&&': 11, '-': 10, '+': 10, '#': 9, '/': 9, '*': 9, '^': 8,
        '!': 7, '|': 6, '&': 5, '><': 4, '>>': 3, '<<': 3}
URANK = {'~': 1, '~~': 2}
CMP_OPS = ('<>', '!=', '>=', '<=', '<', '>', '=', '==')
INT_ONLY = ('!!', '||', '&&', '#', '!', '|', '&', '><', '>>', '<<')
ARITH = ('+', '-', '*', '/', '^')


def str2int(b):
    """'A'==$41, 'AB'==$4142, 'ABCD'==$41424344; the manual shows 1..4 characters"""
    if not 1 <= len(b) <= 4:
        raise Silent('multi character constant of %d characters' % len(b))
    v = 0
    for c in b:
        v = (v << 8) | c
    return v


def fcheck(x):
    """keep floats inside the comfortably finite, normal range (overflow, infinities,
    NaN and denormals are not described by the manual)"""
    if x != x or x in (float('inf'), float('-inf')):
        raise Silent('non-finite float')
    if x != 0.0 and not (1e-290 < abs(x) < 1e290):
        raise Silent('float magnitude')
    return x


def to_float(v):
    return float(v[1])        # int -> double, round to nearest even like a C conversion


def mirror(a, n):
    u = a & MASK
    low = u & ((1 << n) - 1)
    rev = 0
    for i in range(n):
        if low >> i & 1:
            rev |= 1 << (n - 1 - i)
    return s64((u >> n << n) | rev)


def cmp_result(op, a, b):
    if op in ('=', '=='):
        return int(a == b)
    if op in ('<>', '!='):
        return int(a != b)
    if op == '<':
        return int(a < b)
    if op == '>':
        return int(a > b)
    if op == '<=':
        return int(a <= b)
    return int(a >= b)


def apply_bin(op, a, b):
    """returns (value, approx) — approx: result comes out of libm (compared with a tolerance)"""
    ta, tb = a[0], b[0]
    # --- strings
    if ta == 's' and tb == 's' and (op in CMP_OPS or op == '+'):
        if op == '+':
            r = a[1] + b[1]
            if len(r) > 60:
                raise Silent('string too long for the observation slot')
            return ('s', r), False
        if op in ('=', '==', '<>', '!='):
            return ('i', cmp_result(op, a[1], b[1])), False
        # ordering of strings: the table says "yes" but no collating order is stated;
        # only what every total order fulfils is used
        if a[1] == b[1]:
            return ('i', int(op in ('<=', '>='))), False
        raise Silent('order of two different strings')
    if ta == 's' or tb == 's':
        if op == '+':
            raise Silent('string + number')
        if 'f' in (ta, tb):
            raise Silent('string combined with float')
        # "If an integer value is expected ... and a string is used, the conversion via the
        # character's (ASCII) value is done on the fly"
        if ta == 's':
            a = ('i', str2int(a[1]))
        if tb == 's':
            b = ('i', str2int(b[1]))
        ta = tb = 'i'
    # --- integer-only operators
    if op in INT_ONLY:
        if ta != 'i' or tb != 'i':
            raise IllTyped('%s with float operand' % op)
        x, y = a[1], b[1]
        if op == '!!':
            return ('i', int((x != 0) != (y != 0))), False
        if op == '||':
            return ('i', int(x != 0 or y != 0)), False
        if op == '&&':
            return ('i', int(x != 0 and y != 0)), False
        if op == '#':
            if y == 0:
                raise Undefined('modulo by zero')
            if x >= 0 and y > 0:
                return ('i', x % y), False
            if x % y == 0:
                return ('i', 0), False        # every sign convention gives 0
            raise Silent('sign of the remainder for negative operands')
        if op == '!':
            return ('i', s64(x ^ y)), False
        if op == '|':
            return ('i', s64(x | y)), False
        if op == '&':
            return ('i', s64(x & y)), False
        if op == '><':
            if not 1 <= y <= 32:
                raise Undefined('mirror count outside 1..32')
            return ('i', mirror(x, y)), False
        if not 0 <= y <= 63:
            raise Silent('shift count outside 0..63')
        if op == '<<':
            return ('i', s64(x << y)), False
        return ('i', s64((x & MASK) >> y)), False           # "log. shift right"
    # --- comparisons
    if op in CMP_OPS:
        if ta == 'i' and tb == 'i':
            return ('i', cmp_result(op, a[1], b[1])), False
        return ('i', cmp_result(op, to_float(a), to_float(b))), False
    # --- arithmetic
    if ta == 'i' and tb == 'i':
        x, y = a[1], b[1]
        if op == '+':
            return ('i', s64(x + y)), False
        if op == '-':
            return ('i', s64(x - y)), False
        if op == '*':
            return ('i', s64(x * y)), False
        if op == '/':
            if y == 0:
                raise Undefined('division by zero')
            q = abs(x) // abs(y)                   # "remainder will be discarded"
            if (x < 0) != (y < 0):
                q = -q
            return ('i', s64(q)), False
        if op == '^':
            if y < 0:
                raise Silent('integer power with negative exponent')
            if x == 0 and y == 0:
                raise Silent('0^0')
            return ('i', s64(pow(x, y, 1 << 64))), False
        raise AssertionError(op)
    x, y = to_float(a), to_float(b)
    if op == '+':
        return ('f', fcheck(x + y)), False
    if op == '-':
        return ('f', fcheck(x - y)), False
    if op == '*':
        return ('f', fcheck(x * y)), False
    if op == '/':
        if y == 0.0:
            raise Undefined('division by zero')
        return ('f', fcheck(x / y)), False
    if op == '^':
        if x == 0.0:
            if y > 0:
                return ('f', 0.0), False
            raise Silent('0.0 ^ non-positive')
        if x < 0 and y != math.floor(y):
            raise Undefined('negative base with fractional exponent')
        if abs(y) > 1024:
            raise Silent('huge exponent')
        try:
            r = math.pow(x, y)
        except (OverflowError, ValueError):
            raise Silent('pow overflow')
        return ('f', fcheck(r)), True
    raise AssertionError(op)


def apply_un(op, a):
    if a[0] == 's':
        a = ('i', str2int(a[1]))
    if a[0] != 'i':
        raise IllTyped('%s with float operand' % op)
    if op == '~':
        return ('i', s64(~a[1])), False
    return ('i', int(a[1] == 0)), False


# ---------------------------------------------------------------------------
# functions.  name -> (argument kinds, result kind); kinds: i int, f float (int accepted:
# "an automatic type conversion is engaged"), n int or float, s string, a any

FUNCS = {
    'SQRT': 'f', 'SIN': 'f', 'COS': 'f', 'TAN': 'f', 'COT': 'f', 'ASIN': 'f', 'ACOS': 'f', 'ATAN': 'f',
    'ACOT': 'f', 'EXP': 'f', 'ALOG': 'f', 'ALD': 'f', 'SINH': 'f', 'COSH': 'f', 'TANH': 'f', 'COTH': 'f',
    'LN': 'f', 'LOG': 'f', 'LD': 'f', 'ASINH': 'f', 'ACOSH': 'f', 'ATANH': 'f', 'ACOTH': 'f', 'INT': 'f',
    'BITCNT': 'i', 'FIRSTBIT': 'i', 'LASTBIT': 'i', 'BITPOS': 'i', 'SGN': 'n', 'ABS': 'n',
    'TOUPPER': 'i', 'TOLOWER': 'i', 'UPSTRING': 's', 'LOWSTRING': 's', 'STRLEN': 's',
    'SUBSTR': 'sii', 'CHARFROMSTR': 'si', 'STRSTR': 'ss', 'VAL': 's', 'EXPRTYPE': 'a',
}
TRANSCENDENTAL = ('SIN', 'COS', 'TAN', 'COT', 'ASIN', 'ACOS', 'ATAN', 'ACOT', 'EXP', 'ALOG', 'ALD', 'SINH',
                  'COSH', 'TANH', 'COTH', 'LN', 'LOG', 'LD', 'ASINH', 'ACOSH', 'ATANH', 'ACOTH')


def _transc(name, x):
    """value or Undefined (outside the domain column of the table) or Silent"""
    if abs(x) > 1e6:
        raise Silent('large transcendental argument')
    if name == 'SIN':
        return math.sin(x)
    if name == 'COS':
        return math.cos(x)
    if name == 'TAN':
        if abs(math.cos(x)) < 1e-3:
            raise Silent('close to a pole')        # (2n+1)*pi/2 is not representable
        return math.tan(x)
    if name == 'COT':
        if x == 0.0:
            raise Undefined('cot(n*pi)')
        if abs(math.sin(x)) < 1e-3:
            raise Silent('close to a pole')
        return math.cos(x) / math.sin(x)
    if name in ('ASIN', 'ACOS'):
        if abs(x) > 1:
            raise Undefined('|arg| > 1')
        return math.asin(x) if name == 'ASIN' else math.acos(x)
    if name == 'ATAN':
        return math.atan(x)
    if name == 'ACOT':
        if x < 0:
            raise Silent('two conventions exist for acot of a negative number')
        return math.pi / 2 - math.atan(x)
    if name in ('EXP', 'SINH', 'COSH'):
        if abs(x) > 200:
            raise Silent('overflow region')
        return {'EXP': math.exp, 'SINH': math.sinh, 'COSH': math.cosh}[name](x)
    if name == 'ALOG':
        if abs(x) > 100:
            raise Silent('overflow region')
        return 10.0 ** x
    if name == 'ALD':
        if abs(x) > 300:
            raise Silent('overflow region')
        return 2.0 ** x
    if name == 'TANH':
        return math.tanh(x)
    if name == 'COTH':
        if x == 0.0:
            raise Undefined('coth(0)')
        if abs(x) < 1e-3:
            raise Silent('close to the pole')
        return 1.0 / math.tanh(x)
    if name in ('LN', 'LOG', 'LD'):
        if x <= 0:
            raise Undefined('logarithm of a non-positive number')
        return {'LN': math.log, 'LOG': math.log10, 'LD': math.log2}[name](x)
    if name == 'ASINH':
        return math.asinh(x)
    if name == 'ACOSH':
        if x < 1:
            raise Undefined('acosh(<1)')
        return math.acosh(x)
    if name == 'ATANH':
        # the table says "arg < 1"; mathematically |arg| < 1.  >= 1 violates both,
        # <= -1 only the second: not generated
        if x >= 1:
            raise Undefined('atanh(>=1)')
        if x <= -1:
            raise Silent('atanh(<=-1)')
        return math.atanh(x)
    if name == 'ACOTH':
        # table: arg > 1
        if -1 <= x <= 1:
            raise Undefined('acoth(|x|<=1)')
        if x < -1:
            raise Silent('acoth(<-1): table says arg > 1, mathematics says defined')
        return 0.5 * math.log((x + 1) / (x - 1))
    raise AssertionError(name)


def ascii_upper(b):
    return bytes(c - 32 if 97 <= c <= 122 else c for c in b)


def ascii_lower(b):
    return bytes(c + 32 if 65 <= c <= 90 else c for c in b)


def apply_func(name, args, evaluator=None):
    """args: list of values.  returns (value, approx)"""
    sig = FUNCS[name]
    if len(args) != len(sig):
        raise IllTyped('argument count')
    conv = []
    for k, v in zip(sig, args):
        t = v[0]
        if k == 'a':
            conv.append(v)
        elif k == 's':
            if t != 's':
                raise IllTyped('%s expects a string' % name)
            conv.append(v)
        elif k == 'i':
            if t == 's':
                v = ('i', str2int(v[1]))      # string -> integer "on the fly"
            elif t != 'i':
                raise IllTyped('%s expects an integer' % name)     # "INT has to be applied"
            conv.append(v)
        elif k == 'f':
            if t == 's':
                raise Silent('string where a float is expected')
            conv.append(('f', to_float(v)))
        elif k == 'n':
            if t == 's':
                raise Silent('string where a number is expected')
            conv.append(v)
    a = conv[0]
    if name in TRANSCENDENTAL:
        return ('f', fcheck(_transc(name, a[1]))), True
    if name == 'SQRT':
        if a[1] < 0:
            raise Undefined('sqrt(<0)')
        return ('f', fcheck(math.sqrt(a[1]))), False       # correctly rounded by IEEE 754
    if name == 'INT':
        # the table says the result is floating point, the text below it says integer;
        # "integer part" of a negative fraction is floor for some and truncation for others.
        # The model returns an integer; the generator only lets it be compared with `=`
        # (same outcome for both result types) and only feeds it values where floor == trunc.
        x = a[1]
        if abs(x) >= 2.0 ** 31:
            raise Silent('INT outside the +/-2.0E9 range named by the manual')
        if x < 0 and x != math.floor(x):
            raise Silent('integer part of a negative fraction')
        return ('i', int(math.floor(x))), False
    if name == 'BITCNT':
        return ('i', bin(a[1] & MASK).count('1')), False
    if name == 'FIRSTBIT':
        u = a[1] & MASK
        return ('i', -1 if u == 0 else (u & -u).bit_length() - 1), False
    if name == 'LASTBIT':
        u = a[1] & MASK
        return ('i', u.bit_length() - 1), False
    if name == 'BITPOS':
        u = a[1] & MASK
        if u == 0 or u & (u - 1):
            raise Undefined('BITPOS: not exactly one bit set')      # "-1 ... additionally issues an error"
        return ('i', u.bit_length() - 1), False
    if name == 'SGN':
        x = a[1]
        return ('i', (x > 0) - (x < 0)), False
    if name == 'ABS':
        if a[0] == 'i':
            return ('i', s64(abs(a[1]))), False
        return ('f', abs(a[1])), False
    if name in ('TOUPPER', 'TOLOWER'):
        c = a[1]
        if not 0 <= c <= 127:
            raise Silent('character code outside ASCII')
        if name == 'TOUPPER':
            return ('i', c - 32 if 97 <= c <= 122 else c), False
        return ('i', c + 32 if 65 <= c <= 90 else c), False
    if name in ('UPSTRING', 'LOWSTRING'):
        if any(c > 127 for c in a[1]):
            raise Silent('national characters')
        return ('s', ascii_upper(a[1]) if name == 'UPSTRING' else ascii_lower(a[1])), False
    if name == 'STRLEN':
        return ('i', len(a[1])), False
    if name == 'SUBSTR':
        s, start, cnt = a[1], conv[1][1], conv[2][1]
        if cnt < 0:
            raise Silent('negative character count')
        if start < 0:
            start = 0                        # "smaller than zero is treated as zero"
        if start >= len(s):
            return ('s', b''), False         # "larger or equal to the length: empty string"
        if cnt == 0:
            return ('s', s[start:]), False   # "0 means to extract all characters up to the end"
        return ('s', s[start:start + cnt]), False
    if name == 'CHARFROMSTR':
        s, pos = a[1], conv[1][1]
        if pos < 0 or pos >= len(s):
            return ('i', -1), False
        return ('i', s[pos]), False
    if name == 'STRSTR':
        if len(conv[1][1]) == 0:
            raise Silent('empty search pattern')
        return ('i', a[1].find(conv[1][1])), False
    if name == 'EXPRTYPE':
        return ('i', {'i': 0, 'f': 1, 's': 2}[a[0]]), False
    if name == 'VAL':
        if evaluator is None:
            raise Silent('VAL without evaluator')
        return evaluator(a[1])
    raise AssertionError(name)


# ---------------------------------------------------------------------------
# expression trees

class Node:
    __slots__ = ('kind', 'op', 'kids', 'text', 'val', 'approx', 'depth', 'size', 'meta')

    def __init__(self, kind, op=None, kids=(), text=None, val=None, approx=False, meta=None):
        self.kind = kind          # 'lit' | 'sym' | 'bin' | 'un' | 'call'
        self.op = op
        self.kids = list(kids)
        self.text = text          # for leaves: source text (already parenthesised where needed)
        self.val = val
        self.approx = approx
        self.meta = meta
        self.depth = 1 + max([k.depth for k in self.kids] or [0])
        self.size = 1 + sum(k.size for k in self.kids)

    def subtrees(self):
        yield self
        for k in self.kids:
            for s in k.subtrees():
                yield s


def render(n, form='full', subst=None, expand=False):
    """form: 'full' every operator application in brackets; 'min' only the brackets the rank
    table requires (left-to-right grouping among equal ranks); 'sp' like 'min' with blanks
    around dyadic operators.  subst: parameter index -> text that replaces the parameter of a
    user-defined function (already bracketed); expand: user-defined function calls are replaced by their formula"""
    if n.kind == 'sym' and subst is not None and isinstance(n.meta, tuple) and n.meta[0] == 'param':
        return subst[n.meta[1]]
    if n.kind in ('lit', 'sym'):
        return n.text
    if n.kind == 'ucall' and expand:
        # the same formula written inline: every parameter replaced by the bracketed argument
        f = n.meta
        args = {i: '(' + render(k, form, subst, False) + ')' for i, k in enumerate(n.kids)}
        return '(' + render(f.body, 'full', args, False) + ')'
    if n.kind == 'ucall':
        return '%s(%s)' % (n.op, ','.join(render(k, form, subst, expand) for k in n.kids))
    if n.kind == 'tri':
        # ((a<b)+(a>b)) for two different strings: 1 under every collating order
        a, b = [('(%s)' if k.kind in ('bin', 'un') else '%s') % render(k, form, subst, expand) for k in n.kids]
        return '((%s%s%s)+(%s%s%s))' % (a, n.op[0], b, a, n.op[1], b)
    if n.kind == 'call':
        if n.op == 'VAL' and n.text:
            return n.text
        return '%s(%s)' % (n.meta or n.op, ','.join(render(k, form, subst, expand) for k in n.kids))
    if n.kind == 'un':
        k = n.kids[0]
        t = render(k, form, subst, expand)
        if k.kind in ('bin', 'un'):
            t = '(' + t + ')'
        return n.op + t
    # binary
    l, r = n.kids
    lt, rt = render(l, form, subst, expand), render(r, form, subst, expand)
    if form == 'full':
        if l.kind in ('bin', 'un'):
            lt = '(' + lt + ')'
        if r.kind in ('bin', 'un'):
            rt = '(' + rt + ')'
        return lt + n.op + rt
    rk = RANK[n.op]
    if l.kind == 'bin' and RANK[l.op] > rk:
        lt = '(' + lt + ')'
    if r.kind == 'bin' and RANK[r.op] >= rk:
        rt = '(' + rt + ')'
    # a monadic operator directly after a dyadic one: the manual gives both a rank, and the
    # operand of ~ / ~~ ends at the next operator of higher rank; as left operand no bracket
    # is needed either.  Adjacent operator characters could however be read as another
    # operator (a!~~b is fine, a~~~b is not): brackets where two operator signs would merge
    if r.kind == 'un' and _merges(n.op, r.op):
        rt = '(' + rt + ')'
    if form == 'sp':
        return lt + ' ' + n.op + ' ' + rt
    return lt + n.op + rt




def _merges(a, b):
    # would the text a+b contain an operator spelling that starts in a and ends in b?
    s = a + b
    for i in range(len(a)):
        for j in range(len(a) + 1, len(s) + 1):
            if s[i:j] in RANK or s[i:j] in URANK:
                if not (i == 0 and j == len(a)):
                    return True
    return False


def vclass(v):
    t, x = v
    if t == 'i':
        return 'i0' if x == 0 else ('i+' if x > 0 else 'i-')
    if t == 'f':
        return 'f0' if x == 0 else ('f+' if x > 0 else 'f-')
    if len(x) == 0:
        return 's0'
    return 's^' if any(c > 127 for c in x) else 's'


def vtype(v):
    return v[0]


# ---------------------------------------------------------------------------
# user-defined functions (doc/pseudo-instructions.md, FUNCTION): "When the function is called,
# all parameters are calculated once and are then inserted into the function's formula":
# the value of f(a, b) is the value of the formula with the parameters bound to the VALUES
# of a and b.

class UFunc:
    def __init__(self, name, pnames, ptypes, body, linear=False):
        self.name = name
        self.pnames = pnames
        self.ptypes = ptypes
        self.body = body
        self.linear = linear      # formula only adds/doubles its argument: libm results may pass through

    def definition(self):
        return '%s\tfunction\t%s,%s' % (self.name, ','.join(self.pnames), render(self.body, 'full'))


def evaluate(n, env=None):
    """structural evaluation of a tree with the parameters of a user-defined function bound to
    env (list of values).  returns (value, approx)"""
    k = n.kind
    if k == 'lit':
        return n.val, False
    if k == 'sym':
        if isinstance(n.meta, tuple) and n.meta[0] == 'param':
            return env[n.meta[1]]
        return n.val, False
    sub = [evaluate(c, env) for c in n.kids]
    vals = [v for v, _ in sub]
    tainted = any(a for _, a in sub)
    if k == 'ucall':
        f = n.meta
        if tainted and not f.linear:
            raise Silent('libm result fed into a non-trivial formula')
        return evaluate(f.body, sub)
    if k == 'tri':
        if tainted or vals[0][0] != 's' or vals[1][0] != 's' or vals[0][1] == vals[1][1]:
            raise Silent('trichotomy needs two different strings')
        return ('i', 1), False
    if k == 'bin':
        if tainted and not (n.op in ('+', '*') and all(v[0] in 'if' for v in vals)):
            raise Silent('libm result fed into another operator')
        v, ap = apply_bin(n.op, vals[0], vals[1])
        return v, ap or tainted
    if tainted:
        raise Silent('libm result fed into another operator')
    if k == 'un':
        return apply_un(n.op, vals[0])
    if k == 'call':
        if n.op == 'VAL':
            raise Silent('VAL inside a user-defined function')
        return apply_func(n.op, vals)
    raise AssertionError(k)


def instantiate(n, args=None, limit=200):
    """the tree of the same formula written inline: calls of user-defined functions replaced by
    their formula with the argument trees in place of the parameters (as long as the text stays
    below `limit` characters, otherwise an inner call is kept)"""
    if n.kind == 'sym' and isinstance(n.meta, tuple) and n.meta[0] == 'param':
        return args[n.meta[1]]
    if n.kind in ('lit', 'sym'):
        return n
    kids = [instantiate(k, args, limit) for k in n.kids]
    if n.kind == 'ucall':
        inner = instantiate(n.meta.body, kids, limit)
        if len(render(inner, 'full')) <= limit:
            return inner
    new = Node(n.kind, n.op, kids, text=None, meta=n.meta)
    new.val, new.approx = evaluate(new)
    return new
